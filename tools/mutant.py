#!/venv/bin/python
"""Run registered checks against a scratch copy of /repo with a patch applied.

    tools/mutant.py PATCH ID [ID...] [--tier quick] [--tests]

Copies /repo/TexSoup (+tests with --tests) to a temporary directory outside
/repo and /verif, applies PATCH (git apply), runs `run_check.py ID` with
VERIF_REPO pointing at the copy, prints one line per check, removes the copy.
Exit status 0 iff every listed check reported a violation (exit 1).
"""
import argparse, os, shutil, subprocess, sys, tempfile, time

ap = argparse.ArgumentParser()
ap.add_argument('patch')
ap.add_argument('ids', nargs='+')
ap.add_argument('--tier', default='quick')
ap.add_argument('--tests', action='store_true', help='also run the repository test-suite on the copy')
ap.add_argument('--seed', default='1')
ap.add_argument('-v', action='store_true')
a = ap.parse_args()
here = os.path.dirname(os.path.dirname(os.path.abspath(__file__)))
tmp = tempfile.mkdtemp(prefix='mutant.')
try:
    for name in ('TexSoup', 'tests', 'pytest.ini', 'setup.py', 'README.md', 'docs'):
        src = os.path.join('/repo', name)
        dst = os.path.join(tmp, name)
        if os.path.isdir(src):
            shutil.copytree(src, dst, ignore=shutil.ignore_patterns('__pycache__'))
        elif os.path.exists(src):
            shutil.copy(src, dst)
    subprocess.run(['git', 'init', '-q'], cwd=tmp, check=True)
    r = subprocess.run(['git', 'apply', os.path.abspath(a.patch)], cwd=tmp, capture_output=True, text=True)
    if r.returncode != 0:
        print('PATCH DOES NOT APPLY:', r.stderr); sys.exit(2)
    if a.tests:
        r = subprocess.run(['/venv/bin/python', '-m', 'pytest', '-q', '-p', 'no:cacheprovider'], cwd=tmp,
                           capture_output=True, text=True)
        print('tests:', r.stdout.strip().splitlines()[-1] if r.stdout.strip() else r.stderr[-300:])
    allcaught = True
    for pid in a.ids:
        env = dict(os.environ, VERIF_REPO=tmp, VERIF_SEED=a.seed)
        t = time.time()
        r = subprocess.run(['/venv/bin/python', os.path.join(here, 'run_check.py'), pid, '--tier', a.tier],
                           cwd=here, env=env, capture_output=True, text=True)
        kinds = [l.strip() for l in r.stdout.splitlines() if l.strip().startswith('kind=')]
        print('%s exit=%d %.1fs %s' % (pid, r.returncode, time.time() - t, ' | '.join(kinds)[:300]))
        if a.v or r.returncode == 2:
            print(r.stdout[-3000:]); print(r.stderr[-3000:])
        if r.returncode != 1:
            allcaught = False
    sys.exit(0 if allcaught else 1)
finally:
    shutil.rmtree(tmp, ignore_errors=True)
