#!/venv/bin/python
"""Confirm a sub-agent's seeded change in a scratch git worktree of /repo and file it under /verif/seeded/.

    tools/confirm_seeded.py SRC_DIR SEED_ID [CHECK_ID ...]

SRC_DIR holds patch.diff, demo.py, meta.json.  Steps (all in a worktree under /tmp, removed afterwards):
 demo on the clean tree (must exit 0) -> git apply patch -> repository test-suite (must be 164 passed) ->
 demo (must exit 1) -> listed checks with VERIF_REPO=<worktree> (exit 1 expected).
"""
import json, os, shutil, subprocess, sys, tempfile, time

src, seed_id = sys.argv[1], sys.argv[2]
checks = sys.argv[3:]
HERE = os.path.dirname(os.path.dirname(os.path.abspath(__file__)))
wt = tempfile.mkdtemp(prefix='seedwt.')
os.rmdir(wt)
ran = []


def run(cmd, **kw):
    t = time.time()
    r = subprocess.run(cmd, capture_output=True, text=True, **kw)
    return r, time.time() - t


try:
    subprocess.run(['git', '-C', '/repo', 'worktree', 'add', '--detach', wt, 'HEAD'], check=True, capture_output=True)
    demo = os.path.join(src, 'demo.py')
    r, _ = run(['/venv/bin/python', demo, wt])
    ran.append('demo on clean worktree: exit %d' % r.returncode)
    clean_ok = r.returncode == 0
    r, _ = run(['git', '-C', wt, 'apply', os.path.abspath(os.path.join(src, 'patch.diff'))])
    if r.returncode != 0:
        print('PATCH DOES NOT APPLY', r.stderr)
        sys.exit(2)
    r, _ = run(['/venv/bin/python', '-m', 'pytest', '-q', '-p', 'no:cacheprovider'], cwd=wt)
    tail = r.stdout.strip().splitlines()[-1] if r.stdout.strip() else ''
    ran.append('test-suite with change: %s' % tail)
    tests_ok = '164 passed' in tail and 'failed' not in tail
    r, _ = run(['/venv/bin/python', demo, wt])
    ran.append('demo with change: exit %d: %s' % (r.returncode, (r.stdout.strip().splitlines() or [''])[0][:200]))
    demo_ok = r.returncode == 1
    results = {}
    for pid in checks:
        env = dict(os.environ, VERIF_REPO=wt)
        r, dt = run(['/venv/bin/python', os.path.join(HERE, 'run_check.py'), pid, '--tier', 'quick'], cwd=HERE, env=env)
        kinds = [l.strip()[5:] for l in r.stdout.splitlines() if l.strip().startswith('kind=')]
        results[pid] = {'exit': r.returncode, 'seconds': round(dt, 1), 'kinds': kinds[:6]}
        ran.append('run_check.py %s --tier quick with change: exit %d (%s)' % (pid, r.returncode, ', '.join(kinds[:3])))
    meta = json.load(open(os.path.join(src, 'meta.json')))
    meta.update({'seed_id': seed_id, 'confirmed': {'demo_clean_exit0': clean_ok, 'tests_164_passed': tests_ok,
                                                   'demo_with_change_exit1': demo_ok},
                 'checks': results, 'ran_by_verifier': ran,
                 'base_commit': subprocess.run(['git', '-C', '/repo', 'rev-parse', '--short', 'HEAD'],
                                               capture_output=True, text=True).stdout.strip()})
    ok = clean_ok and tests_ok and demo_ok
    print(seed_id, 'CONFIRMED' if ok else 'NOT-CONFIRMED', json.dumps(meta['confirmed']), json.dumps(results))
    if ok:
        dst = os.path.join(HERE, 'seeded', seed_id)
        os.makedirs(dst, exist_ok=True)
        shutil.copy(os.path.join(src, 'patch.diff'), dst)
        shutil.copy(demo, dst)
        json.dump(meta, open(os.path.join(dst, 'meta.json'), 'w'), indent=1)
finally:
    subprocess.run(['git', '-C', '/repo', 'worktree', 'remove', '--force', wt], capture_output=True)
    shutil.rmtree(wt, ignore_errors=True)
