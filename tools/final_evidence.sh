#!/bin/sh
# Final pass: every quick check at VERIF_SEED=1 in /verif against /repo (rewrites evidence/*.json), then the generated files.
cd "$(dirname "$0")/.."
rm -rf replays
SEEDS=1 sh tools/sweep.sh | tee notes/final_quick_run.log
/venv/bin/python tools/gen_manifest.py
/venv/bin/python tools/gen_known.py
python3 tools/gen_matrix.py
