#!/bin/sh
# Offline setup: make sure Hypothesis is importable by /venv/bin/python, byte-compile the checker.
set -e
cd "$(dirname "$0")/.."
if ! /venv/bin/python -c "import hypothesis" 2>/dev/null; then
    PIP_NO_INDEX=1 /venv/bin/pip install --no-index --find-links /opt/veriftools/wheels hypothesis
fi
/venv/bin/python -m compileall -q run_check.py vlib checks tools >/dev/null 2>&1 || true
/venv/bin/python -c "import hypothesis, sys; sys.path.insert(0,'.'); import vlib.harness; print('setup ok: hypothesis', hypothesis.__version__)"
