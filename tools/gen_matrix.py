#!/usr/bin/env python3
"""Rebuilds the seeded-change matrix of DESIGN.md (section 9.5) from seeded/*/meta.json.

The table stands between the marker lines `<!-- seeded-matrix:begin -->` and `<!-- seeded-matrix:end -->`;
when the markers are missing the old table (from its header row to the next blank line) is replaced."""
import json
import os
import re

HERE = os.path.dirname(os.path.dirname(os.path.abspath(__file__)))
HEAD = '| seeded change | what was changed (sub-agent\'s summary, shortened) | detected by (failure kinds) | not detected by |'


def order(name):
    m = re.match(r'C(\d+)-(?:r(\d+))?m(\d+)', name)
    return (int(m.group(1)), int(m.group(2) or 1), int(m.group(3))) if m else (99, 0, 0)


def short_kind(k, pid):
    k = k[len(pid) + 1:] if k.startswith(pid + ':') else k
    return re.sub(r':[a-z_<>]+$', '', k) if '@' in k else k


def main():
    rows = [HEAD, '|---|---|---|---|']
    names = sorted((d for d in os.listdir(os.path.join(HERE, 'seeded')) if os.path.isdir(os.path.join(HERE, 'seeded', d))), key=order)
    n = hit_own = 0
    for name in names:
        meta = json.load(open(os.path.join(HERE, 'seeded', name, 'meta.json')))
        det, miss = [], []
        for pid, r in sorted(meta.get('checks', {}).items()):
            if r.get('exit') == 1:
                kinds = sorted({short_kind(k, pid) for k in r.get('kinds', [])})
                det.append('%s (%s)' % (pid, ','.join(kinds)))
            else:
                miss.append(pid)
        n += 1
        if meta.get('checks', {}).get(meta.get('property'), {}).get('exit') == 1:
            hit_own += 1
        summary = (meta.get('summary') or '').replace('|', '\\|').replace('\n', ' ')[:140]
        rows.append('| %s | %s | %s | %s |' % (name, summary, '; '.join(det) or '-', ', '.join(miss)))
    table = '\n'.join(rows)
    path = os.path.join(HERE, 'DESIGN.md')
    s = open(path).read()
    b, e = '<!-- seeded-matrix:begin -->', '<!-- seeded-matrix:end -->'
    if b in s and e in s:
        s = s[:s.index(b) + len(b)] + '\n' + table + '\n' + s[s.index(e):]
    else:
        i = s.index(HEAD)
        j = s.find('\n\n', i)
        j = len(s) if j < 0 else j
        s = s[:i] + b + '\n' + table + '\n' + e + s[j:]
    open(path, 'w').write(s)
    print('%d seeded changes, %d detected by the quick tier of their own property\'s check' % (n, hit_own))


if __name__ == '__main__':
    main()
