#!/bin/sh
# Run the quick checks that are anchored in the files a behaviour-preserving variant touches; any exit != 0 of a check
# is a (candidate) false alarm.  Usage: tools/benign_poll.sh DIR LOG   (DIR holds <B>/v<k>/{patch.diff,meta.json})
DIR=${1:-/tmp/benout}
LOG=${2:-/tmp/w/benign.log}
cd "$(dirname "$0")/.."
n=0
while [ $n -lt 400 ]; do
  for d in "$DIR"/*/v*; do
    id=$(basename "$(dirname "$d")")-$(basename "$d")
    if [ -f "$d/meta.json" ] && [ -f "$d/patch.diff" ] && ! grep -q "^== $id " "$LOG" 2>/dev/null; then
      ids=""
      grep -q "^+++ b/TexSoup/reader.py" "$d/patch.diff" && ids="$ids C01 C02 C06 C07 C08 C09 C10 C11 C12 C16"
      grep -q "^+++ b/TexSoup/tokens.py" "$d/patch.diff" && ids="$ids C01 C06 C08 C09 C10 C12 C16 C17 C19"
      grep -q "^+++ b/TexSoup/data.py" "$d/patch.diff" && ids="$ids C01 C02 C03 C04 C05 C13 C14 C15 C17 C18"
      grep -q "^+++ b/TexSoup/utils.py" "$d/patch.diff" && ids="$ids C20 C13 C19 C01 C06 C09"
      grep -q -E "^\+\+\+ b/TexSoup/(category|tex|__init__).py" "$d/patch.diff" && ids="$ids C19 C17 C01 C06"
      ids=$(echo $ids | tr ' ' '\n' | sort -u | tr '\n' ' ')
      echo "== $id [$ids]" >> "$LOG"
      tools/mutant.py "$d/patch.diff" $ids --tests 2>&1 | grep -v conda >> "$LOG"
    fi
  done
  c=$(grep -c "^== " "$LOG" 2>/dev/null || echo 0)
  [ "$c" -ge "${EXPECT:-24}" ] && break
  sleep 120
  n=$((n+1))
done
