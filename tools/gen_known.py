#!/usr/bin/env python3
"""Rebuilds known_findings.json (run by hand after a fix: commit; never at check time)."""
import json, os, subprocess
HERE = os.path.dirname(os.path.dirname(os.path.abspath(__file__)))
log = subprocess.run(['git', '-C', '/repo', 'log', '--format=%h %s', '88600a6..HEAD'], capture_output=True, text=True).stdout.strip().splitlines()


def h(sub):
    for l in log:
        if sub in l:
            return l.split()[0]
    raise SystemExit('no commit for ' + sub)


F = []


def fixed(props, commit, what, regress):
    for p in props:
        F.append({'status': 'fixed', 'property': p, 'id': what.split(':')[0],
                  'line': 'fixed: property=%s %s %s' % (p, commit, what), 'regress': regress})


def known(prop, fid, what, repro, match):
    F.append({'status': 'known', 'property': prop, 'id': fid, 'what': what, 'repro': repro, 'match': match})


fixed(['C06'], h('lone backslash'), r"D1: TexSoup('a\\') (escape at end of input) raised RuntimeError(generator raised StopIteration)", 'regress/C06/d1_*.json')
fixed(['C06', 'C20'], h('forward_until'), r"D2: TexSoup('\\begin{verbatim}') / Buffer.forward_until at exhaustion raised AttributeError", 'regress/C06/d2_*.json, regress/C20/d2_*.json')
fixed(['C06', 'C19'], h('ignored characters'), r"D3: NUL/DEL at a token start: TexSoup('\x00') raised AttributeError, tokenize('\x00$') yielded an empty token", 'regress/C06/d3_*.json, regress/C19/d3_*.json')
fixed(['C17'], h('missing comma'), r"D7: \left.| tokenised as left.+| or left.| depending on PYTHONHASHSEED", 'regress/C17/d7_*.json')
fixed(['C13'], h('char_pos_to_line'), r"D12: char_pos_to_line(offset of a line break) returned (line+1, -1)", 'regress/C13/d12_*.json')
fixed(['C09', 'C01'], h('item reader peeks'), r"D10: \item a \x b[ c raised TypeError(Malformed argument) (item reader peeked commands with a forced argument)", 'regress/C09/d10_*.json')
fixed(['C08'], h('consume the'), r"D15: \begin{a}\end {a} and \begin{\a}x\end{\a} serialised with an invented '}'; \end[a] accepted and printed as \end{a}", 'regress/C08/d15_*.json')
fixed(['C08'], h('must be followed by a brace'), r"D13: \begin[a]x\end{a} accepted and serialised as \begin{a}x\end{a}", 'regress/C08/d13_*.json')
fixed(['C18'], h('TexArgs.insert'), r"D9: TexArgs.insert(-1|len+k, g) raised after mutating, pop() needed an index, pop(i) with twins returned the wrong object", 'regress/C18/d9_*.json')
fixed(['C05', 'C15'], h('delete, replace and remove'), r"D5: delete/replace/remove on the second of two textually equal siblings edited the first", 'regress/C05/d5_*.json')
fixed(['C15'], h('inserted or appended'), r"D8: inserted TexNode/str stored unwrapped: inner commands not found by find_all, .text missed inserted strings", 'regress/C15/d8_*.json')
fixed(['C01', 'C02', 'C09'], h('looks only at'), r"D11: \begin{e}x\end{e}[a raised TypeError and \begin{align}\end{align}{\begin{itemize}\item\end{itemize}} raised AssertionError (peek of \end over-read the following groups)", 'regress/C01/d11_*.json')
fixed(['C08', 'C07'], h('blanks inside the braces'), r"D14: \begin{ a }x\end{a} accepted and serialised without the blanks inside the name braces", 'regress/C08/d14_*.json')
fixed(['C01', 'C02'], h('reaches items, groups'), r"D6: \item \begin{verbatim} $ \end{verbatim} failed (skip list not propagated into items, groups, arguments, math)", 'regress/C01/d6_*.json')
fixed(['C08', 'C16'], h('named [tex]'), r"D16: \begin{[tex]}x\end{[tex]} serialised as 'x'", 'regress/C08/d16_*.json')
fixed(['C18', 'C15'], h('proxy list in step by position'), r"D17: with the same group object held twice next to a textual twin, insert/remove desynchronised the proxy .all and a following pop(i) returned the wrong group", 'regress/C18/d17_*.json')
fixed(['C06'], h('compared without parsing its group'), r"D18: tolerant parsing of '\begin{a}\end{' repeated n times took 2^n steps (n=18: a minute; within the stated depth bound of 40 it never finished); reported by a round-3 sub-agent, present in the pinned tree as well", 'regress/C06/d18_*.json')
EXTRA = os.path.join(HERE, 'tools', 'known_extra.json')
if os.path.exists(EXTRA):
    for e in json.load(open(EXTRA)):
        F.append(e)
json.dump({'comment': 'Committed list of genuine defects. status=known: recorded, not repaired (checks print KNOWN-FINDING and keep searching); status=fixed: repaired by the named fix: commit in /repo, suppresses nothing. Never written at run time.',
           'findings': F}, open(os.path.join(HERE, 'known_findings.json'), 'w'), indent=1)
print(len(F), 'entries')
