#!/usr/bin/env python3
"""Regenerates /verif/MANIFEST.json from the table below (keeps it schema-valid)."""
import json
import os
import subprocess

HERE = os.path.dirname(os.path.dirname(os.path.abspath(__file__)))
PY = '/venv/bin/python'

# id -> (technique, level text, level note, DESIGN section)
CHECKS = {
    'C20': ('bounded-exhaustive operation sequences + Hypothesis histories vs list+index model',
            'every operation sequence up to depth 3 over 73 operation templates (thorough: also depth 4 over a core of 24) and 13 '
            'string- and token-backed sources is executed on a fresh Buffer and on a list+index model, comparing '
            'return value, exception class and cursor after every step; random histories of up to 40 steps beyond, and histories on buffers of thousands of items whose single moves / look-aheads / scans span 33..1025 items. '
            'Exploration: absence is shown only within those bounds.',
            'trusts the model (a Python list and an int) and the tokenizer only as a source of token sequences',
            '3/C20'),
}

CHECKS['C18'] = (
    'bounded-exhaustive operation sequences + Hypothesis histories vs Python list model',
    'every sequence up to depth 3 (quick: full set from two initial lists, depth 2 from five more, a reduced set of 62 at depth 3 from all seven; thorough: full set everywhere and depth 4 over the reduced set from two lists) of ~100 list operations '
    '(append/extend/insert at boundary indices/remove/pop/reverse/clear/indexing/slicing; object, coercible-string and '
    'mismatched-string arguments; textual twins) on argument lists of length 0..2 owned by a command is run against a '
    'Python list of the same objects: elements by identity, return values, exception classes, str(args), str(owner). '
    'Exploration within those bounds.',
    'trusts Python list semantics; the whitespace proxy TexArgs.all is measured but not judged (not in the statement)',
    '3/C18')

CHECKS['C19'] = (
    'exhaustive code-point sweep + bounded-exhaustive strings + Hypothesis strings, two-pointer partition oracle',
    'all 1,114,112 code points (alone and embedded) and every string of <=3 (quick) / <=4 (thorough) symbols over a '
    '37-symbol category/word alphabet are categorised and tokenised; oracle: one category item per character with its '
    'index; tokens non-empty, aligned left-to-right against the input skipping only NUL/DEL, each recording the offset '
    'where its text starts. Random strings up to 60 symbols and 14 units repeated to 25 exact lengths up to 70,001 characters beyond. Exhaustive within the stated bounds, exploration beyond.',
    'trusts str indexing; does not judge WHICH category a character gets, only that it is exactly one, context-free',
    '3/C19')

CHECKS['C01'] = (
    'grammar-based generation (Hypothesis composite) + round-trip / source-slice oracle',
    'documents are constructed from a grammar of the documented constructs together with their syntax tree; a '
    'normaliser repairs lexical hazards by construction (counted); oracle: parse succeeds, str(soup)==source, every '
    'node/argument/text leaf equals the source slice at its recorded position; plus the repository samples and '
    'documentation literals. ~10k documents quick, ~85k thorough. Exploration.',
    'trusts the generator/renderer (validated against the parser on >50k documents); includes synthetic long constructs, documents of up to 70K characters and chains nested as deeply as the pinned tree can handle',
    '3/C01')
CHECKS['C02'] = (
    'grammar-based generation + canonical-tree equality against the generating syntax tree',
    'the syntax tree a document was rendered from is the oracle: canonical nested tuples (kind, name, argument kinds/'
    'order/contents, nesting; comments separate; adjacent text merged) of TexSoup\'s tree must equal those of the '
    'syntax tree. Profiles enriched for lists and \\newcommand-style definitions. Exploration.',
    'trusts the generator; reads the node\'s own content list through one adapter (oracles.body_of)',
    '3/C02')

CHECKS['C03'] = (
    'grammar-based generation + search oracle computed from the generating syntax tree',
    'for generated documents (names drawn from small pools so that they repeat across containers) every occurring name, '
    'absent names, name lists and full-expression queries are searched from the document and from a spread of inner '
    'nodes; expected result sets (source offsets) come from the syntax tree, never from TexSoup; find/count/attribute '
    'access are checked against find_all. Exploration.',
    'result order is not judged; internal names of unnamed regions are not queried',
    '3/C03')
CHECKS['C04'] = (
    'grammar-based generation + relational invariants between navigation views at every node',
    'for every node of every generated document (whitespace-rich profiles) the relations between expr.all, contents, '
    'children, iteration/indexing, descendants (closure, no duplicates), text (order, offsets) and parent links are '
    'checked by object identity. Exploration.',
    'fresh parses; up to 60 nodes per document',
    '3/C04')
CHECKS['C13'] = (
    'grammar-based generation + exhaustive {a,LF} strings, reference offset/line/column/regex oracles',
    'positions of all nodes/arguments/text tokens are compared with source slices; char_pos_to_line is compared with a '
    'count/rfind reference at every offset of every document and of all strings over {a,LF} up to length 11 (14 '
    'thorough, exhaustive); search_regex is compared with re.finditer over the text leaves for 19 regexes (groups, look-around, precompiled); the line map is asked front to back, back to front and scattered on one parse; documents of 9K..70K characters and twin paragraphs of more than 1K. Exploration '
    '(exhaustive for the line map within the bound).',
    'fresh parses only; LF line structure',
    '3/C13')

CHECKS['C06'] = (
    'bounded-exhaustive strings over token-kind alphabets + systematic mutation of generated documents + deep chains, outcome classifier with watchdog',
    'every string up to a length bound over three alphabets (one representative per character category and per token '
    'kind), random strings, all prefixes/deletions/transpositions/insertions of generated well-formed documents and '
    'chains of up to 40 nested constructs (random mixes and every opener alone at depths 10-40) are parsed in both tolerance modes under a watchdog; any outcome other than '
    'a tree or one of the documented diagnostics is a leak. ~0.35M strings quick, ~2M thorough. Exhaustive within the '
    'length bounds, exploration beyond.',
    'the watchdog (30 s, re-run 120 s) decides "hang"; documented diagnostics are recognised by type and message fragment',
    '3/C06')

CHECKS['C08'] = (
    'bounded-exhaustive + random + mutated strings, conservation aligner (input vs output)',
    'every string up to a length bound over the construct-token and category alphabets, random strings, single-fault '
    'mutations of generated documents and whitespace-spaced renderings of generated documents that satisfy the two side '
    'conditions (lexical scanner) and parse in strict mode is aligned against its serialisation: nothing may change '
    'except blank runs directly before { or [. Exhaustive within the length bound, exploration beyond.',
    'the scanner is conservative (declined strings are counted, not judged)',
    '3/C08')
CHECKS['C16'] = (
    'bounded-exhaustive + random + mutated strings and spaced generated documents, parse-serialise-parse metamorphic check',
    'for every in-domain string (C08 domain plus the sizing side condition) the saved text must parse again, save to '
    'the identical text and give the identical canonical tree (also for argument runs of 0..12 groups followed by blank lines / CR LF); for generated documents written with arbitrary attaching '
    'whitespace the saved text must equal the adjacent rendering of the same syntax tree. Exploration (exhaustive within '
    'the length bound).',
    'same scanner as C08; the generating syntax tree is the oracle for spaced documents',
    '3/C16')

CHECKS['C07'] = (
    'differential strict vs tolerant over enumerated/random/mutated strings + systematic single-closer fault injection into generated documents, closers-only aligner',
    '(1) on every enumerated/random/mutated string and generated document where strict parsing succeeds, tolerant '
    'parsing must give the identical tree and text; (2) every closer (group/argument/name-group brace, last argument '
    'bracket, \\end{name}) of generated documents without math/verbatim/list regions is deleted in turn: strict must '
    'reject with a documented error, tolerant must return; (3) every tolerant success on in-domain strings is aligned '
    'against its input allowing only inserted closers. Exploration (exhaustive within the enumeration bounds).',
    'C08 side conditions (lexical scanner) for sub-check 3; truncations are judged only when tolerant parsing returns',
    '3/C07')

CHECKS['C09'] = (
    'dedicated constructive generator (run shape x separators x contexts), exhaustive single-separator sweep + Hypothesis',
    'commands are built with 0..3 bracket and 0..4 brace groups (and runs of up to 12+12 groups) and a drawn attaching/detaching separator (incl. every ASCII punctuation character and separators longer than 32 characters) before each '
    'group, in 16 contexts; the oracle is computed by construction: the attached run ends at the first detaching '
    'separator, every attached group has exactly its source text, and the document serialises to the source minus the '
    'attaching separators inside the run, in both tolerance modes. Every separator at every position of every shape <=2+2 in every context is '
    'enumerated; random combinations and unpartnered brackets as text beyond. Exploration.',
    'the attaching/detaching classification of separators is taken from the property statement (one line break rule)',
    '3/C09')
CHECKS['C10'] = (
    'metamorphic payload substitution over exhaustive short payloads x contexts + Hypothesis',
    'the tree around a comment must not depend on its payload: for every payload of <=2 (quick) / <=3 (thorough) symbols '
    'of a 28-symbol hostile alphabet, in 16 contexts x 4 leads x even backslash counts, the canonical tree must equal the '
    'tree obtained with the payload REF after substituting the comment leaf; odd backslash counts must give an escaped '
    'percent with live text behind it. Exploration (exhaustive within the payload bound).',
    'the REF variant of each context is parsed by the code under test (metamorphic relation, not an absolute oracle)',
    '3/C10')
CHECKS['C11'] = (
    'constructive hostile-body generator + differential user-name vs built-in name + grammar fragments with/without skip_envs',
    'verbatim-like environments with hostile bodies (side conditions enforced by construction) under built-in and '
    'user-supplied names, at top level and nested in up to 3 environments: single uninterpreted text child equal to the '
    'body, no arguments, round trip, nothing searchable, no error; user-name and built-in-name documents must have equal '
    'trees up to the name; generated well-formed fragments must be opaque with the option and parsed into exactly the '
    'fragment\'s syntax tree without it. Exploration.',
    'only the placements the statement names (top level, inside named environments)',
    '3/C11')

CHECKS['C12'] = (
    'constructive math-region generator (kinds x bodies x neighbours x contexts), exhaustive pair/sizing/operator sweeps + Hypothesis',
    'documents with 1..3 math regions are built from known pieces, so the expected list of regions (delimiters or name, '
    'exact body source) and the commands inside them are known by construction; the tree must show exactly those math '
    'nodes in order with bodies that concatenate to the enclosed source, round-trip, and find every command. All ordered '
    'pairs of the 21 region kinds adjacent, every sizing prefix x delimiter and every zero-argument operator x bracket '
    'continuation are enumerated in 8 contexts; random combinations beyond. Exploration.',
    '$..$ directly followed by $ is outside the quantifier and never generated (counted)',
    '3/C12')

CHECKS['C05'] = (
    'grammar-based generation with forced textual twins + one fresh parse per edit, string-splice oracle from generator spans',
    'for generated documents in which identical nodes are frequent (small name/text pools, duplicated siblings, copies '
    'across argument groups and bodies of one parent) targets are chosen twin-first; delete / replace_with / '
    'parent.replace / parent.remove / insert at every content index / append are each applied to a fresh parse and the '
    'result is compared with the splice of the source string at the span the generator recorded. ~15k edits quick. Exploration.',
    'spans come from the generator; insertion offsets use the tree\'s own split of a body into elements; documents over 500 characters are skipped for cost (counted)',
    '3/C05')

CHECKS['C14'] = (
    'grammar-based generation + edit-the-syntax-tree-and-re-render oracle, one fresh parse per edit',
    'for generated documents (twin profile, strict separators) every kind of target (plain commands, \\item, plain/list/'
    'math/verbatim environments) is renamed, re-stringed or re-argumented (slices, permutations, in-place reverse / swap / sort / slice assignment, full-slice copies, '
    're-assignment of the node\'s own list) on a fresh parse; the same edit is applied to the generating syntax tree '
    'and re-rendered: text must match exactly, the search must see the change, and re-parsing must give the edited '
    'syntax tree. Exploration.',
    'documents over 500 characters are skipped for cost (counted); item renames and out-of-shape argument orders are judged on text and search only',
    '3/C14')

CHECKS['C15'] = (
    'model-based testing of edit histories: Hypothesis-generated (document, operation list) pairs + exhaustive depth-2/3 histories on tiny documents, nested-list reference model',
    'a reference document (nested Python lists with a render()) is built from the generating syntax tree and subjected to '
    'the same history of 14 kinds of edit (incl. moving a node by copy-insert-delete) as the TexSoup tree (targets by path, re-fetched each step; strings and freshly '
    'parsed fragment copies as material; edits inside and next to inserted material and on twins). After every step: '
    'text == model text; find_all for every model name == model occurrences; descendants == closure; parent chains end at '
    'the root; text view == model text leaves. ~18k random histories up to 14 steps + all depth-2 histories over 78 '
    'operation codes on 6 tiny documents (quick); 40 steps / depth 3 thorough. Exploration.',
    'the model is 150 lines of list manipulation; argument-list removal follows Python list semantics (first textually equal group)',
    '3/C15')

CHECKS['C17'] = (
    'differential testing across input forms and across interpreters with different hash seeds + interleaved parse/edit histories with identity sweep',
    '(1) every generated source is parsed as str and as 2-chunk splits at all (short sources) or a spread of split points, '
    'k-chunk splits with empties, lines, characters, StringIO and a real file: identical tree/text/line map/exception class, also under tolerance=1 and skip_envs; '
    '(2) a corpus incl. every sizing prefix x delimiter x continuation is parsed by 16 (96 thorough) fresh interpreters '
    'with different PYTHONHASHSEED: identical digests; (3) histories interleave parses (default, skip_envs, tolerance) '
    'of several sources with heavy edits of live trees; after each step fresh default parses equal their reference trees '
    '(from the generating syntax tree), untouched live trees are unchanged and no two trees share an expression / '
    'argument-list / content-list object. Exploration.',
    'hash seeds are sampled; temporary files live in a mkdtemp directory removed before exit',
    '3/C17')

PENDING = {}


def main():
    props = [json.loads(l) for l in open(os.path.join(HERE, 'properties.jsonl'))]
    checks = []
    na = []
    for p in props:
        pid = p['id']
        if pid in CHECKS and os.path.exists(os.path.join(HERE, 'checks', pid.lower() + '.py')):
            tech, text, note, ref = CHECKS[pid]
            checks.append({
                'property_id': pid,
                'quick_cmd': '%s run_check.py %s --tier quick' % (PY, pid),
                'thorough_cmd': '%s run_check.py %s --tier thorough' % (PY, pid),
                'evidence_file': 'evidence/%s.json' % pid,
                'replay_cmd_template': '%s run_check.py %s --replay {path}' % (PY, pid),
                'engine': 'pbt',
                'level_claimed': {'category': 'exploration', 'text': text, 'design_ref': 'DESIGN.md section ' + ref},
                'level_note': note,
                'technique': tech,
            })
        else:
            na.append({'property_id': pid,
                       'reason': PENDING.get(pid, 'check not built yet in this round (planned, see DESIGN.md section 3); not claimed until it exists')})
    try:
        commits = subprocess.run(['git', '-C', '/repo', 'log', '--format=%h %s', '88600a6..HEAD'],
                                 capture_output=True, text=True).stdout.strip().splitlines()
    except Exception:
        commits = []
    man = {
        'version': 1,
        'setup_cmd': 'sh tools/setup.sh',
        'hooks': {
            'guard': 'TEXSOUP_VERIF',
            'enable': 'none needed: every observation point is public Python state; checks import TexSoup from VERIF_REPO (default /repo)',
            'baseline_off_cmd': 'cd /repo && /venv/bin/python -m pytest -ra -q -p no:cacheprovider --timeout=900 --continue-on-collection-errors',
            'source_commits': [],
            'add_only': True,
        },
        'engines': [{
            'name': 'pbt', 'path': 'run_check.py',
            'serves_properties': [c['property_id'] for c in checks],
            'kind_free_text': 'Hypothesis 6.168 strategies / state machines + bounded-exhaustive enumeration, '
                              'explicit oracles (reference models, generating syntax tree, aligners), 16-way sharding',
        }],
        'checks': checks,
        'not_applicable': na,
        'notes': 'Repository repairs (unguarded fix: commits, listed in known_findings.json): ' + '; '.join(commits),
    }
    with open(os.path.join(HERE, 'MANIFEST.json'), 'w') as f:
        json.dump(man, f, indent=1)
    print('MANIFEST.json: %d checks, %d not claimed' % (len(checks), len(na)))


if __name__ == '__main__':
    main()
