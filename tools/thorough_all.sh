#!/bin/sh
# Run the thorough tier of every check once on the unchanged tree; log exit code and wall time.
cd "$(dirname "$0")/.."
LOG=${1:-notes/thorough_run.log}
[ "${FROM:-1}" = "1" ] && : > "$LOG"
for i in $(seq -w ${FROM:-1} 20); do
  s=$(date +%s)
  /venv/bin/python run_check.py C$i --tier thorough > /tmp/thorough_C$i.out 2>&1
  rc=$?
  e=$(date +%s)
  echo "C$i exit=$rc wall=$((e-s))s $(grep -v conda /tmp/thorough_C$i.out | tail -1)" >> "$LOG"
done
