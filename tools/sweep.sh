#!/bin/sh
# multi-seed sweep on the unchanged tree: every line must end with violations=0
cd "$(dirname "$0")/.."
for s in ${SEEDS:-2 3 4 5 6}; do
  for c in C01 C02 C03 C04 C05 C06 C07 C08 C09 C10 C11 C12 C13 C14 C15 C16 C17 C18 C19 C20; do
    VERIF_SEED=$s /venv/bin/python run_check.py $c --tier ${TIER:-quick} 2>&1 | grep -E "VIOLATION|kind=|HARNESS|tier=" | cut -c1-300
  done
done
