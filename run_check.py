#!/venv/bin/python
"""Entry point of every registered check.

    run_check.py <ID> [--tier quick|thorough] [--replay FILE]

exit 0: property held on everything explored (KNOWN-FINDING lines possible)
exit 1: `VIOLATION property=<ID> replay=<path>` printed for each root cause
exit 2: harness error (never a verdict)
"""
import argparse
import importlib
import json
import os
import re
import sys
import time
import traceback

HERE = os.path.dirname(os.path.abspath(__file__))


def _reexec_with_fixed_hashseed():
    # set iteration order must not enter any verdict (DESIGN 1.4); C17 runs its
    # own children with other seeds.
    if os.environ.get('PYTHONHASHSEED') != '0':
        env = dict(os.environ, PYTHONHASHSEED='0')
        os.execve(sys.executable, [sys.executable] + sys.argv, env)


def main():
    ap = argparse.ArgumentParser()
    ap.add_argument('pid')
    ap.add_argument('--tier', default=os.environ.get('VERIF_TIER', 'quick'),
                    choices=['quick', 'thorough'])
    ap.add_argument('--replay')
    args = ap.parse_args()
    _reexec_with_fixed_hashseed()
    sys.path.insert(0, HERE)
    from vlib import harness as H
    pid = args.pid.upper()
    try:
        seed = int(os.environ.get('VERIF_SEED', '1') or '1')
    except ValueError:
        seed = 1
    t0 = time.time()
    try:
        H.import_repo()
        mod = importlib.import_module('checks.%s' % pid.lower())
        if args.replay:
            body = json.load(open(args.replay))
            case = body.get('case', body)
            try:
                mod.replay(case)
            except H.Violation as v:
                print('VIOLATION property=%s replay=%s' % (pid, args.replay))
                print('  kind=%s\n  detail=%s' % (v.kind, v.detail[:1500]))
                return 1
            print('replay passes: property holds on this case')
            return 0

        ctx = H.Ctx(pid, args.tier, seed)
        known = H.load_known(pid)
        kmatch = H.KnownMatcher(known)
        ctx.known = kmatch
        res = H.Result()
        bad_paths = []

        # 1. regression corpus (fixed findings, hand-picked edge cases): must pass
        regress = H.load_regress(pid)
        for path, body in regress:
            try:
                mod.replay(body.get('case', body))
                res.hist['regress:pass'] += 1
            except H.Violation as v:
                rec = v.record()
                rec['kind'] = 'regress:' + rec['kind']
                res.violations.append(rec)
                bad_paths.append((rec, path))

        # 2. known findings: replay; while they still fail, say so and go on
        for e in known:
            try:
                mod.replay(e['repro'])
                print('NOTE: known finding %s no longer reproduces' % e['id'])
                res.notes.append('known finding %s no longer reproduces' % e['id'])
            except H.Violation:
                print('KNOWN-FINDING: property=%s %s' % (pid, e['what']))
                res.known_hits[e['id']] += 1

        # 3. the generated search
        for fn, shards in mod.plan(ctx):
            ts = time.time()
            part = H.run_shards(mod.__name__, fn, ctx, shards)
            res.merge(part)
            res.hist['stage:%s:evaluations' % fn] = part.evaluations
            res.notes.append('stage %s: %d shards, %d evaluations, %.1fs wall' % (
                fn, len(shards), part.evaluations, time.time() - ts))
            if os.environ.get('VERIF_VERBOSE'):
                print(res.notes[-1], file=sys.stderr)

        # 4. verdict
        out = []
        for rec in res.violations:
            if any(rec is r for r, _ in bad_paths):
                continue
            kid = kmatch(rec)
            if kid:
                res.known_hits[kid] += 1
                continue
            out.append(rec)
        reported = [(rec, path) for rec, path in bad_paths]
        for rec in out:
            reported.append((rec, H.write_replay(pid, rec, seed)))
        res.violations = [r for r, _ in reported]
        wall = time.time() - t0
        extra = getattr(mod, 'EXTRA', None)
        H.write_evidence(pid, args.tier, seed, res, mod.RULE, wall,
                         extra=extra(ctx, res) if callable(extra) else None,
                         assumptions=getattr(mod, 'ASSUMPTIONS', ()))
        for rec, path in reported:
            print('VIOLATION property=%s replay=%s' % (pid, path))
            print('  kind=%s' % rec['kind'])
            print('  case=%s' % json.dumps(rec['case'], default=repr)[:600])
            print('  detail=%s' % str(rec.get('detail', ''))[:800])
        print('%s tier=%s seed=%d evaluations=%d distinct_nontrivial=%d violations=%d wall=%.1fs' % (
            pid, args.tier, seed, res.evaluations, len(res.nontrivial), len(reported), wall))
        return 1 if reported else 0
    except H.HarnessError as e:
        print('HARNESS-ERROR: %s' % e, file=sys.stderr)
        return 2
    except Exception:
        print('HARNESS-ERROR: %s' % traceback.format_exc(), file=sys.stderr)
        return 2


if __name__ == '__main__':
    sys.exit(main())
