"""C12 demo 1: an unbalanced bracket that is separated by white space from the
brace arguments of a command inside math must stay plain text."""
import sys
sys.path.insert(0, sys.argv[1])
from TexSoup import TexSoup
from TexSoup.data import (TexMathModeEnv, TexDisplayMathModeEnv, TexMathEnv,
                          TexDisplayMathEnv, TexNamedEnv, BracketGroup)

CASES = [
    (r'$\frac{a}{b} [0,1)$', '$', '$', TexMathModeEnv, 'frac', 2),
    (r'$$\mathbb{R} [x$$', '$$', '$$', TexDisplayMathModeEnv, 'mathbb', 1),
    ('\\(\\hat{x}\n[0,1)\\)', r'\(', r'\)', TexMathEnv, 'hat', 1),
    (r'\[\sqrt{y} [a\]', r'\[', r'\]', TexDisplayMathEnv, 'sqrt', 1),
    (r'\begin{align}x \bar{z} [0,1) \end{align}', r'\begin{align}',
     r'\end{align}', TexNamedEnv, 'bar', 1),
]
bad = []
for src, begin, end, kind, cmd, nargs in CASES:
    try:
        soup = TexSoup(src)
    except Exception as e:
        bad.append('%r: parse raised %s: %s' % (src, type(e).__name__, str(e)[:80]))
        continue
    top = soup.expr._contents
    if len(top) != 1 or type(top[0]) is not kind:
        bad.append('%r: expected one %s, got %r' % (src, kind.__name__, top))
        continue
    body = ''.join(map(str, top[0]._contents))
    if str(top[0]) != src or body != src[len(begin):len(src) - len(end)]:
        bad.append('%r: body is %r' % (src, body))
    node = soup.find(cmd)
    if node is None:
        bad.append('%r: \\%s not found' % (src, cmd))
    elif len(node.args) != nargs or any(
            isinstance(a, BracketGroup) for a in node.args):
        bad.append('%r: bracket became an argument: %r' % (src, node.args))
if bad:
    print('C12 violated:')
    print('\n'.join(bad))
    sys.exit(1)
print('C12 holds on the probed inputs')
