"""C12 demo 2: a named math environment placed inside an optional argument must
be a math node with a parsed body, so the commands in it stay searchable and
its brackets are plain text."""
import sys
sys.path.insert(0, sys.argv[1])
from TexSoup import TexSoup
from TexSoup.data import TexNamedEnv, TexCmd, TexText

ENVS = ['math', 'displaymath', 'equation', 'align*']
HOSTS = [r'\item[%s] x', r'\section[%s]{T}', r'\caption[%s]{T}',
         r'$\sqrt[%s]{x}$']
bad = []
for env in ENVS:
    body = r'\alpha\in[0,1) \left[\beta\right)'
    region = r'\begin{%s}%s\end{%s}' % (env, body, env)
    for host in HOSTS:
        src = host % region
        try:
            soup = TexSoup(src)
        except Exception as e:
            bad.append('%r: parse raised %s' % (src, type(e).__name__))
            continue
        nodes = [n for n in soup.find_all(env) if isinstance(n.expr, TexNamedEnv)]
        if len(nodes) != 1:
            bad.append('%r: %d nodes for %s' % (src, len(nodes), env))
            continue
        got = ''.join(map(str, nodes[0].expr._contents))
        if got != body or str(soup) != src:
            bad.append('%r: body %r' % (src, got))
        for name in ('alpha', 'in', 'beta'):
            hits = soup.find_all(name)
            if len(hits) != 1 or not isinstance(hits[0].expr, TexCmd):
                bad.append('%r: \\%s inside the math environment is not '
                           'searchable (%d hits)' % (src, name, len(hits)))
        pieces = nodes[0].expr._contents
        if not any(isinstance(p, TexText) and str(p) == '[' for p in pieces):
            bad.append('%r: bracket is not a plain text piece: %r'
                       % (src, pieces))
if bad:
    print('C12 violated:')
    print('\n'.join(bad))
    sys.exit(1)
print('C12 holds on the probed inputs')
