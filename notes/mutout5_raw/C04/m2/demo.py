"""C04: `text` lists the non-blank text leaves (of `contents`, recursively) in document order."""
import sys
sys.path.insert(0, sys.argv[1])
from TexSoup import TexSoup
from TexSoup.data import TexNode

DOCS = [
    '\\begin{tabular}{c c}\n a & b \\\\[2pt]\n c & d \\\\\n\\end{tabular}\n',
    '\\begin{align}\n x &= 1 \\\\[1.5ex] y &= 2\n\\end{align}',
    '\\section{T}\n\\[ a \\\\[-3mm] b \\]\n{first\\\\[ 4 em ]second} % c\n',
]


def leaves(node):
    out = []
    for c in node.contents:
        if isinstance(c, TexNode):
            out.extend(leaves(c))
        else:
            out.append(str(c))
    return out


def main():
    for doc in DOCS:
        soup = TexSoup(doc)
        if ''.join(str(x) for x in soup.expr.all) != doc:
            print('C04 violated: root does not concatenate to the document', repr(doc))
            return 1
        todo = [soup] + [d for d in soup.descendants if isinstance(d, TexNode)]
        for node in todo:
            exp, got = leaves(node), [str(t) for t in node.text]
            if exp != got:
                print('C04 violated: text != non-blank text leaves of contents')
                print(' node    :', repr(str(node)))
                print(' expected:', exp)
                print(' got     :', got)
                return 1
    print('ok')
    return 0


sys.exit(main())
