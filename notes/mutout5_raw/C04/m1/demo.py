"""C04: indexing (incl. slices) of a node follows its `contents`."""
import sys
sys.path.insert(0, sys.argv[1])
from TexSoup import TexSoup
from TexSoup.data import TexNode

DOC = ('\\section{Intro \\emph{x} end}\n'
       '\\begin{itemize}\n  \\item[a] one {g}\n  \\item two $y$\n\\end{itemize}\n'
       '{ \\alpha }\n tail')


def nodes(root):
    yield root
    for d in root.descendants:
        if isinstance(d, TexNode):
            yield d


def main():
    soup = TexSoup(DOC)
    bad = []
    for node in nodes(soup):
        contents = node.contents
        n = len(contents)
        if [str(c) for c in node] != [str(c) for c in contents]:
            bad.append(('iter', str(node)))
        for i in range(-n, n):
            if str(node[i]) != str(contents[i]):
                bad.append(('index', i, str(node)))
        for a in [None] + list(range(-n - 1, n + 2)):
            for b in [None] + list(range(-n - 1, n + 2)):
                got = [str(c) for c in node[a:b]]
                exp = [str(c) for c in contents[a:b]]
                if got != exp:
                    bad.append(('slice', a, b, str(node), exp, got))
    if bad:
        print('C04 violated: indexing does not follow contents (%d cases)' % len(bad))
        print(bad[0])
        return 1
    print('ok')
    return 0


sys.exit(main())
