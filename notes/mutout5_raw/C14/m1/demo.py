"""C14: re-ordering a node's argument list (in place, by a descending sort on a
key that has ties) changes exactly the argument part, like the same operation
on a plain list; the change is visible to searches and survives re-parsing."""
import sys
sys.path.insert(0, sys.argv[1])
from TexSoup import TexSoup

PRE, POST = 'intro \\textit{x} ', ' tail \\begin{env}{p}body\\end{env}'
GROUPS = ['{bb}', '{a}', '{cc}', '{d}', '{eee}', '{ff}']


def key_of_text(s):
    return len(s)


def check(reverse):
    doc = PRE + '\\foo' + ''.join(GROUPS) + POST
    soup = TexSoup(doc)
    assert str(soup) == doc
    node = soup.find('foo')
    node.args.sort(key=lambda g: key_of_text(str(g)), reverse=reverse)
    ref = list(GROUPS)
    ref.sort(key=key_of_text, reverse=reverse)      # plain-list semantics
    expected_cmd = '\\foo' + ''.join(ref)
    expected = PRE + expected_cmd + POST
    if str(soup) != expected:
        return 'reverse=%r: document is %r, expected %r' % (
            reverse, str(soup), expected)
    if [str(a) for a in soup.find('foo').args] != ref:
        return 'reverse=%r: args seen by a search are %r, expected %r' % (
            reverse, [str(a) for a in soup.find('foo').args], ref)
    if soup.count(expected_cmd) != 1:
        return 'reverse=%r: search for %r fails' % (reverse, expected_cmd)
    again = TexSoup(str(soup))
    if str(again) != expected or \
            [str(a) for a in again.find('foo').args] != ref:
        return 'reverse=%r: re-parse shows %r' % (reverse, str(again))
    return None


problems = [p for p in (check(False), check(True)) if p]
if problems:
    print('C14 violated:')
    for p in problems:
        print('  ' + p)
    sys.exit(1)
print('C14 holds')
sys.exit(0)
