"""C14: assigning a (re-ordered) argument list to a node changes exactly the
argument part of that node to the assigned list; the change is visible to
searches and survives re-parsing.  The list is re-ordered with ordinary list
item assignment and then handed over as a fresh TexArgs copy."""
import sys
sys.path.insert(0, sys.argv[1])
from TexSoup import TexSoup
from TexSoup.data import TexArgs

PRE, MID, POST = 'see \\src', ' and \\begin{env}{p}body\\end{env} then \\dst', ' end'
SRC = ['{one}', '{two}', '{three}']
DST = ['{x}', '{y}']


def main():
    doc = PRE + ''.join(SRC) + MID + ''.join(DST) + POST
    soup = TexSoup(doc)
    assert str(soup) == doc
    src, dst = soup.find('src'), soup.find('dst')

    # re-order the arguments of \src: swap first and last
    args = src.args
    args[0], args[2] = args[2], args[0]
    order = [SRC[2], SRC[1], SRC[0]]
    after_swap = PRE + ''.join(order) + MID + ''.join(DST) + POST
    if str(soup) != after_swap:
        return 'after the swap the document is %r, expected %r' % (
            str(soup), after_swap)

    # give \dst a copy of that argument list
    copy = TexArgs(src.args)
    wanted = [str(a) for a in src.args]
    dst.args = copy
    expected = PRE + ''.join(order) + MID + ''.join(wanted) + POST
    if wanted != order or str(soup) != expected:
        return 'after assigning the copy the document is %r, expected %r' % (
            str(soup), expected)
    if soup.count('\\dst' + ''.join(order)) != 1:
        return 'search for %r fails' % ('\\dst' + ''.join(order))
    again = TexSoup(str(soup))
    if str(again) != expected or \
            [str(a) for a in again.find('dst').args] != order:
        return 're-parse shows %r' % str(again)
    return None


problem = main()
if problem:
    print('C14 violated: ' + problem)
    sys.exit(1)
print('C14 holds')
sys.exit(0)
