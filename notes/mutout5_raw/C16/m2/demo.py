"""C16: serialised output is a fixed point of the parser.

usage: demo.py <path of a TexSoup checkout>; exit 0 = property holds, 1 = violated
"""
import sys
sys.path.insert(0, sys.argv[1])
from TexSoup import TexSoup
from TexSoup.data import TexText


def shape(e):
    if isinstance(e, str):            # TexText or a plain string
        return ('text', str(e))
    return (type(e).__name__, str(e.name),
            [shape(a) for a in e.args], [shape(c) for c in e._contents])


def check(src):
    """None if load-save-load-save is stable for src, else a description."""
    first = TexSoup(src)                 # must parse in strict mode
    saved = str(first)
    try:
        second = TexSoup(saved)
    except Exception as exc:             # noqa
        return 're-parsing the serialised text failed: %r' % (exc,)
    if str(second) != saved:
        return 'second serialisation differs from the first'
    if shape(first.expr) != shape(second.expr):
        return 'tree shape changed: \\cite has %d argument(s) after the first ' \
            'parse and %d after re-parsing its own output %r' % (
                len(first.expr._contents[0].args),
                len(second.expr._contents[0].args), saved)
    return None


def documents():
    # \cite{key}[...] with a trailing optional argument of growing length that
    # contains one command written with blanks before its argument
    for blank in (' ', '\n      ', '\t\t\n\t\t'):
        for m in range(0, 130):
            yield r'\cite{key}[' + 'w' * m + r'\emph' + blank + r'{a}] tail'


bad = [(doc, problem) for doc, problem in
       ((doc, check(doc)) for doc in documents()) if problem]
if bad:
    print('C16 violated for %d documents; first: %r: %s'
          % (len(bad), bad[0][0], bad[0][1]))
    sys.exit(1)
print('C16 holds on all probes')
sys.exit(0)
