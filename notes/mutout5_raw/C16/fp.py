import sys
sys.path.insert(0, sys.argv[1] if len(sys.argv)>1 else '/tmp/mut5/C16')
from TexSoup import TexSoup
def shape(e):
    from TexSoup.data import TexText, TexExpr
    if isinstance(e, TexText): return ('T', str(e))
    return (type(e).__name__, str(e.name), [shape(a) for a in e.args], [shape(c) for c in e._contents])
def fp(s):
    try: a = TexSoup(s)
    except Exception as ex: return 'nopar', repr(ex)[:60]
    t = str(a)
    try: b = TexSoup(t)
    except Exception as ex: return 'FAIL2', t, repr(ex)[:60]
    u = str(b)
    if u != t: return 'DRIFT', t, u
    if shape(a.expr) != shape(b.expr): return 'SHAPE', t
    return 'ok', t
if __name__ == '__main__':
    for s in [r'\section%c'+'\n{a}', r'\section*%c'+'\n{a}', r'\foo %c'+'\n{a}', '\\foo\r\n{a}']:
        print(repr(s), fp(s))
