"""C16: serialised output is a fixed point of the parser.

usage: demo.py <path of a TexSoup checkout>; exit 0 = property holds, 1 = violated
"""
import sys
sys.path.insert(0, sys.argv[1])
from TexSoup import TexSoup
from TexSoup.data import TexText


def shape(e):
    if isinstance(e, str):            # TexText or a plain string
        return ('text', str(e))
    return (type(e).__name__, str(e.name),
            [shape(a) for a in e.args], [shape(c) for c in e._contents])


def check(src):
    """None if load-save-load-save is stable for src, else a description."""
    first = TexSoup(src)                 # must parse in strict mode
    saved = str(first)
    try:
        second = TexSoup(saved)
    except Exception as exc:             # noqa
        return 're-parsing the serialised text failed: %r' % (exc,)
    if str(second) != saved:
        return 'second serialisation differs from the first'
    if shape(first.expr) != shape(second.expr):
        return 'tree shape changed: %d top-level items, then %d; first ' \
            'command has %d argument(s), then %d' % (
                len(first.expr._contents), len(second.expr._contents),
                len(first.expr._contents[0].args),
                len(second.expr._contents[0].args))
    return None


def documents():
    # a well-formed document: one command with a long optional argument whose
    # body is a list of commands written with a blank before their argument
    for n in range(1, 140):
        yield n, r'\note[' + r'\x {a}' * n + r']{text}'


bad = []
for n, doc in documents():
    problem = check(doc)
    if problem:
        bad.append((n, problem))
if bad:
    print('C16 violated for %d documents; first: n=%d (\\note[ + "\\x {a}"*n + ]{text}): %s'
          % (len(bad), bad[0][0], bad[0][1]))
    sys.exit(1)
print('C16 holds on all probes')
sys.exit(0)
