"""C08: whenever a string parses in strict mode, str(parse) has exactly the
characters of the input (apart from whitespace runs before '{' / '[')."""
import re
import sys

sys.path.insert(0, sys.argv[1])
from TexSoup import TexSoup  # noqa: E402


def norm(s):
    return re.sub(r'[ \t\r\n]+(?=[{\[])', '', s)


DOCS = [
    r'\begin{ab}x\end{ab}',
    r'\begin{a{b}c}x\end{a{b}c}',
    r'\begin{ab}x\end{a{}b}',
    r'\begin{ab}x\end{{ab}}',
    r'\begin{itemize}\item one\end{{item}ize} tail',
    'pre \\begin{tabular}{cc}1&2\\end\n{tab{ul}ar}post',
]

bad = []
for doc in DOCS:
    try:
        out = str(TexSoup(doc))
    except Exception:
        continue  # does not parse in strict mode: outside the property
    if norm(out) != norm(doc):
        bad.append((doc, out))

for doc, out in bad:
    print('characters not conserved:\n  in : %r\n  out: %r' % (doc, out))
sys.exit(1 if bad else 0)
