"""C08: whenever a string parses in strict mode, str(parse) has exactly the
characters of the input (apart from whitespace runs before '{' / '[')."""
import re
import sys

sys.path.insert(0, sys.argv[1])
from TexSoup import TexSoup  # noqa: E402


def norm(s):
    return re.sub(r'[ \t\r\n]+(?=[{\[])', '', s)


DOCS = [
    '\\begin{my env}x\\end{my env}',
    '\\begin{my\nenv}x\\end{my\nenv}',
    '\\begin{my env}x\\end{my\nenv}',
    '\\begin{my\nenv}x\\end{my env}',
    'a\n\\begin{long theorem name}[opt]\n body $x$\n\\end{long theorem\nname}\nb',
    '\\begin{a b}\\begin{a\nb}y\\end{a b}\\end{a\nb}',
]

bad = []
for doc in DOCS:
    try:
        out = str(TexSoup(doc))
    except Exception:
        continue  # does not parse in strict mode: outside the property
    if norm(out) != norm(doc):
        bad.append((doc, out))

for doc, out in bad:
    print('characters not conserved:\n  in : %r\n  out: %r' % (doc, out))
sys.exit(1 if bad else 0)
