"""C09 demo 2: a bracket that does not follow a command is ordinary text
(and needs no partner).  Brackets are placed behind things that are not
commands - text, a closed group, inline math, escaped symbols such as the
row end of a table - and must stay text in every case."""
import sys
sys.path.insert(0, sys.argv[1])
from TexSoup import TexSoup
from TexSoup.data import TexExpr, TexText, BracketGroup


def walk(expr):
    yield expr
    if isinstance(expr, TexText):
        return
    for a in getattr(expr, 'args', []):
        yield from walk(a)
    for c in expr._contents:
        if isinstance(c, TexExpr):
            yield from walk(c)


def check(doc, n_open, n_close):
    try:
        soup = TexSoup(doc)
    except Exception as exc:
        return '%r: parse raised %s: %s' % (doc, type(exc).__name__, exc)
    nodes = list(walk(soup.expr))
    groups = [n for n in nodes if isinstance(n, BracketGroup)]
    if groups:
        return '%r: bracket became a group: %r' % (doc, groups)
    texts = [str(n) for n in nodes if isinstance(n, TexText)]
    if texts.count('[') != n_open or texts.count(']') != n_close:
        return '%r: brackets are not plain text nodes: %r' % (doc, texts)
    if str(soup) != doc:
        return '%r: serialised as %r' % (doc, str(soup))
    return None


BEFORE = ['x', 'x ', '{g}', '$m$', '\\%', '\\&', '\\\\', 'a & b \\\\',
          '\\begin{tabular}{cc}\na & b \\\\']
BODIES = ['y', '1', 'pt', '2pt', ' 2pt', '-1.5em ', '.5ex', '3 mm', '2pt,3pt']
AFTER = ['', ' z', '\nc & d']

bad, n = [], 0
for before in BEFORE:
    closing = '\n\\end{tabular}' if before.startswith('\\begin') else ''
    for body in BODIES:
        for after in AFTER:
            for doc, o, c in (
                    (before + '[' + body + ']' + after + closing, 1, 1),
                    (before + '[' + body + after + closing, 1, 0)):
                n += 1
                m = check(doc, o, c)
                if m:
                    bad.append(m)
if bad:
    print('C09 violated (%d of %d cases):' % (len(bad), n))
    for m in bad[:6]:
        print('  ' + m)
    sys.exit(1)
print('C09 holds on %d cases' % n)
sys.exit(0)
