"""C09 demo 1: a bracket group attached to a command keeps exactly the
characters between its delimiters, in every enclosing context - here the
enclosing context is the body of a \\newcommand-style definition, where a
lone \\begin{..} is an ordinary command."""
import sys
sys.path.insert(0, sys.argv[1])
from TexSoup import TexSoup
from TexSoup.data import TexCmd, BracketGroup, BraceGroup


def find_cmd(expr, name):
    stack = [expr]
    while stack:
        e = stack.pop()
        if isinstance(e, TexCmd) and e.name == name:
            return e
        for a in getattr(e, 'args', []):
            stack.append(a)
        for c in getattr(e, '_contents', []):
            if hasattr(c, '_contents') and not isinstance(c, str):
                stack.append(c)
    return None


def check(doc, name, expected):
    try:
        soup = TexSoup(doc)
    except Exception as exc:
        return '%r: parse raised %s: %s' % (doc, type(exc).__name__, exc)
    cmd = find_cmd(soup.expr, name)
    if cmd is None:
        return '%r: command %s not found' % (doc, name)
    got = [(type(a).__name__, str(a)) for a in cmd.args]
    if got != expected:
        return '%r: args of \\%s are %r, expected %r' % (doc, name, got, expected)
    return None


CASES = []
for definer in ('newcommand', 'renewcommand', 'providecommand'):
    for sep in ('', ' ', '\n', ' \n\t'):
        # reference: same shape, same context, brace group carries the \begin
        CASES.append((
            '\\%s{\\open}{\\mybox%s{\\begin{center}}%s{x}}' % (definer, sep, sep),
            'mybox',
            [('BraceGroup', '{\\begin{center}}'), ('BraceGroup', '{x}')]))
        CASES.append((
            '\\%s{\\open}{\\mybox%s[\\begin{center}]%s{x}}' % (definer, sep, sep),
            'mybox',
            [('BracketGroup', '[\\begin{center}]'), ('BraceGroup', '{x}')]))
        CASES.append((
            '\\%s{\\open}{\\mybox%s[a]%s[\\begin{center}]%s{x} {y}}'
            % (definer, sep, sep, sep),
            'mybox',
            [('BracketGroup', '[a]'), ('BracketGroup', '[\\begin{center}]'),
             ('BraceGroup', '{x}'), ('BraceGroup', '{y}')]))

bad = [m for m in (check(*c) for c in CASES) if m]
if bad:
    print('C09 violated (%d of %d cases):' % (len(bad), len(CASES)))
    for m in bad[:5]:
        print('  ' + m)
    sys.exit(1)
print('C09 holds on %d cases' % len(CASES))
sys.exit(0)
