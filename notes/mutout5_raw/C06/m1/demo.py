"""C06: parsing terminates (never hangs) on every input of nesting depth <= 40.

Input: \\item lists nested through command arguments,
  \\item \\textbf{\\item \\textbf{ ... }}   (18 pairs = 36 nested constructs).
The parse runs in a child interpreter under a watchdog.
"""
import subprocess
import sys

CHECKOUT = sys.argv[1]
PAIRS = 18
LIMIT = 20  # seconds; the unchanged tree needs a few milliseconds

CHILD = r'''
import sys
sys.path.insert(0, sys.argv[1])
from TexSoup import TexSoup
pairs = int(sys.argv[2])
tol = int(sys.argv[3])
doc = r'\begin{itemize}' + r'\item a \textbf{' * pairs + 'x' + '}' * pairs \
      + r'\end{itemize}'
try:
    TexSoup(doc, tolerance=tol)
except (EOFError, TypeError, AssertionError):
    pass
'''

bad = []
for tol in (0, 1):
    try:
        r = subprocess.run([sys.executable, '-c', CHILD, CHECKOUT, str(PAIRS),
                            str(tol)], timeout=LIMIT, capture_output=True,
                           text=True)
    except subprocess.TimeoutExpired:
        bad.append('tolerance=%d: parse of %d nested item/argument pairs did '
                   'not terminate within %ds' % (tol, PAIRS, LIMIT))
        continue
    if r.returncode != 0:
        bad.append('tolerance=%d: internal exception leaked:\n%s'
                   % (tol, r.stderr[-600:]))
if bad:
    print('C06 VIOLATED')
    print('\n'.join(bad))
    sys.exit(1)
print('C06 holds')
sys.exit(0)
