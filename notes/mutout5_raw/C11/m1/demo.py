import sys
sys.path.insert(0, sys.argv[1])
from TexSoup import TexSoup

BODY = 'x \\textbf{a { $ \\begin{itemize} ] y\n'


def check(name, prefix='', suffix=''):
    """A user-listed environment must keep BODY as one uninterpreted text."""
    doc = '%s\\begin{%s}%s\\end{%s}%s' % (prefix, name, BODY, name, suffix)
    try:
        soup = TexSoup(doc, skip_envs=(name,))
    except Exception as exc:  # opaque bodies can never cause a parse error
        return 'name %r: parse error %s: %s' % (name, type(exc).__name__, exc)
    env = [n for n in soup.find_all(name)]
    if len(env) != 1:
        return 'name %r: environment not found exactly once' % name
    parts = list(env[0].expr._contents)
    if len(parts) != 1 or str(parts[0]) != BODY:
        return 'name %r: body kept as %r' % (name, parts)
    if soup.find_all('textbf') or soup.find_all('itemize'):
        return 'name %r: commands inside the body are searchable' % name
    if str(soup) != doc:
        return 'name %r: not serialised as written' % name
    return None


problems = []
# plain names and names whose braces contain blanks (blanks belong to the name)
for name in ('code', 'my code', ' code', 'code ', ' code '):
    for prefix, suffix in (('', ''), ('\\begin{center}\n', '\n\\end{center}')):
        p = check(name, prefix, suffix)
        if p:
            problems.append(p)
if problems:
    print('\n'.join(problems))
    sys.exit(1)
print('ok')
