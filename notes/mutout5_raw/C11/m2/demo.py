import sys
sys.path.insert(0, sys.argv[1])
from TexSoup import TexSoup

BODY = ' a \\textbf{b} $c$ {d} '


def inner(soup, name):
    found = soup.find_all(name)
    assert len(found) == 1, 'environment %r not found exactly once' % name
    return found[0]


problems = []
# names that are neither built in nor listed: the body is parsed normally;
# the same names listed via skip_envs: the body is one uninterpreted text
for name in ('SaveVerbatim', 'NoVerbatim', 'xVerbatim', 'myverbatim',
             'Verbatimx', 'code'):
    for prefix, suffix in (('', ''), ('\\begin{center}\n', '\n\\end{center}')):
        doc = '%s\\begin{%s}%s\\end{%s}%s' % (prefix, name, BODY, name, suffix)
        plain = TexSoup(doc)
        if not plain.find_all('textbf') or \
                len(list(inner(plain, name).expr._contents)) < 2:
            problems.append('%r not listed, but its body is not parsed: %r' % (
                name, list(inner(plain, name).expr._contents)))
        try:
            TexSoup(doc.replace('{d}', '{d'))
            problems.append('%r not listed, but an unbalanced brace in its '
                            'body is accepted' % name)
        except (TypeError, EOFError):
            pass
        listed = TexSoup(doc, skip_envs=(name,))
        parts = list(inner(listed, name).expr._contents)
        if len(parts) != 1 or str(parts[0]) != BODY or \
                listed.find_all('textbf'):
            problems.append('%r listed, but body kept as %r' % (name, parts))
if problems:
    print('\n'.join(problems))
    sys.exit(1)
print('ok')
