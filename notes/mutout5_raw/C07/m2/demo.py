"""C07, first clause: whenever strict parsing succeeds, tolerant parsing
returns an identical tree and text -- for every combination of options,
here with caller-supplied skip_envs and an environment of that name whose
body would also parse as LaTeX."""
import io
import sys

sys.path.insert(0, sys.argv[1])
from TexSoup import TexSoup  # noqa: E402

CASES = [
    (r'\begin{foo} \a {b} $x$\end{foo}', ('foo',)),
    ('a\n\\begin{raw}\n\\item  [k]  {v}\n\\end{raw}\n\\textbf{z}', ('raw',)),
    (r'\begin{foo}\a{b}\end{foo}', ('other', 'foo')),
    (r'\begin{foo} \a {b}\end{foo}', ()),
]


def shape(node):
    def walk(e):
        kids = getattr(e, '_contents', [])
        return (type(e).__name__, str(e),
                [walk(k) for k in kids if k is not e and not isinstance(e, str)])
    return (str(node), repr(node.expr), walk(node.expr))


bad = []
for doc, skip in CASES:
    for form in (lambda s: s, lambda s: s.splitlines(True), io.StringIO):
        try:
            strict = shape(TexSoup(form(doc), skip_envs=skip, tolerance=0))
        except Exception:
            continue  # the clause only speaks about inputs strict accepts
        try:
            tolerant = shape(TexSoup(form(doc), skip_envs=skip, tolerance=1))
        except Exception as e:  # noqa: BLE001
            bad.append('%r skip_envs=%r: tolerant raises %r' % (doc, skip, e))
            continue
        if strict != tolerant:
            bad.append('%r skip_envs=%r:\n  strict   %r\n  tolerant %r'
                       % (doc, skip, strict[:2], tolerant[:2]))

if bad:
    print('C07 violated: tolerant differs from strict on accepted input')
    print('\n'.join(bad))
    sys.exit(1)
print('ok')
sys.exit(0)
