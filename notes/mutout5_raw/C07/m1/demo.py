"""C07, first clause: whenever strict parsing succeeds, tolerant parsing
returns an identical tree and text.

Environment names that contain a command whose arguments are separated from
it by a spacer (the serialised name differs from the source tokens)."""
import sys

sys.path.insert(0, sys.argv[1])
from TexSoup import TexSoup  # noqa: E402

DOCS = [
    r'\begin{a\b {x}}t\end{a\b {x}}',
    r'pre \begin{tab\kind [o]}\textbf{t} u\end{tab\kind [o]} post',
    '\\begin{outer}\\begin{e\\v\n{1}}body\\end{e\\v\n{1}}\\end{outer}',
    r'\begin{plain}t\end{plain}',
]


def shape(node):
    expr = node.expr
    return (str(node), repr(expr), [type(c).__name__ for c in expr._contents])


bad = []
for doc in DOCS:
    try:
        strict = shape(TexSoup(doc, tolerance=0))
    except Exception:
        continue  # the clause only speaks about inputs strict parsing accepts
    try:
        tolerant = shape(TexSoup(doc, tolerance=1))
    except Exception as e:  # noqa: BLE001
        bad.append('%r: strict succeeds, tolerant raises %r' % (doc, e))
        continue
    if strict != tolerant:
        bad.append('%r:\n  strict   %r\n  tolerant %r' % (doc, strict, tolerant))

if bad:
    print('C07 violated: tolerant differs from strict on accepted input')
    print('\n'.join(bad))
    sys.exit(1)
print('ok')
sys.exit(0)
