"""C13 demo: every match reported by search_regex carries the source offset at
which the matched text actually occurs.

A document with two sections whose (long) body paragraphs are textually
identical.  The pattern only matches inside those paragraphs, so the offsets
reported by search_regex must be exactly the offsets of re.finditer over the
whole source, each occurrence reported once at its own offset.
"""
import re
import sys

sys.path.insert(0, sys.argv[1])
from TexSoup import TexSoup  # noqa: E402


def check(src, pattern):
    soup = TexSoup(src)
    got = [(m.position, str(m)) for m in soup.search_regex(pattern)]
    want = [(m.start(), m.group()) for m in re.finditer(pattern, src)]
    problems = []
    for pos, body in got:
        if src[pos:pos + len(body)] != body:
            problems.append('match %r reported at %d, source has %r there'
                            % (body, pos, src[pos:pos + len(body)]))
    if sorted(got) != sorted(want):
        missing = sorted(set(want) - set(got))
        dup = sorted(p for p in set(got) if got.count(p) > 1)
        problems.append('offsets differ: %d reported, %d occurrences in the '
                        'source; occurrences never reported (first 3): %r; '
                        'offsets reported more than once (first 3): %r'
                        % (len(got), len(want), missing[:3], dup[:3]))
    return problems


def main():
    # a licence-like paragraph of ~1.3K characters, with numbered markers
    para = ' '.join('clause%03d of the licence applies' % i for i in range(40))
    assert len(para) >= 1024
    docs = []
    for sep in ('\n', ' '):
        docs.append(r'\section{One}' + sep + para + sep +
                    r'\section{Two}' + sep + para + sep +
                    r'\section{End}')
    # control: short twins must behave as well
    docs.append(r'\section{One} clause001 x \section{Two} clause001 x \section{End}')
    bad = []
    for src in docs:
        for pattern in (r'clause\d+', r'licence'):
            bad += check(src, pattern)
    if bad:
        print('C13 violated:')
        for line in bad[:6]:
            print('  ' + line)
        return 1
    print('C13 holds: search_regex offsets are true source offsets')
    return 0


if __name__ == '__main__':
    sys.exit(main())
