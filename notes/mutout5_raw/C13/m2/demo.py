"""C13 demo: for a freshly parsed document the position recorded for every
command, environment, group, math region and text token is the offset of its
first character in the source.

The documents use \\newcommand-style definitions whose bodies open or close an
environment (the documented use of such definitions), next to ordinary
environments, lists, math and groups.
"""
import sys

sys.path.insert(0, sys.argv[1])
from TexSoup import TexSoup  # noqa: E402
from TexSoup.data import (TexCmd, TexNamedEnv, TexEnv, TexText,  # noqa: E402
                          TexExpr)


def walk(expr):
    yield expr
    for arg in getattr(expr, 'args', ()):
        if isinstance(arg, TexExpr):
            yield from walk(arg)
    for content in getattr(expr, '_contents', ()):
        if isinstance(content, TexExpr) and not isinstance(content, TexText):
            yield from walk(content)
        else:
            yield content


def check(src):
    problems = []
    root = TexSoup(src).expr
    for item in walk(root):
        if item is root:
            continue
        if isinstance(item, TexText):
            token = item._text
            pos, lead, what = token.position, str(token), 'text %r' % str(token)
        elif isinstance(item, str):
            pos, lead, what = item.position, str(item), 'text %r' % str(item)
        elif isinstance(item, TexCmd):
            pos, lead, what = item.position, '\\' + str(item.name), \
                'command \\%s' % item.name
        elif isinstance(item, TexNamedEnv):
            pos, lead, what = item.position, '\\begin', \
                'environment %s' % item.name
        elif isinstance(item, TexEnv):  # groups and math regions
            pos, lead, what = item.position, item.begin, \
                '%s %r' % (type(item).__name__, str(item))
        else:
            continue
        if not isinstance(pos, int) or pos < 0 or not src.startswith(lead, pos):
            problems.append('%s: recorded position %r, but the source has %r '
                            'there (true offsets of %r: %s)' % (
                                what, pos,
                                src[pos:pos + len(lead)]
                                if isinstance(pos, int) and pos >= 0 else None,
                                lead,
                                [i for i in range(len(src))
                                 if src.startswith(lead, i)][:6]))
    return problems


DOCS = [
    r'\newcommand{\beq}{\begin{equation}}' '\n'
    r'\newcommand{\eeq}{\end{equation}}' '\n'
    r'Text \beq x = 1 \eeq more.' '\n',

    r'\section{Intro}' '\n'
    r'\renewcommand{\bi}{\begin{itemize}}\renewcommand{\ei}{\end{itemize}}' '\n'
    r'\begin{itemize}' '\n' r'\item one $a+b$' '\n' r'\item[two] {grp} \[ c \]'
    '\n' r'\end{itemize}' '\n',

    r'\providecommand{\bt}{\begin{tabular}{cc}}' '\n'
    r'\begin{center}x\end{center}% done' '\n',

    # controls without such definitions
    r'\newcommand{\foo}[2]{#1 and \textbf{#2}}' '\n' r'\foo{a}{b} $$z$$' '\n',
    r'\begin{equation}\begin{split}a&=b\end{split}\end{equation}' '\n',
]


def main():
    bad = []
    for src in DOCS:
        bad += ['in %r: %s' % (src, p) for p in check(src)]
    if bad:
        print('C13 violated:')
        for line in bad[:6]:
            print('  ' + line)
        return 1
    print('C13 holds: all recorded positions are true offsets')
    return 0


if __name__ == '__main__':
    sys.exit(main())
