"""C01 demo: parse -> str round trip on well-formed documents in which a list
sits inside a bare brace group inside math."""
import sys
sys.path.insert(0, sys.argv[1])
from TexSoup import TexSoup

DOCS = [
    r'$x {\begin{itemize}\item a $y$\end{itemize}} z$',
    r'\begin{equation}x={\item a}\end{equation}',
    '\\[ a + {\\begin{enumerate}\n  \\item one\n  \\item[k] two\n\\end{enumerate}} \\]\n',
    r'\begin{align}x &= {\begin{itemize}\item p\end{itemize}}\end{align}',
    r'text $a$ {\begin{itemize}\item b\end{itemize}} more',   # control: no math around
]
bad = 0
for src in DOCS:
    try:
        out = str(TexSoup(src))
    except Exception as e:  # parsing a well-formed document must succeed
        print('PARSE FAILED %r: %s: %s' % (src, type(e).__name__, e))
        bad += 1
        continue
    if out != src:
        print('ROUND TRIP DIFFERS %r -> %r' % (src, out))
        bad += 1
sys.exit(1 if bad else 0)
