"""C01 demo: parse -> str round trip for raw (verbatim-like / skip_envs)
environments that sit inside math."""
import sys
sys.path.insert(0, sys.argv[1])
from TexSoup import TexSoup

CASES = [
    # (source, skip_envs)
    ('\\[\n\\begin{tikzcd}\n A \\arrow[r, "f{"] & B \\\\\n C \\arrow[u & D\n\\end{tikzcd}\n\\]\n', ('tikzcd',)),
    (r'$a = \begin{code} x[i { $ \end{code} + b$', ('code',)),
    (r'\begin{equation}\text{see \begin{verbatim} \begin{x} { [ \end{verbatim}}\end{equation}', ()),
    (r'\(\begin{lstlisting}[language=C]a[0 = '"'{'"r';\end{lstlisting}\)', ()),
    # controls: same raw environments outside math
    (r'\begin{code} x[i { $ \end{code} $b$', ('code',)),
    (r'{\begin{verbatim} \begin{x} { [ \end{verbatim}}', ()),
]
bad = 0
for src, skip in CASES:
    try:
        out = str(TexSoup(src, skip_envs=skip))
    except Exception as e:  # parsing a well-formed document must succeed
        print('PARSE FAILED %r skip_envs=%r: %s: %s' % (
            src, skip, type(e).__name__, str(e)[:100]))
        bad += 1
        continue
    if out != src:
        print('ROUND TRIP DIFFERS %r -> %r' % (src, out))
        bad += 1
sys.exit(1 if bad else 0)
