"""C20 demo 2: num_forward_until must agree with a scan over a plain list from
the current index, whatever scans were made earlier on the same buffer (same
predicate object re-used after moving the cursor back)."""
import sys
sys.path.insert(0, sys.argv[1])

from TexSoup.utils import Buffer, Token, TC  # noqa: E402


def model_count(items, idx, condition):
    n = 0
    while idx + n < len(items) and not condition(items[idx + n]):
        n += 1
    return n


def run(label, make_buf, items, condition, script):
    """script: list of ('fwd', j) / ('back', j) / ('scan',) steps"""
    buf, idx, problems = make_buf(), 0, []
    for step in script:
        if step[0] == 'fwd':
            buf.forward(step[1])
            idx += step[1]
        elif step[0] == 'back':
            buf.backward(step[1])
            idx -= step[1]
        else:
            got, want = buf.num_forward_until(condition), model_count(items, idx, condition)
            if got != want:
                problems.append('%s: at index %d num_forward_until gave %d, list model gives %d'
                                % (label, idx, got, want))
        if buf.position != idx:
            problems.append('%s: cursor %d after %r, list model gives %d'
                            % (label, buf.position, step, idx))
    return problems


failures = []

text = 'ab}cd}ef'
is_close = lambda c: c == '}'  # noqa: E731  (one predicate object, re-used)
failures += run('string-backed', lambda: Buffer(text),
                list(text), is_close,
                [('fwd', 3), ('scan',), ('back', 3), ('scan',), ('fwd', 4), ('scan',)])

toks = [Token('x', 0, TC.Text), Token('}', 1, TC.GroupEnd), Token('yy', 2, TC.Text),
        Token('{', 4, TC.GroupBegin), Token('zz', 5, TC.Text), Token('}', 7, TC.GroupEnd)]
is_end = lambda t: t.category == TC.GroupEnd  # noqa: E731
failures += run('token-backed', lambda: Buffer(list(toks)), toks, is_end,
                [('fwd', 2), ('scan',), ('back', 2), ('scan',), ('fwd', 1), ('scan',)])

# control: forward-only re-scans with the same predicate
failures += run('control', lambda: Buffer(text), list(text), is_close,
                [('scan',), ('fwd', 1), ('scan',), ('fwd', 2), ('scan',), ('fwd', 3), ('scan',)])

if failures:
    print('PROPERTY C20 VIOLATED')
    for f in failures:
        print('  ' + f)
    sys.exit(1)
print('ok')
sys.exit(0)
