"""C20 demo 1: forward_until must stop exactly where a plain list scan stops,
also when the predicate looks at more than the text of the item (Token
position / category), and equal-text items occur in one scan."""
import sys
sys.path.insert(0, sys.argv[1])

from TexSoup.utils import Buffer, Token, TC  # noqa: E402


def model_scan(items, idx, condition):
    """list + integer index reference"""
    out = []
    while idx < len(items) and not condition(items[idx]):
        out.append(items[idx])
        idx += 1
    return ''.join(str(t) for t in out), idx


def check(label, make_buf, items, start, condition):
    buf = make_buf()
    if start:
        buf.forward(start)
    want_text, want_idx = model_scan(items, start, condition)
    got = buf.forward_until(condition)
    problems = []
    if str(got) != want_text:
        problems.append('returned %r, list model gives %r' % (str(got), want_text))
    if buf.position != want_idx:
        problems.append('cursor %d, list model gives %d' % (buf.position, want_idx))
    nxt = buf.peek()
    want_next = items[want_idx] if want_idx < len(items) else None
    if (nxt is None) != (want_next is None) or (nxt is not None and str(nxt) != str(want_next)):
        problems.append('next item %r, list model gives %r' % (nxt, want_next))
    return ['%s: %s' % (label, p) for p in problems]


failures = []

# 1. string-backed buffer, run of one character, predicate on the position label
text = 'aaaaaaaa'
items = [Token(ch, k) for k, ch in enumerate(text)]
failures += check('string-backed / position predicate',
                  lambda: Buffer(text), items, 1, lambda t: t.position >= 5)

# 2. token-backed buffer, same text under two categories, predicate on category
toks = [Token('\\', 0, TC.Escape), Token('a', 1, TC.CommandName),
        Token('{', 2, TC.GroupBegin), Token('}', 3, TC.GroupEnd),
        Token('a', 4, TC.Text), Token('b', 5, TC.Text)]
failures += check('token-backed / category predicate',
                  lambda: Buffer(list(toks)), toks, 0,
                  lambda t: t.category == TC.Text)

# 3. control: text-only predicate
failures += check('string-backed / text predicate',
                  lambda: Buffer('abcabc}x'), [Token(c, k) for k, c in enumerate('abcabc}x')],
                  0, lambda t: t == '}')

if failures:
    print('PROPERTY C20 VIOLATED')
    for f in failures:
        print('  ' + f)
    sys.exit(1)
print('ok')
sys.exit(0)
