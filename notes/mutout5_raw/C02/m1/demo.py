r"""C02 demo: an \item owns everything up to the next \item / end of its list,
also when the list sits inside an optional argument and the item text contains
plain square brackets."""
import sys
sys.path.insert(0, sys.argv[1])
from TexSoup import TexSoup
from TexSoup.data import (TexText, TexCmd, TexNamedEnv, BraceGroup,
                          BracketGroup, TexMathModeEnv)


def shape(e):
    """Nested tuple view of an expression; adjacent text is concatenated."""
    if isinstance(e, TexText):
        return str(e)
    kind = type(e).__name__
    args = tuple((type(a).__name__, merge([shape(c) for c in a._contents]))
                 for a in e.args)
    return (kind, str(e.name), args, merge([shape(c) for c in e._contents]))


def merge(items):
    out = []
    for it in items:
        if isinstance(it, str) and out and isinstance(out[-1], str):
            out[-1] += it
        else:
            out.append(it)
    return tuple(out)


def item(*contents, args=()):
    return ('TexCmd', 'item', tuple(args), tuple(contents))


CASES = [
    # list inside an optional argument, bracketed text inside the first item
    (r'\cmd[\begin{itemize}\item one [x] two\item three\end{itemize}]{arg}',
     (('TexCmd', 'cmd',
       (('BracketGroup',
         (('TexNamedEnv', 'itemize', (),
           (item(' one [x] two'), item(' three'))),)),
        ('BraceGroup', ('arg',))),
       ()),)),
    # item inside a brace group inside an optional argument
    (r'\cmd[{\item a [b] c}]',
     (('TexCmd', 'cmd',
       (('BracketGroup',
         (('BraceGroup', 'BraceGroup', (), (item(' a [b] c'),)),)),),
       ()),)),
    # control: same list outside of an optional argument
    (r'\begin{itemize}\item one [x] two\item three\end{itemize}',
     (('TexNamedEnv', 'itemize', (),
       (item(' one [x] two'), item(' three'))),)),
]

bad = 0
for doc, expected in CASES:
    try:
        got = merge([shape(c) for c in TexSoup(doc).expr._contents])
    except Exception as exc:  # a well-formed document must parse
        got = 'raised %s: %s' % (type(exc).__name__, exc)
    if got != expected:
        bad += 1
        print('C02 violated for %r\n  expected %r\n  got      %r'
              % (doc, expected, got))
sys.exit(1 if bad else 0)
