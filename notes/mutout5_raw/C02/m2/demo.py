r"""C02 demo: a command keeps its [..] argument (kind, order, exact contents)
however long the argument body is."""
import sys
sys.path.insert(0, sys.argv[1])
from TexSoup import TexSoup
from TexSoup.data import TexText, TexCmd, BraceGroup, BracketGroup


def check(n):
    body = r'\x{y} ' * n
    doc = r'\cmd[' + body + r']{z} tail'
    try:
        top = list(TexSoup(doc).expr._contents)
    except Exception as exc:
        return 'n=%d: raised %s: %s' % (n, type(exc).__name__, exc)
    cmds = [e for e in top if isinstance(e, TexCmd)]
    if len(cmds) != 1 or str(cmds[0].name) != 'cmd' or top[0] is not cmds[0]:
        return 'n=%d: top level holds commands %r (first node %r), expected ' \
               'only \\cmd' % (n, [str(c.name) for c in cmds][:5], str(top[0])[:20])
    cmd = cmds[0]
    kinds = [type(a).__name__ for a in cmd.args]
    if kinds != ['BracketGroup', 'BraceGroup']:
        return 'n=%d: \\cmd has argument kinds %r, expected [..] then {..}' \
               % (n, kinds)
    if str(cmd.args[0]) != '[' + body + ']' or str(cmd.args[1]) != '{z}':
        return 'n=%d: argument contents differ from the source' % n
    inner = [e for e in cmd.args[0]._contents if isinstance(e, TexCmd)]
    if len(inner) != n or any(str(c.name) != 'x' or str(c.args) != '{y}'
                              for c in inner):
        return 'n=%d: [..] holds %d \\x{y} commands, expected %d' \
               % (n, len(inner), n)
    rest = ''.join(str(e) for e in top[1:])
    if rest != ' tail':
        return 'n=%d: after \\cmd the top level holds %r, expected " tail"' \
               % (n, rest[:40])
    return None


bad = 0
for n in (1, 10, 100, 500, 1000):
    msg = check(n)
    if msg:
        bad += 1
        print('C02 violated:', msg)
sys.exit(1 if bad else 0)
