"""C10 demo: a comment inside a group must be one inert text leaf whatever its payload."""
import sys
sys.path.insert(0, sys.argv[1])
from TexSoup import TexSoup

PAYLOADS = ['zz', '', 'de}', 'EE}{$', '20\\end{x}', 'be\\item ]']
CONTEXTS = [
    ('see {http://a.b/c', '\n} end'),
    ('\\begin{itemize}\\item ftp://h/p', '\n\\item q\\end{itemize}'),
    ('$x://y', '\n$ z'),
    ('\\cmd[u://v', '\n]{w}'),
]


def skeleton(node, comment):
    out = []
    for c in node.contents:
        if isinstance(c, str):
            out.append('<COMMENT>' if str(c) == comment else repr(str(c)))
        else:
            out.append((type(c.expr).__name__, str(c.name), skeleton(c, comment)))
    return out


bad = []
for pre, post in CONTEXTS:
    ref = None
    for p in PAYLOADS:
        src, comment = pre + '%' + p + post, '%' + p
        try:
            soup = TexSoup(src)
            sk = skeleton(soup, comment)
            leaves = [t for t in soup.text if str(t) == comment]
            if str(soup) != src:
                bad.append('round trip differs for %r' % src)
            if len(leaves) != 1:
                bad.append('comment %r is not exactly one text leaf in %r' % (comment, src))
            if soup.count('end') or soup.count('x'):
                bad.append('search found something inside the comment of %r' % src)
        except Exception as e:  # well-formed input must parse
            bad.append('%r: %s: %s' % (src, type(e).__name__, e))
            continue
        if ref is None:
            ref = sk
        elif sk != ref:
            bad.append('tree around the comment depends on the payload: %r -> %r (expected %r)' % (src, sk, ref))
if bad:
    print('\n'.join(bad))
    sys.exit(1)
print('ok')
