"""C10 demo: the tree around a comment must not depend on the comment's payload,
and the comment must stay one text leaf (here: a comment right after a command name)."""
import sys
sys.path.insert(0, sys.argv[1])
from TexSoup import TexSoup

PAYLOADS = ['x', '', ' ', '}', '\\end{a}', '%']
CONTEXTS = [
    ('\\section', '\n{T} a'),
    ('a \\label ', '\n  {k} b'),
    ('\\begin{a}\\textbf', '\n{b}\\end{a}'),
    ('{\\def\\foo', '\n{body}}'),
    ('$\\textbf', '\n{b}$'),
]


def skeleton(node, comment):
    out = []
    for c in node.contents:
        if isinstance(c, str):
            out.append('<COMMENT>' if str(c) == comment else repr(str(c)))
        else:
            out.append((type(c.expr).__name__, str(c.name).replace(comment, '<COMMENT>'),
                        len(c.args), skeleton(c, comment)))
    return out


bad = []
for pre, post in CONTEXTS:
    ref = None
    for p in PAYLOADS:
        src, comment = pre + '%' + p + post, '%' + p
        try:
            soup = TexSoup(src)
            sk = skeleton(soup, comment)
            if comment not in str(soup):
                bad.append('the comment %r of %r is lost: %r' % (comment, src, str(soup)))
            if len([t for t in soup.text if str(t) == comment]) != 1:
                bad.append('comment %r is not exactly one text leaf in %r' % (comment, src))
        except Exception as e:  # these inputs parse on the unchanged tree
            bad.append('%r: %s: %s' % (src, type(e).__name__, e))
            continue
        if ref is None:
            ref = sk
        elif sk != ref:
            bad.append('tree around the comment depends on the payload: %r -> %r (expected %r)' % (src, sk, ref))
if bad:
    print('\n'.join(bad))
    sys.exit(1)
print('ok')
