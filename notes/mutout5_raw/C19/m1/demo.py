"""C19 demo: a single long text run (> 4096 characters without any special
character) must still be tokenised into tokens that partition the input."""
import sys
sys.path.insert(0, sys.argv[1])
from TexSoup.category import categorize
from TexSoup.tokens import tokenize


def check(s):
    cats = list(categorize(s))
    if [str(c) for c in cats] != list(s) or \
            [c.position for c in cats] != list(range(len(s))):
        return 'categorize does not give every character its own index'
    toks = list(tokenize(categorize(s)))
    if any(len(str(t)) == 0 for t in toks):
        return 'empty token'
    joined = ''.join(str(t) for t in toks)
    if joined != s:          # (the inputs below contain no NUL / DEL)
        i = next((k for k, (a, b) in enumerate(zip(joined, s)) if a != b),
                 min(len(joined), len(s)))
        return ('tokens do not reproduce the input: %d chars in, %d out, '
                'first difference at offset %d' % (len(s), len(joined), i))
    off = 0
    for t in toks:
        if t.position != off:
            return 'token %r records offset %r, starts at %d' % (
                str(t)[:20], t.position, off)
        off += len(str(t))
    return None


words = ' '.join('word%d' % i for i in range(1500))       # ~ 10K, no specials
docs = [
    r'\section{Intro} short text $x$ % c' + '\n',
    'a' * 4096,
    '{' + 'a' * 4097 + '}',
    r'\begin{document}' + words + r'\end{document}',
    r'\textbf{' + 'lorem ipsum, dolor. ' * 700 + r'} \emph{x}',
]
bad = [(d[:30], r) for d in docs for r in [check(d)] if r]
for head, r in bad:
    print('VIOLATION for input starting %r: %s' % (head, r))
sys.exit(1 if bad else 0)
