"""C19 demo: tokens must partition the input also when a long run of blanks
(longer than a few thousand characters) is followed by ordinary text."""
import sys
sys.path.insert(0, sys.argv[1])
from TexSoup.category import categorize
from TexSoup.tokens import tokenize


def check(s):
    cats = list(categorize(s))
    if [str(c) for c in cats] != list(s) or \
            [c.position for c in cats] != list(range(len(s))):
        return 'categorize does not give every character its own index'
    try:
        toks = list(tokenize(categorize(s)))
    except Exception as e:                      # no partition at all
        return 'tokenize raised %s: %s' % (type(e).__name__, e)
    if any(len(str(t)) == 0 for t in toks):
        return 'empty token'
    joined = ''.join(str(t) for t in toks)
    if joined != s:          # (the inputs below contain no NUL / DEL)
        i = next((k for k, (a, b) in enumerate(zip(joined, s)) if a != b),
                 min(len(joined), len(s)))
        return ('tokens do not reproduce the input: %d chars in, %d out, '
                'first difference at offset %d' % (len(s), len(joined), i))
    off = 0
    for t in toks:
        if t.position != off:
            return 'token %r records offset %r, starts at %d' % (
                str(t)[:20], t.position, off)
        off += len(str(t))
    return None


docs = [
    r'\section{Intro} short  text $x$ % c' + '\n',
    '{' + ' ' * 3000 + 'a}',
    '{' + ' ' * 9000 + '}',                       # blanks, no text after
    'x' * 20000 + r'\a{' + ' ' * 500 + 'b}',      # long input, short run
    '{' + ' ' * 9000 + 'a}',                      # long run, then text
    r'\begin{tabular}{ll}' + '\n' + '\t' * 10000 + r'cell & cell \\' + '\n'
    + r'\end{tabular}',
]
bad = [(d[:30], r) for d in docs for r in [check(d)] if r]
for head, r in bad:
    print('VIOLATION for input starting %r: %s' % (head, r))
sys.exit(1 if bad else 0)
