import sys
sys.path.insert(0, sys.argv[1] if len(sys.argv)>1 else '/tmp/mut5/C19')
from TexSoup.tokens import tokenize
from TexSoup.category import categorize
def check(s):
    toks = list(tokenize(categorize(s)))
    i = 0
    for t in toks:
        if len(t.text) == 0: return 'empty token at %d' % i
        # skip dropped NUL/DEL
        while i < len(s) and s[i] in '\x00\x7f' and not t.text.startswith(s[i]): i += 1
        # allow leading ignorable kept? tokens never start with them
        if t.position != i: return 'pos %r != %d for %r' % (t.position, i, t.text)
        if s[i:i+len(t.text)] != t.text: return 'text mismatch at %d: %r' % (i, t.text)
        i += len(t.text)
    if s[i:].strip('\x00\x7f'): return 'tail lost %r' % s[i:]
    return None
if __name__ == '__main__':
    import random
    random.seed(1)
    al = ['\\','{','}','$','&','\n','\r','#','^','_','\x00',' ','\t','a','l','e','f','t','(',')','[',']','%','\x7f','~','|','.','*','1']
    for n in range(20000):
        s = ''.join(random.choice(al) for _ in range(random.randint(0,30)))
        r = check(s)
        if r: print(repr(s), r); break
    else: print('ok')
