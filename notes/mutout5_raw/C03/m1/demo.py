"""C03 demo 1: inside the arguments of a \\newcommand-style definition a
\\begin{..} / \\end{..} is a plain command (TexSoup's documented "special
mode"), so a name search must return it as a `begin` / `end` command and must
not invent an environment.  This has to hold for the bracket (default value)
argument of the definition exactly as for its brace arguments."""
import sys
sys.path.insert(0, sys.argv[1])
from TexSoup import TexSoup

problems = []


def texts(nodes):
    return [str(n) for n in nodes]


def check(doc, expected):
    try:
        soup = TexSoup(doc)
    except Exception as e:  # a well-formed definition must parse
        problems.append('%r: parse failed with %s: %s' % (doc, type(e).__name__, e))
        return
    for name, want in expected.items():
        got = texts(soup.find_all(name))
        if got != want:
            problems.append('%r: find_all(%r) = %r, expected %r' % (doc, name, got, want))
        first = soup.find(name)
        if (str(first) if first is not None else None) != (want[0] if want else None):
            problems.append('%r: find(%r) = %r' % (doc, name, first))
        if soup.count(name) != len(want):
            problems.append('%r: count(%r) = %r, expected %d' % (doc, name, soup.count(name), len(want)))
        attr = getattr(soup, name)
        if (str(attr) if attr is not None else None) != (want[0] if want else None):
            problems.append('%r: soup.%s = %r' % (doc, name, attr))


# reference: the same definition body in a brace argument
check(r'\newcommand{\x}{\begin{a}\y\end{a}} \begin{a}\z\end{a}',
      {'begin': [r'\begin{a}'], 'end': [r'\end{a}'],
       'a': [r'\begin{a}\z\end{a}'], 'y': [r'\y'], 'z': [r'\z']})
# default value of the optional parameter, in brackets
check(r'\newcommand{\x}[2][\begin{a}\y\end{a}]{#1#2} \begin{a}\z\end{a}',
      {'begin': [r'\begin{a}'], 'end': [r'\end{a}'],
       'a': [r'\begin{a}\z\end{a}'], 'y': [r'\y'], 'z': [r'\z']})
# an unbalanced \begin in the default value
check(r'\renewcommand{\x}[1][\begin{a}]{#1} \z',
      {'begin': [r'\begin{a}'], 'a': [], 'z': [r'\z']})

if problems:
    print('\n'.join(problems))
    sys.exit(1)
sys.exit(0)
