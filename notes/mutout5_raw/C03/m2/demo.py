"""C03 demo 2: a full-expression query (one containing '{' or '[') matches
exactly the nodes whose text equals the query.  Every node of the document is
used as the query once; the expected answer is computed from the node texts."""
import sys
sys.path.insert(0, sys.argv[1])
from TexSoup import TexSoup

DOCS = [
    # two labelled items: the first is followed by a line break (which belongs
    # to the item), the second runs straight into \end
    '\\begin{itemize}\n\\item[a] x\n\\item[a] x\\end{itemize}',
    '\\begin{enumerate}\\item {\\bf k} v \\item {\\bf k} v\\end{enumerate} \\ref{k}',
]

problems = []
for doc in DOCS:
    soup = TexSoup(doc)
    nodes = [d for d in soup.descendants if hasattr(d, 'expr')]
    for node in nodes:
        query = str(node)
        if not ('{' in query or '[' in query):
            continue
        if query.startswith('\\begin') or not query.startswith('\\'):
            continue  # keep to command queries such as \ref{x}, \item[a] x
        want = [str(n) for n in nodes if str(n) == query]
        got = [str(n) for n in soup.find_all(query)]
        if got != want:
            problems.append('%r: find_all(%r) = %r, expected %r' % (doc, query, got, want))
        if soup.count(query) != len(want):
            problems.append('%r: count(%r) = %d, expected %d' % (doc, query, soup.count(query), len(want)))
        first = soup.find(query)
        if first is None or str(first) != want[0]:
            problems.append('%r: find(%r) = %r, expected %r' % (doc, query, first, want[0]))

if problems:
    print('\n'.join(problems))
    sys.exit(1)
sys.exit(0)
