"""C17: a parse depends on the source and the options alone, never on earlier
parses.  Each (source, skip_envs) pair is parsed once as the only parse of a
fresh interpreter and once after other parses that used other skip_envs values
(built at run time, as a caller reading names from a config would)."""
import subprocess
import sys

ROOT = sys.argv[1]
sys.path.insert(0, ROOT)

CHILD = r'''
import sys
sys.path.insert(0, sys.argv[1])
from TexSoup import TexSoup
print(repr(outcome(sys.argv[2], tuple(sys.argv[3].split(',')))))
'''

OUTCOME = r'''
def outcome(src, names):
    from TexSoup import TexSoup
    try:
        soup = TexSoup(src, skip_envs=names)
    except Exception as e:
        return ('error', type(e).__name__)
    return ('ok', str(soup), repr(soup.expr))
'''
exec(OUTCOME)


def case(i):
    name = 'box%s' % chr(ord('a') + i)
    src = 'x\\begin{%s}$ \\item {\\end{%s}y' % (name, name)
    return src, name


def main():
    for i in range(6):
        src, name = case(i)
        fresh = subprocess.run(
            [sys.executable, '-c', OUTCOME + CHILD, ROOT, src, name],
            capture_output=True, text=True, check=True).stdout.strip()
        names = tuple(name.split(','))       # a new tuple for every parse
        got = repr(outcome(src, names))      # noqa: F821
        del names
        if got != fresh:
            print('parse %d of this process differs from the same parse in a '
                  'fresh interpreter' % (i + 1))
            print('  source :', repr(src), ' skip_envs:', (name,))
            print('  fresh  :', fresh)
            print('  here   :', got)
            return 1
    return 0


if __name__ == '__main__':
    sys.exit(main())
