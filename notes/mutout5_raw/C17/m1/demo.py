"""C17: the same characters given as one string or as chunks must give the same
result, including the root's position -> (line, offset) mapping."""
import io
import sys

sys.path.insert(0, sys.argv[1])
from TexSoup import TexSoup  # noqa: E402

SRC = '\\section{A}\nfirst\n\\textbf{b}\nlast \\emph{c}\n$x$ end'


def summary(soup):
    return (str(soup), repr(soup.expr),
            [soup.char_pos_to_line(p) for p in range(len(SRC) + 1)])


def forms():
    yield 'lines', SRC.splitlines(True)
    yield 'file', io.StringIO(SRC)
    for cut in range(len(SRC) + 1):
        yield 'list cut %d' % cut, [SRC[:cut], SRC[cut:]]
        yield 'tuple cut %d' % cut, (SRC[:cut], SRC[cut:])
        yield 'gen cut %d' % cut, (c for c in (SRC[:cut], SRC[cut:]))


def main():
    want = summary(TexSoup(SRC))
    for label, form in forms():
        got = summary(TexSoup(form))
        if got != want:
            i = [a == b for a, b in zip(got, want)].index(False)
            print('input form %r differs from the plain string in %s' % (
                label, ('text', 'tree', 'char_pos_to_line')[i]))
            print('  string:', want[i])
            print('  chunks:', got[i])
            return 1
    return 0


if __name__ == '__main__':
    sys.exit(main())
