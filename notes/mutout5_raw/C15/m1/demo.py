"""C15 demo: after renaming an environment, searches must agree with the
serialised text (checked against a fresh parse of that text)."""
import sys

sys.path.insert(0, sys.argv[1])
from TexSoup import TexSoup  # noqa: E402

DOC = r'\begin{quote}a \textbf{b}\end{quote} x \begin{center}c\end{center}'


def main():
    soup = TexSoup(DOC)
    bad = []

    def check(step):
        text = str(soup)
        fresh = TexSoup(text)
        queries = []
        for name in ('quote', 'center', 'verse', 'flushleft'):
            queries += [name, r'\begin{%s}' % name, r'\end{%s}' % name]
        for q in queries:
            got = [str(n) for n in soup.find_all(q)]
            want = [str(n) for n in fresh.find_all(q)]
            if got != want:
                bad.append('%s: find_all(%r) gives %r, the text %r has %r'
                           % (step, q, got, text, want))

    check('parsed')
    # step 1: rename the first environment
    soup.quote.name = 'verse'
    model = r'\begin{verse}a \textbf{b}\end{verse} x \begin{center}c\end{center}'
    if str(soup) != model:
        bad.append('rename: text %r != model %r' % (str(soup), model))
    check('after rename quote->verse')
    # step 2: an edit inside the renamed environment
    soup.verse.textbf.delete()
    model = r'\begin{verse}a \end{verse} x \begin{center}c\end{center}'
    if str(soup) != model:
        bad.append('delete: text %r != model %r' % (str(soup), model))
    check('after delete')
    # step 3: rename the other environment
    soup.center.name = 'flushleft'
    model = r'\begin{verse}a \end{verse} x \begin{flushleft}c\end{flushleft}'
    if str(soup) != model:
        bad.append('rename 2: text %r != model %r' % (str(soup), model))
    check('after rename center->flushleft')

    if bad:
        print('PROPERTY C15 VIOLATED')
        for line in bad:
            print(' -', line)
        return 1
    print('ok')
    return 0


if __name__ == '__main__':
    sys.exit(main())
