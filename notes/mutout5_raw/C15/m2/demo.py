"""C15 demo: a history of argument-list edits; a slice of an argument list is
a new list, so editing the command that received it must not alter the command
it was taken from (reference model: plain Python lists of argument strings)."""
import sys

sys.path.insert(0, sys.argv[1])
from TexSoup import TexSoup  # noqa: E402

DOC = r'\alpha{a}[b] and \beta{c} and \gamma{d}{e}{f}'


def main():
    soup = TexSoup(DOC)
    model = {'alpha': ['{a}', '[b]'], 'beta': ['{c}'],
             'gamma': ['{d}', '{e}', '{f}']}
    bad = []

    def render():
        return r'\alpha%s and \beta%s and \gamma%s' % tuple(
            ''.join(model[k]) for k in ('alpha', 'beta', 'gamma'))

    def check(step):
        if str(soup) != render():
            bad.append('%s: text %r != model %r' % (step, str(soup), render()))
        for k in model:
            got = [str(a) for a in getattr(soup, k).args]
            if got != model[k]:
                bad.append('%s: \\%s has args %r, model %r'
                           % (step, k, got, model[k]))

    check('parsed')

    # 1. beta takes over the first two arguments of alpha (alpha has two)
    soup.beta.args = soup.alpha.args[:2]
    model['beta'] = model['alpha'][:2]
    check('beta.args = alpha.args[:2]')

    # 2. a further argument for beta only
    soup.beta.args.append('{z}')
    model['beta'].append('{z}')
    check("beta.args.append('{z}')")

    # 3. drop beta's first argument
    soup.beta.args.pop(0)
    model['beta'].pop(0)
    check('beta.args.pop(0)')

    # 4. a proper prefix of gamma's arguments goes to alpha, then alpha grows
    soup.alpha.args = soup.gamma.args[:2]
    model['alpha'] = model['gamma'][:2]
    soup.alpha.args.insert(0, '[o]')
    model['alpha'].insert(0, '[o]')
    check("alpha.args = gamma.args[:2]; alpha.args.insert(0, '[o]')")

    if bad:
        print('PROPERTY C15 VIOLATED')
        for line in bad:
            print(' -', line)
        return 1
    print('ok')
    return 0


if __name__ == '__main__':
    sys.exit(main())
