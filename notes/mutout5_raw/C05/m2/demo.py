"""C05: replacement / insertion lists of 1..3 strings or nodes are spliced in
exactly at the requested place, every other character unchanged."""
import sys
sys.path.insert(0, sys.argv[1])
from TexSoup import TexSoup

bad = []

def check(label, got, want):
    if got != want:
        bad.append('%s: got %r, expected %r' % (label, got, want))

DOC = r'\begin{center}\alpha{}\beta{}\gamma{}\end{center}'

# insert ('', 'X') at every index of the body
for i in range(4):
    soup = TexSoup(DOC)
    soup.center.insert(i, '', 'X')
    parts = [r'\alpha{}', r'\beta{}', r'\gamma{}']
    parts[i:i] = ['X']
    check('insert(%d, "", "X")' % i, str(soup),
          r'\begin{center}' + ''.join(parts) + r'\end{center}')

# replace the first child by ('', 'X', 'Y')
soup = TexSoup(DOC)
soup.center.alpha.replace_with('', 'X', 'Y')
check('replace_with("", "X", "Y")', str(soup),
      r'\begin{center}XY\beta{}\gamma{}\end{center}')

# the same inside an argument and inside an item
soup = TexSoup(r'\textit{\a{}\b{}\c{}}')
soup.textit.a.replace_with('', 'X')
check('replace in argument', str(soup), r'\textit{X\b{}\c{}}')

soup = TexSoup('\\begin{itemize}\\item \\a{}\\b{}\\c{}\\end{itemize}')
soup.item.insert(1, '', 'X')
check('insert in item', str(soup),
      '\\begin{itemize}\\item X\\a{}\\b{}\\c{}\\end{itemize}')

# sanity inside the same property: single empty string, empty string last
soup = TexSoup(DOC)
soup.center.beta.replace_with('')
check('replace_with("")', str(soup), r'\begin{center}\alpha{}\gamma{}\end{center}')
soup = TexSoup(DOC)
soup.center.insert(1, 'X', '')
check('insert(1, "X", "")', str(soup),
      r'\begin{center}\alpha{}X\beta{}\gamma{}\end{center}')

if bad:
    print('C05 violated:')
    for b in bad:
        print('  ' + b)
    sys.exit(1)
print('C05 holds')
sys.exit(0)
