"""C05: an edit made through a text node that was inserted earlier must hit
that very node, not an earlier, textually identical text run."""
import sys
sys.path.insert(0, sys.argv[1])
from TexSoup import TexSoup
from TexSoup.data import TexNode, TexText

bad = []

def check(label, got, want):
    if got != want:
        bad.append('%s: got %r, expected %r' % (label, got, want))

# 1. insert a text node behind an identical run, then delete it again
soup = TexSoup(r'\begin{center}x\alpha{}\beta\end{center}')
env = soup.center
node = TexNode(TexText('x'))
env.insert(2, node)
check('insert', str(soup), r'\begin{center}x\alpha{}x\beta\end{center}')
try:
    node.delete()
    check('delete inserted', str(soup), r'\begin{center}x\alpha{}\beta\end{center}')
except Exception as e:
    bad.append('delete inserted raised %r' % e)

# 2. same, but the inserted node is replaced by other text
soup = TexSoup(r'\begin{center}x\alpha{}\beta\end{center}')
env = soup.center
node = TexNode(TexText('x'))
env.insert(2, node)
try:
    node.replace_with('NEW')
    check('replace inserted', str(soup), r'\begin{center}x\alpha{}NEW\beta\end{center}')
except Exception as e:
    bad.append('replace inserted raised %r' % e)

# 3. move an existing text run of an item to the end of the item, remove it there
soup = TexSoup('\\begin{itemize}\\item[k] u \\y u \\z\\end{itemize}')
item = soup.item
first = item.expr._contents[0]            # ' u '
item.expr.remove(first)
check('take out', str(soup), '\\begin{itemize}\\item[k]\\y u \\z\\end{itemize}')
item.expr.append(first)
check('append', str(soup), '\\begin{itemize}\\item[k]\\y u \\z u \\end{itemize}')
try:
    item.expr.remove(first)
    check('remove moved', str(soup), '\\begin{itemize}\\item[k]\\y u \\z\\end{itemize}')
except Exception as e:
    bad.append('remove moved raised %r' % e)

if bad:
    print('C05 violated:')
    for b in bad:
        print('  ' + b)
    sys.exit(1)
print('C05 holds')
sys.exit(0)
