"""C18 demo 1: unparsed strings with matching delimiters whose body ends in a
line break (an even number of backslashes) must be coerced to the
corresponding group by append / insert / extend / remove, and the owning node
must print the concatenation of the groups."""
import sys
sys.path.insert(0, sys.argv[1])

from TexSoup.data import TexArgs, TexCmd, BraceGroup, BracketGroup  # noqa


def fail(msg):
    print('C18 VIOLATED:', msg)
    sys.exit(1)


BS = '\\'
bodies = ['a' + BS * 2, 'row 1 & x ' + BS * 2, BS * 2, 'a' + BS * 4,
          'p' + BS * 2 + '\n q ' + BS * 2]
for body in bodies:
    for cls in (BraceGroup, BracketGroup):
        s = cls.begin + body + cls.end
        cmd = TexCmd('multicolumn', args=[BraceGroup('2'), BraceGroup('c')])
        model = [str(a) for a in cmd.args]
        steps = [('append', lambda a: a.append(s), lambda m: m.append(s)),
                 ('insert0', lambda a: a.insert(0, s),
                  lambda m: m.insert(0, s)),
                 ('extend', lambda a: a.extend([s, '{z}']),
                  lambda m: m.extend([s, '{z}'])),
                 ('insert-1', lambda a: a.insert(-1, s),
                  lambda m: m.insert(-1, s)),
                 ('remove', lambda a: a.remove(s), lambda m: m.remove(s))]
        for name, op, mop in steps:
            try:
                op(cmd.args)
            except Exception as e:  # a well-formed string must not be refused
                fail('%s(%r) raised %s: %s' % (name, s, type(e).__name__, e))
            mop(model)
            if [str(a) for a in cmd.args] != model:
                fail('after %s(%r): %r != model %r' % (name, s, cmd.args,
                                                       model))
            kinds = [BraceGroup if m[0] == '{' else BracketGroup
                     for m in model]
            if [type(a) for a in cmd.args] != kinds:
                fail('after %s(%r): wrong group kinds in %r' % (
                    name, s, cmd.args))
            if str(cmd.args) != ''.join(model):
                fail('serialisation %r != %r' % (str(cmd.args),
                                                 ''.join(model)))
            if str(cmd) != BS + 'multicolumn' + ''.join(model):
                fail('owner prints %r' % str(cmd))

# mismatched strings are still rejected without changing the list
args = TexArgs(['{a}', '[b]'])
for bad in ['{a' + BS * 2, '[a' + BS * 2 + '}', BS * 2 + '}']:
    try:
        args.append(bad)
    except TypeError:
        pass
    else:
        fail('mismatched %r accepted' % bad)
    if [str(a) for a in args] != ['{a}', '[b]']:
        fail('list changed by rejected %r' % bad)
print('C18 holds')
sys.exit(0)
