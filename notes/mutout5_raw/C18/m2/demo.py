r"""C18 demo 2: the argument list of a parsed node whose first argument was
written without braces (``\def\foo{x}``, ``\textbf\alpha``) must still behave
like a Python list under pop / remove / insert / append / reverse, and the
owning node must print the concatenation of the arguments in list order."""
import itertools
import sys
sys.path.insert(0, sys.argv[1])

from TexSoup import TexSoup  # noqa
from TexSoup.data import BraceGroup  # noqa


def fail(msg):
    print('C18 VIOLATED:', msg)
    sys.exit(1)


OPS = {
    'pop': lambda a: a.pop(),
    'pop0': lambda a: a.pop(0),
    'pop1': lambda a: a.pop(1),
    'rm_last': lambda a: a.remove(a[-1]),
    'ins1': lambda a: a.insert(1, G[0]),
    'ins-1': lambda a: a.insert(-1, G[1]),
    'app': lambda a: a.append(G[2]),
    'rev': lambda a: a.reverse(),
}
G = [BraceGroup('p'), BraceGroup('q'), BraceGroup('p')]

docs = [(r'\def\foo{x}', 'def'), (r'\def\foo#1{x #1}', 'def'),
        (r'\textbf\alpha', 'textbf')]
for (doc, name), seq in itertools.product(
        docs, itertools.product(sorted(OPS), repeat=3)):
    node = TexSoup(doc).find(name)
    model = list(node.args)
    for step in seq:
        try:
            want = OPS[step](model)
            want_exc = None
        except Exception as e:
            want, want_exc = None, type(e)
        try:
            got = OPS[step](node.args)
            got_exc = None
        except Exception as e:
            got, got_exc = None, type(e)
        where = '%r after %s (at %s)' % (doc, '/'.join(seq), step)
        if got_exc is not want_exc:
            fail('%s: raised %s, a list raises %s' % (
                where, got_exc and got_exc.__name__,
                want_exc and want_exc.__name__))
        if got is not want:
            fail('%s: returned %r, a list returns %r' % (where, got, want))
        if len(node.args) != len(model) or any(
                x is not y for x, y in zip(node.args, model)):
            fail('%s: %r != model %r' % (where, node.args, model))
        text = ''.join(map(str, model))
        if str(node.args) != text or str(node) != '\\' + name + text:
            fail('%s: prints %r, expected %r' % (where, str(node),
                                                 '\\' + name + text))
print('C18 holds')
sys.exit(0)
