"""C18 demo: unparsed strings are coerced to the corresponding group only if
they are delimited by a matching pair; every other string is rejected and the
list is left as it was.  What is accepted must serialise to itself.

usage: demo.py <path of a TexSoup checkout>
exit 0: property holds, exit 1: property violated
"""
import sys

sys.path.insert(0, sys.argv[1])

from TexSoup import TexSoup                                  # noqa: E402
from TexSoup.data import BraceGroup, BracketGroup, TexGroup  # noqa: E402

failures = []

BODIES = ['', 'x', 'a b', 'a\nb', '\n', 'x\n', '\nx', '{y}', '[y]', 'a}{b',
          '\\cmd{y}', 'x\r\n', ' ']
OPEN = ['{', '[', '', '(']
CLOSE = ['}', ']', '', ')']
TAILS = ['', ' ', '\n', '\n\n', '\r\n', '\t', 'x']
HEADS = ['', ' ', '\n', 'x']

KIND = {('{', '}'): BraceGroup, ('[', ']'): BracketGroup}


def expected_kind(s):
    """the group type a well-delimited string stands for, else None"""
    for (b, e), kind in KIND.items():
        if len(s) >= 2 and s[0] == b and s[-1] == e:
            return kind
    return None


def snapshot(cmd):
    return list(cmd.args), str(cmd.args), str(cmd)


def unchanged(before, cmd):
    after = snapshot(cmd)
    return (len(before[0]) == len(after[0])
            and all(a is b for a, b in zip(before[0], after[0]))
            and before[1:] == after[1:])


def try_op(label, s, op):
    soup = TexSoup(r'\cmd{p}[q]{p}')
    cmd = soup.cmd.expr
    before = snapshot(cmd)
    model = list(before[0])
    kind = expected_kind(s)
    try:
        op(cmd.args, s)
        raised = None
    except Exception as e:                                    # noqa: BLE001
        raised = e
    if kind is None:
        # not a string in matching delimiters: must be rejected, list intact
        if raised is None:
            failures.append('%s(%r): accepted, list is now %r / %r'
                            % (label, s, list(cmd.args), str(cmd)))
        elif not unchanged(before, cmd):
            failures.append('%s(%r): rejected but the list changed to %r'
                            % (label, s, list(cmd.args)))
        return
    if raised is not None:
        failures.append('%s(%r): well delimited but rejected with %r'
                        % (label, s, raised))
        return
    return cmd, model, kind


def check_added(label, s, res, index):
    if res is None:
        return
    cmd, model, kind = res
    args = cmd.args
    if len(args) != len(model) + 1:
        failures.append('%s(%r): length %d' % (label, s, len(args)))
        return
    new = args[index]
    rest = list(args)
    del rest[index]
    if not all(a is b for a, b in zip(rest, model)):
        failures.append('%s(%r): other members disturbed' % (label, s))
    if type(new) is not kind or str(new) != s:
        failures.append('%s(%r): coerced to %r which prints %r'
                        % (label, s, new, str(new)))
    concat = ''.join(str(g) for g in args)
    if str(args) != concat or str(cmd) != '\\cmd' + concat:
        failures.append('%s(%r): serialisation %r / %r is not the '
                        'concatenation %r' % (label, s, str(args), str(cmd),
                                              concat))


strings = set()
for body in BODIES:
    for o in OPEN:
        for c in CLOSE:
            for h in HEADS:
                for t in TAILS:
                    strings.add(h + o + body + c + t)
strings = sorted(x for x in strings if x and not x.isspace())

for s in strings:
    check_added('append', s,
                try_op('append', s, lambda a, v: a.append(v)), -1)
    check_added('insert1', s,
                try_op('insert1', s, lambda a, v: a.insert(1, v)), 1)
    check_added('extend', s,
                try_op('extend', s, lambda a, v: a.extend([v])), -1)

# remove: a malformed string never removes anything
for s in strings:
    if expected_kind(s) is None:
        soup = TexSoup(r'\cmd{p}[q]{p}{x}[x]')
        cmd = soup.cmd.expr
        before = snapshot(cmd)
        try:
            cmd.args.remove(s)
        except Exception:                                     # noqa: BLE001
            pass
        if not unchanged(before, cmd):
            failures.append('remove(%r): malformed string changed the list '
                            'to %r' % (s, list(cmd.args)))

if failures:
    print('C18 violated (%d findings), first ones:' % len(failures))
    for f in failures[:12]:
        print('  -', f)
    sys.exit(1)
print('C18 holds on this checkout (%d strings tried)' % len(strings))
sys.exit(0)
