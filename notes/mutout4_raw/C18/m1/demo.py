"""C18 demo: the argument list of a command that was built from another
command's argument list must still behave like an ordinary Python list.

usage: demo.py <path of a TexSoup checkout>
exit 0: property holds, exit 1: property violated
"""
import sys

sys.path.insert(0, sys.argv[1])

from TexSoup import TexSoup                      # noqa: E402
from TexSoup.data import TexCmd, TexArgs, BraceGroup  # noqa: E402

failures = []


def same(args, model):
    return len(args) == len(model) and all(a is m for a, m in zip(args, model))


def check(label, owner, model):
    """the list equals the model (same objects, same order) and the owner
    prints the concatenation of the groups in list order"""
    args = owner.args
    if not same(args, model):
        failures.append('%s: list is %r, a Python list would be %r'
                        % (label, list(args), model))
    expected = ''.join(str(g) for g in model)
    if str(args) != expected:
        failures.append('%s: str(args) is %r, expected %r'
                        % (label, str(args), expected))
    if str(owner) != '\\' + owner.name + expected:
        failures.append('%s: owner prints %r, expected %r'
                        % (label, str(owner), '\\' + owner.name + expected))


def step(label, owner, model, op):
    """apply `op` to the TexArgs and to the model list; results and
    exceptions must agree"""
    try:
        got = ('ok', op(owner.args))
    except Exception as e:                        # noqa: BLE001
        got = ('raised', type(e).__name__)
    try:
        want = ('ok', op(model))
    except Exception as e:                        # noqa: BLE001
        want = ('raised', type(e).__name__)
    if got[0] != want[0] or (got[0] == 'ok' and got[1] is not want[1]) \
            or (got[0] == 'raised' and got[1] != want[1]):
        failures.append('%s: TexArgs gave %r, a Python list gives %r'
                        % (label, got, want))
    check(label, owner, model)


def scenario(make_second):
    soup = TexSoup(r'\first{x}[y]{z}')
    first = soup.first.expr
    second = make_second(first)
    m1, m2 = list(first.args), list(second.args)
    check('start/first', first, m1)
    check('start/second', second, m2)
    if not same(second.args, m1):
        failures.append('the second command did not receive the groups')

    # shrink the first list, then work on the second one
    step('first.pop(0)', first, m1, lambda a: a.pop(0))
    check('second after first.pop(0)', second, m2)
    step('second.pop()', second, m2, lambda a: a.pop())
    check('first after second.pop()', first, m1)
    step('first.pop()', first, m1, lambda a: a.pop())
    g = second.args[1] if len(second.args) > 1 else None
    if g is not None:
        step('second.remove(g)', second, m2, lambda a: a.remove(g))
    step('second.pop(0)', second, m2, lambda a: a.pop(0))
    step('first.clear()', first, m1, lambda a: a.clear())
    step('second.append(w)', second, m2, lambda a: a.append(w))
    check('first at the end', first, m1)


w = BraceGroup('w')

# (a) a new command constructed with the argument list of an existing one
scenario(lambda first: TexCmd('second', args=first.args))
# (b) the same through an explicit copy of the argument list
scenario(lambda first: TexCmd('second', args=TexArgs(first.args)))

if failures:
    print('C18 violated:')
    for f in failures:
        print('  -', f)
    sys.exit(1)
print('C18 holds on this checkout')
sys.exit(0)
