"""C06 demo: parsing is total (tree or diagnostic error), never an internal exception.

Feeds documents that contain a long run of ignored / invalid characters
(NUL, DEL) between two tokens, e.g. a file that is padded with NUL bytes behind
its last line. Nesting depth of every document is at most 1.

Usage: demo.py <path-of-TexSoup-checkout>
Exit 0: property holds on all inputs; exit 1: violated (details printed).
"""
import signal
import sys

sys.path.insert(0, sys.argv[1])
from TexSoup import TexSoup  # noqa: E402

DIAGNOSTIC = (EOFError, TypeError, AssertionError)

PAD = 4096
DOCS = [
    ('document + NUL padding',
     '\\begin{document}\nHello \\textbf{world}.\n\\end{document}\n' + '\x00' * PAD),
    ('NUL run in front of the document',
     '\x00' * PAD + '\\section{A}text'),
    ('DEL run behind a group',
     '\\textbf{x}' + '\x7f' * PAD + ' tail'),
    ('mixed NUL/DEL run inside a group',
     '{' + '\x00\x7f' * (PAD // 2) + '}'),
    ('NUL run inside an unclosed group',
     '{' + '\x00' * PAD),
    ('only NULs', '\x00' * PAD),
    # short runs, for comparison
    ('short runs', '\x00\x00\\a{\x7f\x7fb\x00}\x00$\x00x\x7f$\x00'),
]


class Timeout(Exception):
    pass


def on_alarm(signum, frame):
    raise Timeout()


def main():
    bad = []
    signal.signal(signal.SIGALRM, on_alarm)
    for label, doc in DOCS:
        for tolerance in (0, 1):
            signal.alarm(60)
            try:
                TexSoup(doc, tolerance=tolerance)
            except DIAGNOSTIC:
                pass
            except Timeout:
                bad.append((label, len(doc), tolerance,
                            'did not terminate within 60 s'))
            except BaseException as e:  # internal exception leaked
                bad.append((label, len(doc), tolerance,
                            'leaked %s: %s' % (type(e).__name__, e)))
            finally:
                signal.alarm(0)
    for label, n, tolerance, what in bad:
        print('C06 violated: %s (%d characters), tolerance=%d: %s'
              % (label, n, tolerance, what))
    return 1 if bad else 0


if __name__ == '__main__':
    sys.exit(main())
