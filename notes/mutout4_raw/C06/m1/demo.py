"""C06 demo: parsing is total (tree or diagnostic error), never an internal exception.

Feeds documents in which a comment ends the line of an `\\end` and the name
group follows on the next line, e.g.

    \\begin{center}
    text
    \\end% closes center
    {center}

Usage: demo.py <path-of-TexSoup-checkout>
Exit 0: property holds on all inputs; exit 1: violated (details printed).
"""
import signal
import sys

sys.path.insert(0, sys.argv[1])
from TexSoup import TexSoup  # noqa: E402

DIAGNOSTIC = (EOFError, TypeError, AssertionError)

DOCS = [
    '\\begin{center}\ntext\n\\end% closes center\n{center}\nafter',
    '\\begin{a}x\\end%\n{a}',
    '\\begin{a}x\\end%c\n{a}y',
    '\\begin{itemize}\n\\item one\n\\item two\n\\end%\n{itemize}\n',
    '\\begin{equation}a+b\\end% eq\n  {equation}',
    '$x$ \\begin{a}\\begin{b}y\\end%inner\n{b}\\end{a}',
    # same shape, but the name does not match / there is no group at all
    '\\begin{a}x\\end%c\n{b}y',
    '\\begin{a}x\\end%c',
    '\\begin{a}x\\end%c\n',
    '\\begin{a}x\\end%c\n\n{a}',
]


class Timeout(Exception):
    pass


def on_alarm(signum, frame):
    raise Timeout()


def main():
    bad = []
    signal.signal(signal.SIGALRM, on_alarm)
    for doc in DOCS:
        for tolerance in (0, 1):
            signal.alarm(20)
            try:
                TexSoup(doc, tolerance=tolerance)
            except DIAGNOSTIC:
                pass
            except Timeout:
                bad.append((doc, tolerance, 'did not terminate within 20 s'))
            except BaseException as e:  # internal exception leaked
                bad.append((doc, tolerance,
                            'leaked %s: %s' % (type(e).__name__, e)))
            finally:
                signal.alarm(0)
    for doc, tolerance, what in bad:
        print('C06 violated: TexSoup(%r, tolerance=%d) %s'
              % (doc, tolerance, what))
    return 1 if bad else 0


if __name__ == '__main__':
    sys.exit(main())
