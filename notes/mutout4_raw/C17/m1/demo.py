"""C17: the same characters give the same tree and text whether they are
passed as one string, as a list of lines or as an open file.

Usage: demo.py <path of a TexSoup checkout>; exit 0 = property holds, 1 = violated.
"""
import io
import os
import sys
import tempfile

sys.path.insert(0, sys.argv[1])
from TexSoup import TexSoup  # noqa: E402


def outcome(make_input):
    """Text, structural dump and node count of a parse (or the error)."""
    try:
        soup = TexSoup(make_input())
    except Exception as e:  # an error is an outcome, too
        return ('error', type(e).__name__)
    return ('ok', str(soup), repr(soup.expr), len(list(soup.descendants)))


def describe(o):
    if o[0] == 'error':
        return 'raised %s' % o[1]
    return 'text of %d characters, %d descendants' % (len(o[1]), o[3])


PARA = ('\\section{Part %d}\n'
        'Some text with $x_{%d}$ and \\textbf{bold %d} words, then a little '
        'more filler so that the line has a realistic length.\n\n')


def check(n_paragraphs):
    doc = ''.join(PARA % (i, i, i) for i in range(n_paragraphs))
    reference = outcome(lambda: doc)
    if reference[0] != 'ok' or reference[1] != doc:
        # not what this property is about; the string form is the yardstick
        print('unexpected: string form does not round-trip')
    forms = {
        'list of lines': lambda: doc.splitlines(True),
        'generator of 1000-character chunks':
            lambda: (doc[i:i + 1000] for i in range(0, len(doc), 1000)),
        'io.StringIO': lambda: io.StringIO(doc),
    }
    fd, path = tempfile.mkstemp(suffix='.tex')
    handles = []
    try:
        with os.fdopen(fd, 'w', encoding='utf-8', newline='') as f:
            f.write(doc)

        def open_file():
            h = open(path, encoding='utf-8', newline='')
            handles.append(h)
            return h
        forms['open file'] = open_file

        bad = []
        for name, make in forms.items():
            got = outcome(make)
            if got != reference:
                bad.append('%s: %s, but the single string gives %s' % (
                    name, describe(got), describe(reference)))
    finally:
        for h in handles:
            h.close()
        os.unlink(path)
    return len(doc), bad


failures = []
for n in (3, 40, 650):
    size, bad = check(n)
    for b in bad:
        failures.append('document of %d characters, %s' % (size, b))

if failures:
    print('C17 violated: the input form changes the parse result')
    for f in failures:
        print('  ' + f)
    sys.exit(1)
print('C17 holds: string, list of lines, generator, StringIO and open file agree')
sys.exit(0)
