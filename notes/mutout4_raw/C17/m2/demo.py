"""C17: parses are independent - an earlier parse (here: earlier parses that
ended in an error) never influences the result of a later parse, and parsing
the same source twice gives the same outcome.

Usage: demo.py <path of a TexSoup checkout>; exit 0 = property holds, 1 = violated.
"""
import sys

sys.path.insert(0, sys.argv[1])
sys.setrecursionlimit(1000)     # the interpreter default, stated explicitly
from TexSoup import TexSoup  # noqa: E402
from TexSoup.data import TexText  # noqa: E402


def depth_of(soup):
    """Nesting depth of the tree, walked without recursion."""
    depth, level = 0, [soup.expr]
    while level:
        nxt = []
        for expr in level:
            nxt.extend(c for c in expr.all if not isinstance(c, TexText))
        if nxt:
            depth += 1
        level = nxt
    return depth


def outcome(source):
    try:
        soup = TexSoup(source)
    except RecursionError:
        return 'raised RecursionError'
    except Exception as e:
        return 'raised %s' % type(e).__name__
    return 'parsed, nesting depth %d' % depth_of(soup)


def nested(n):
    return '{' * n + 'x' + '}' * n


# well-formed but deeply nested sources, around and beyond what the default
# recursion limit lets the recursive-descent reader handle
probes = [nested(n) for n in (200, 1100, 1300)]
# sources whose parse ends in an error
malformed = [r'\begin{itemize}\item a', r'\section{unclosed', r'$x', r'\begin']

before = [outcome(p) for p in probes]
twice = [outcome(p) for p in probes]
history = [outcome(m) for m in malformed]
after = [outcome(p) for p in probes]

bad = []
for p, b, t, a in zip(probes, before, twice, after):
    n = p.count('{')
    if t != b:
        bad.append('%d nested groups: first parse %s, second parse of the '
                   'same source %s' % (n, b, t))
    if a != b:
        bad.append('%d nested groups: %s at first, but %s after %d unrelated '
                   'parses that failed (%s)' % (n, b, a, len(malformed),
                                                 ', '.join(history)))
if bad:
    print('C17 violated: the outcome of a parse depends on earlier parses')
    for line in bad:
        print('  ' + line)
    sys.exit(1)
print('C17 holds: outcomes %s are the same before and after other parses' % before)
sys.exit(0)
