r"""C02 demo 1: a command keeps its argument groups (kind, order, contents).

usage: demo.py <path-of-a-TexSoup-checkout>
exit 0: the parse tree mirrors the documents below; exit 1: it does not.

The documents use \rule, once in the plain form `\rule{width}{height}` and
twice with the optional raise argument, `\rule[raise]{width}{height}` (the
usual way to make a strut).  The tree is compared with the structure that was
written.
"""
import sys

sys.path.insert(0, sys.argv[1])

from TexSoup import TexSoup                                    # noqa: E402
from TexSoup.data import (TexNamedEnv, TexCmd, TexText, BraceGroup,  # noqa: E402
                          BracketGroup, TexMathModeEnv)


def shape(x):
    """Structure of an expression: kind, name, argument groups, contents."""
    if isinstance(x, TexText) or (isinstance(x, str)
                                  and not isinstance(x, (TexCmd, TexNamedEnv))):
        return ('text', str(x))
    if isinstance(x, BracketGroup):
        return ('[]', merge([shape(c) for c in x._contents]))
    if isinstance(x, BraceGroup):
        return ('{}', merge([shape(c) for c in x._contents]))
    if isinstance(x, TexMathModeEnv):
        return ('$', merge([shape(c) for c in x._contents]))
    if isinstance(x, TexNamedEnv):
        return ('env', str(x.name), [shape(a) for a in x.args],
                merge([shape(c) for c in x._contents]))
    if isinstance(x, TexCmd):
        return ('cmd', str(x.name), [shape(a) for a in x.args],
                merge([shape(c) for c in x._contents]))
    return ('?', type(x).__name__, str(x))


def merge(shapes):
    """Adjacent text pieces form one text run."""
    out = []
    for s in shapes:
        if s[0] == 'text' and out and out[-1][0] == 'text':
            out[-1] = ('text', out[-1][1] + s[1])
        else:
            out.append(s)
    return out


def T(s):
    return ('text', s)


CASES = [
    # (document, structure as written)
    # a strut: \rule with its optional raise argument
    (r'\begin{tabular}{l}a\rule[-2pt]{0pt}{12pt} \\ b\end{tabular}',
     [('env', 'tabular', [('{}', [T('l')])], [
         T('a'),
         ('cmd', 'rule', [('[]', [T('-2pt')]), ('{}', [T('0pt')]),
                          ('{}', [T('12pt')])], []),
         T(' \\\\ b'),
     ])]),
    (r'x \rule[-.3\baselineskip]{1cm}{\baselineskip} y',
     [T('x '),
      ('cmd', 'rule',
       [('[]', [T('-.3'), ('cmd', 'baselineskip', [], [])]),
        ('{}', [T('1cm')]),
        ('{}', [('cmd', 'baselineskip', [], [])])], []),
      T(' y')]),
    # the plain form, for reference
    (r'\begin{center}\rule{1cm}{0.4pt}\end{center}',
     [('env', 'center', [], [
         ('cmd', 'rule', [('{}', [T('1cm')]), ('{}', [T('0.4pt')])], []),
     ])]),
]


def main():
    bad = 0
    for doc, want in CASES:
        try:
            soup = TexSoup(doc)
            got = merge([shape(c) for c in soup.expr._contents])
        except Exception as exc:  # a well-formed document must parse
            print('FAIL %r\n  raised %s: %s' % (doc, type(exc).__name__, exc))
            bad += 1
            continue
        if got != want:
            print('FAIL %r\n  written: %r\n  tree   : %r' % (doc, want, got))
            bad += 1
    if bad:
        print('%d document(s) are not mirrored by the parse tree' % bad)
        return 1
    print('ok: all documents are mirrored by the parse tree')
    return 0


if __name__ == '__main__':
    sys.exit(main())
