r"""C02 demo 2: a command appears once, with its name and its argument groups.

usage: demo.py <path-of-a-TexSoup-checkout>
exit 0: the parse tree mirrors the documents below; exit 1: it does not.

Every document is `\begin{document}A \<name>[o]{r} B\end{document}` for a
command name made of letters only; the names grow from 1 to 80 letters (long
names are what package-internal and generated macros look like, e.g.
\DeclareFancyChapterHeadingStyleForAppendices).  The tree must hold exactly
one command with that name, one bracket group and one brace group as its
arguments, between the two text runs.
"""
import sys

sys.path.insert(0, sys.argv[1])

from TexSoup import TexSoup                                    # noqa: E402
from TexSoup.data import (TexNamedEnv, TexCmd, TexText, BraceGroup,  # noqa: E402
                          BracketGroup)


def shape(x):
    """Structure of an expression: kind, name, argument groups, contents."""
    if isinstance(x, TexText) or isinstance(x, str):
        return ('text', str(x))
    if isinstance(x, BracketGroup):
        return ('[]', merge([shape(c) for c in x._contents]))
    if isinstance(x, BraceGroup):
        return ('{}', merge([shape(c) for c in x._contents]))
    if isinstance(x, TexNamedEnv):
        return ('env', str(x.name), [shape(a) for a in x.args],
                merge([shape(c) for c in x._contents]))
    if isinstance(x, TexCmd):
        return ('cmd', str(x.name), [shape(a) for a in x.args],
                merge([shape(c) for c in x._contents]))
    return ('?', type(x).__name__, str(x))


def merge(shapes):
    """Adjacent text pieces form one text run."""
    out = []
    for s in shapes:
        if s[0] == 'text' and out and out[-1][0] == 'text':
            out[-1] = ('text', out[-1][1] + s[1])
        else:
            out.append(s)
    return out


ALPHABET = 'DeclareFancyChapterHeadingStyleForAppendicesAndOtherBackMatterSectionsOfTheBookClass'


def main():
    bad = 0
    for length in range(1, 81):
        name = ALPHABET[:length]
        doc = r'\begin{document}A \%s[o]{r} B\end{document}' % name
        want = [('env', 'document', [], [
            ('text', 'A '),
            ('cmd', name, [('[]', [('text', 'o')]), ('{}', [('text', 'r')])],
             []),
            ('text', ' B'),
        ])]
        try:
            soup = TexSoup(doc)
            got = merge([shape(c) for c in soup.expr._contents])
        except Exception as exc:  # a well-formed document must parse
            print('FAIL name of %d letters: raised %s: %s'
                  % (length, type(exc).__name__, exc))
            bad += 1
            continue
        if got != want:
            bad += 1
            if bad <= 3:
                print('FAIL name of %d letters: %r\n  written: %r\n  tree   : %r'
                      % (length, doc, want, got))
    if bad:
        print('%d document(s) are not mirrored by the parse tree' % bad)
        return 1
    print('ok: all documents are mirrored by the parse tree')
    return 0


if __name__ == '__main__':
    sys.exit(main())
