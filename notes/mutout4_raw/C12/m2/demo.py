"""C12 demo: a math font command applied to a bare symbol (`\\boldsymbol\\alpha`,
`\\boldsymbol x`) inside every kind of math region.  The region must be ONE math
node of the right kind, its text must be exactly the enclosed source, and every
command inside (here `\\alpha`, `\\nabla`) must stay searchable."""
import sys

sys.path.insert(0, sys.argv[1])

from TexSoup import TexSoup                                    # noqa: E402
from TexSoup.data import (TexMathModeEnv, TexDisplayMathModeEnv,  # noqa: E402
                          TexMathEnv, TexDisplayMathEnv, TexNamedEnv)

KINDS = [
    ('$', '$', TexMathModeEnv),
    ('$$', '$$', TexDisplayMathModeEnv),
    (r'\(', r'\)', TexMathEnv),
    (r'\[', r'\]', TexDisplayMathEnv),
    (r'\begin{align*}', r'\end{align*}', TexNamedEnv),
]
BODIES = [
    # (body, {command name: expected number of hits})
    (r'\boldsymbol\alpha + \operatorname{dom} f = [0,1)',
     {'boldsymbol': 1, 'alpha': 1, 'operatorname': 1}),
    (r'\frac{\boldsymbol\nabla}{2} \cdot \boldsymbol{v} \in [a',
     {'boldsymbol': 2, 'nabla': 1, 'frac': 1, 'cdot': 1, 'in': 1}),
    (r'a\boldsymbol x = \$1', {'boldsymbol': 1}),
]

failures = []
for begin, end, cls in KINDS:
    for body, expected in BODIES:
        source = 'see ' + begin + body + end + ' ok'
        label = begin + body + end
        try:
            soup = TexSoup(source)
        except Exception as e:   # a well-formed region must parse
            failures.append('%s: %s: %s' % (label, type(e).__name__,
                                            str(e)[:80]))
            continue
        nodes = [e for e in soup.expr._contents if isinstance(e, cls)]
        if len(nodes) != 1:
            failures.append('%s: %d math nodes instead of 1'
                            % (label, len(nodes)))
            continue
        if str(nodes[0]) != begin + body + end:
            failures.append('%s: region reads %r' % (label, str(nodes[0])))
        for name, count in sorted(expected.items()):
            found = len(soup.find_all(name))
            if found != count:
                failures.append('%s: \\%s found %d time(s), expected %d'
                                % (label, name, found, count))

if failures:
    print('C12 violated:')
    for f in failures:
        print('  -', f)
    sys.exit(1)
print('C12 holds for font commands applied to bare symbols in math')
sys.exit(0)
