"""C12 demo: math regions whose body nests brace groups / brace arguments
deeply (70 levels, far below what the parser can handle) must still come out
as ONE math node of the right kind whose body is exactly the enclosed source,
and the commands inside must stay searchable."""
import sys

sys.path.insert(0, sys.argv[1])

from TexSoup import TexSoup                                    # noqa: E402
from TexSoup.data import (TexMathModeEnv, TexDisplayMathModeEnv,  # noqa: E402
                          TexMathEnv, TexDisplayMathEnv, TexNamedEnv)

DEPTH = 70
KINDS = [
    ('$', '$', TexMathModeEnv),
    ('$$', '$$', TexDisplayMathModeEnv),
    (r'\(', r'\)', TexMathEnv),
    (r'\[', r'\]', TexDisplayMathEnv),
    (r'\begin{equation}', r'\end{equation}', TexNamedEnv),
]
BODIES = [
    # (body, name of a command inside, number of occurrences)
    (r'a+' + r'\frac{1}{' * DEPTH + r'\alpha' + '}' * DEPTH + ' [b', 'frac', DEPTH),
    (r'x \in [0,1) ' + '{' * DEPTH + r'\beta' + '}' * DEPTH, 'beta', 1),
]

failures = []
for begin, end, cls in KINDS:
    for body, name, count in BODIES:
        source = 'see ' + begin + body + end + ' ok'
        try:
            soup = TexSoup(source)
            nodes = [e for e in soup.expr._contents if isinstance(e, cls)]
            if len(nodes) != 1:
                failures.append('%s...%s: %d math nodes instead of 1'
                                % (begin, end, len(nodes)))
                continue
            if str(nodes[0]) != begin + body + end:
                failures.append('%s...%s: region is not the enclosed source'
                                % (begin, end))
            if str(soup) != source:
                failures.append('%s...%s: document changed' % (begin, end))
            found = len(soup.find_all(name))
            if found != count:
                failures.append('%s...%s: \\%s found %d times, expected %d'
                                % (begin, end, name, found, count))
        except Exception as e:   # a well-formed region must parse
            failures.append('%s...%s with %d nested groups: %s: %s'
                            % (begin, end, DEPTH, type(e).__name__,
                               str(e)[:90]))

if failures:
    print('C12 violated:')
    for f in failures:
        print('  -', f)
    sys.exit(1)
print('C12 holds for deeply nested math bodies')
sys.exit(0)
