"""C15 demo 2: one edit step that brings in many new items at once.

A list of 20 new items (plain strings and fresh copies of nodes parsed
elsewhere) is inserted in front of existing siblings / used as the replacement
of one child (in a body and inside an argument group).  The serialised text
must equal that of a plain list model subjected to the same edits, and the
siblings that were not targeted must all still be there.

usage: demo.py <path of a TexSoup checkout>;  exit 0 = property holds.
"""
import sys

sys.path.insert(0, sys.argv[1])

from TexSoup import TexSoup  # noqa: E402


def fail(msg):
    print('C15 VIOLATED: ' + msg)
    sys.exit(1)


def material(n):
    """n new items: plain strings and copies of nodes parsed elsewhere."""
    other = TexSoup(''.join(r'\new%s{%d}' % ('abcdefghij'[k], k)
                            for k in range(10)))
    nodes = [c.copy() for c in other.children]
    items, texts = [], []
    for k in range(n):
        if k % 2:
            items.append('s%d;' % k)
            texts.append('s%d;' % k)
        else:
            node = nodes[(k // 2) % len(nodes)].copy()
            items.append(node)
            texts.append(str(node))
    return items, texts


def check(soup, model, step, survivors):
    if str(soup) != model:
        fail('%s: serialised text differs from the reference model\n'
             '  model: %s\n  tree : %s' % (step, model, soup))
    for name in survivors:
        if soup.find(name) is None:
            fail('%s: untargeted node \\%s was lost' % (step, name))
    # text view and descendants agree with the serialisation
    for piece in soup.text:
        if str(piece) not in model:
            fail('%s: text view has a piece that is not in the document: %r'
                 % (step, piece))


# 1. insert in front of existing siblings of an environment body
soup = TexSoup(r'\begin{doc}\keepa{1}\keepb{2}\keepc{3}\end{doc}')
items, texts = material(20)
soup.doc.insert(1, *items)
model = (r'\begin{doc}\keepa{1}' + ''.join(texts) +
         r'\keepb{2}\keepc{3}\end{doc}')
check(soup, model, 'insert 20 items at index 1',
      ['keepa', 'keepb', 'keepc'])
# one more step afterwards
soup.doc.keepb.delete()
model = model.replace(r'\keepb{2}', '')
check(soup, model, 'then delete keepb', ['keepa', 'keepc'])

# 2. replace one child of a body by 20 items
soup = TexSoup(r'\begin{doc}\keepa{1}\old{x}\keepb{2}\keepc{3}\end{doc}')
items, texts = material(20)
soup.doc.old.replace_with(*items)
model = (r'\begin{doc}\keepa{1}' + ''.join(texts) +
         r'\keepb{2}\keepc{3}\end{doc}')
check(soup, model, 'replace a child by 20 items',
      ['keepa', 'keepb', 'keepc'])

# 3. the same inside an argument group
soup = TexSoup(r'\outer{\keepa{1}\old{x}\keepb{2} tail}{second}')
items, texts = material(18)
soup.outer.old.replace_with(*items)
model = r'\outer{\keepa{1}' + ''.join(texts) + r'\keepb{2} tail}{second}'
check(soup, model, 'replace a child of an argument group by 18 items',
      ['keepa', 'keepb'])

# 4. control: a small number of items and appending many items
soup = TexSoup(r'\begin{doc}\keepa{1}\keepb{2}\end{doc}')
items, texts = material(3)
soup.doc.insert(1, *items)
items2, texts2 = material(20)
soup.doc.append(*items2)
model = (r'\begin{doc}\keepa{1}' + ''.join(texts) + r'\keepb{2}' +
         ''.join(texts2) + r'\end{doc}')
check(soup, model, 'insert 3 items, append 20 items', ['keepa', 'keepb'])

print('C15 holds on this checkout')
sys.exit(0)
