"""C15 demo 1: an edit history on a long body that holds identical twins.

A body with more than 64 siblings receives two copies of one node parsed
elsewhere (identical twins, far apart).  The first twin is then targeted by
delete / replace_with.  The serialised text must equal that of a plain list
model subjected to the same edits, and the other twin must stay where it is.

usage: demo.py <path of a TexSoup checkout>;  exit 0 = property holds.
"""
import itertools
import string
import sys

sys.path.insert(0, sys.argv[1])

from TexSoup import TexSoup  # noqa: E402

NAMES = ['n' + a + b for a, b in
         itertools.product(string.ascii_lowercase[:9], repeat=2)][:70]


def build():
    body = [r'\%s{%d}' % (name, k) for k, name in enumerate(NAMES)]
    soup = TexSoup(r'\begin{doc}' + ''.join(body) + r'\end{doc}')
    other = TexSoup(r'text \twin{t} more')
    return soup, other, body


def text_of(body):
    return r'\begin{doc}' + ''.join(body) + r'\end{doc}'


def fail(msg):
    print('C15 VIOLATED: ' + msg)
    sys.exit(1)


def check(soup, body, step):
    if str(soup) != text_of(body):
        fail('%s: serialised text differs from the reference model\n'
             '  model twin positions: %r\n  tree  twin positions: %r' % (
                 step,
                 [k for k, s in enumerate(body) if s == r'\twin{t}'],
                 [k for k, c in enumerate(soup.doc.expr._contents)
                  if str(c) == r'\twin{t}']))
    # views agree with the model, inserted material included
    kids = [str(c) for c in soup.doc.children]
    if kids != [s for s in body if s.startswith('\\')]:
        fail('%s: children differ from the reference model' % step)
    found = [str(n) for n in soup.find_all('twin')]
    if len(found) != body.count(r'\twin{t}'):
        fail('%s: find_all sees %d twins, model has %d' % (
            step, len(found), body.count(r'\twin{t}')))


def history(kind):
    soup, other, body = build()
    doc = soup.doc
    assert len(doc.expr._contents) == 70

    # two copies of one node parsed elsewhere: identical twins, far apart
    doc.insert(3, other.twin.copy())
    body.insert(3, r'\twin{t}')
    check(soup, body, kind + '/insert first twin')
    doc.insert(40, other.twin.copy())
    body.insert(40, r'\twin{t}')
    check(soup, body, kind + '/insert second twin')

    target = soup.doc.contents[3]
    assert str(target) == r'\twin{t}'
    if kind == 'delete':
        target.delete()
        del body[3]
    else:
        target.replace_with('X', 'Y')
        body[3:4] = ['X', 'Y']
    check(soup, body, kind + '/' + kind + ' first twin')

    # one more step on an untouched neighbour
    soup.doc.children[0].delete()
    del body[0]
    check(soup, body, kind + '/delete first child')


for kind in ('delete', 'replace'):
    history(kind)
print('C15 holds on this checkout')
sys.exit(0)
