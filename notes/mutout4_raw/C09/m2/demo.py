"""C09 demo: arguments attach by the one-line-break rule with exact contents.

Builds commands of the shape  \\name <sep> [body] <sep> [body] <sep> {body} ...
from known parts, so that the expected attached groups are known by
construction, and compares them with what TexSoup attaches.  Command names range
from short to very long (well over a hundred letters, with and without a star).

usage: demo.py <path of a TexSoup checkout>;  exit 0 = holds, 1 = violated
"""
import sys

sys.path.insert(0, sys.argv[1])

from TexSoup import TexSoup                       # noqa: E402
from TexSoup.data import BraceGroup, BracketGroup, TexCmd  # noqa: E402

failures = []


def check(label, name, groups, seps, tail, wrap=('', '')):
    """groups: list of (kind, body); seps: separators in front of each group
    (all of them attaching); tail: detached rest behind the run."""
    run = ''.join(
        sep + ('[%s]' if kind == 'o' else '{%s}') % body
        for sep, (kind, body) in zip(seps, groups))
    source = wrap[0] + '\\' + name + run + tail + wrap[1]
    try:
        soup = TexSoup(source)
    except Exception as error:          # a well-formed document must parse
        failures.append('%s: %s: %s' % (label, type(error).__name__,
                                        str(error)[:120]))
        return
    cmd = soup.find(name)
    if cmd is None:
        seen = [(len(str(n.name)), [str(a)[:12] for a in n.args])
                for n in soup.descendants
                if hasattr(n, "expr") and isinstance(n.expr, TexCmd)]
        failures.append(
            '%s: no command with the %d-character name has the groups; '
            'commands seen (name length, args): %r' % (label, len(name), seen))
        return
    got = [(type(a).__name__, str(a.string)) for a in cmd.args]
    want = [('BracketGroup' if kind == 'o' else 'BraceGroup', body)
            for kind, body in groups]
    if got != want:
        def short(pairs):
            return [(k, b if len(b) < 30 else b[:12] + '...(%d chars)' % len(b))
                    for k, b in pairs]
        failures.append('%s: attached %r, expected %r'
                        % (label, short(got), short(want)))


import random

rng = random.Random(9)
letters = 'abcdefghijklmnopqrstuvwxyzABCDEFGHIJKLMNOPQRSTUVWXYZ'
attaching = ['', ' ', '\t', '\n', ' \n ', '  \t ']
bodies = ['a', 'x{]}y', 'p $q$ r', '[', '']


def make_name(length, star):
    # never a prefix that the tokenizer treats specially (left, big, ...)
    name = 'q' + ''.join(rng.choice(letters) for _ in range(length - 1))
    return name + ('*' if star else '')


for length in (1, 2, 5, 12, 20, 31, 32, 33, 48, 63, 64, 65, 66, 80, 100,
               127, 128, 129, 200, 300):
    for star in (False, True):
        name = make_name(length, star)
        label = 'name-%d%s' % (length, '*' if star else '')
        for i, sep in enumerate(attaching):
            body = bodies[i % len(bodies)]
            check('%s/opt+req/%d' % (label, i), name,
                  [('o', 'k'), ('r', body), ('r', 'c')], [sep, sep, sep],
                  '.{rest}')
            check('%s/req/%d' % (label, i), name,
                  [('r', body)], [sep], '\n\n{detached}')
        check(label + '/env', name, [('o', 'a'), ('r', 'b')], ['', ''], '',
              wrap=('\\begin{center}', '\\end{center}'))
        check(label + '/math', name, [('r', 'a'), ('r', 'b')], ['', ' '], '',
              wrap=('$', '$'))
        check(label + '/arg', name, [('o', 'a'), ('r', 'b')], ['', ''], '',
              wrap=('\\outer{', '}'))

if failures:
    print('C09 VIOLATED (%d cases), e.g.:' % len(failures))
    for line in failures[:6]:
        print('  ' + line)
    sys.exit(1)
print('C09 holds on all constructed cases')
sys.exit(0)
