"""C09 demo: arguments attach by the one-line-break rule with exact contents.

Builds commands of the shape  \\name <sep> [body] <sep> [body] <sep> {body} ...
from known parts, so that the expected attached groups are known by
construction, and compares them with what TexSoup attaches.  Bodies range
from short to long (several hundred tokens in one optional argument).

usage: demo.py <path of a TexSoup checkout>;  exit 0 = holds, 1 = violated
"""
import sys

sys.path.insert(0, sys.argv[1])

from TexSoup import TexSoup                       # noqa: E402
from TexSoup.data import BraceGroup, BracketGroup, TexCmd  # noqa: E402

failures = []


def check(label, name, groups, seps, tail, wrap=('', '')):
    """groups: list of (kind, body); seps: separators in front of each group
    (all of them attaching); tail: detached rest behind the run."""
    run = ''.join(
        sep + ('[%s]' if kind == 'o' else '{%s}') % body
        for sep, (kind, body) in zip(seps, groups))
    source = wrap[0] + '\\' + name + run + tail + wrap[1]
    try:
        soup = TexSoup(source)
    except Exception as error:          # a well-formed document must parse
        failures.append('%s: %s: %s' % (label, type(error).__name__,
                                        str(error)[:120]))
        return
    cmd = soup.find(name)
    if cmd is None:
        failures.append('%s: command \\%s not found' % (label, name))
        return
    got = [(type(a).__name__, str(a.string)) for a in cmd.args]
    want = [('BracketGroup' if kind == 'o' else 'BraceGroup', body)
            for kind, body in groups]
    if got != want:
        def short(pairs):
            return [(k, b if len(b) < 30 else b[:12] + '...(%d chars)' % len(b))
                    for k, b in pairs]
        failures.append('%s: attached %r, expected %r'
                        % (label, short(got), short(want)))


short_bodies = ['a', 'x{]}y', 'p $q$ r', '']
# long bodies without a closing bracket outside braces
long_groups = ''.join('{w%d}' % i for i in range(120))          # 360 tokens
long_cmds = ' '.join('\\alpha{%d}' % i for i in range(80))       # > 400 tokens
long_math = ' '.join('$x_%d$' % i for i in range(110))           # > 400 tokens

attaching = ['', ' ', '\t', '\n', ' \n ', '  \t ']

# 1. short bodies, all attaching separators (sanity: holds everywhere)
for i, sep in enumerate(attaching):
    for j, body in enumerate(short_bodies):
        check('short/%d/%d' % (i, j), 'foo',
              [('o', body), ('r', 'b'), ('r', body)],
              [sep, sep, sep], '.{rest}')

# 2. one long optional argument, followed by required ones
for label, body in (('groups', long_groups), ('cmds', long_cmds),
                    ('math', long_math)):
    for i, sep in enumerate(attaching):
        check('long-%s/%d' % (label, i), 'foo',
              [('o', body), ('r', 'b'), ('r', 'c')],
              [sep, sep, sep], ' tail')
        check('long-%s-2nd/%d' % (label, i), 'foo',
              [('o', 'k'), ('o', body), ('r', 'b')],
              [sep, sep, sep], '\n\n{detached}')
    # in enclosing contexts
    check('long-%s/env' % label, 'foo', [('o', body), ('r', 'b')], ['', ''],
          '', wrap=('\\begin{center}', '\\end{center}'))
    check('long-%s/group' % label, 'foo', [('o', body), ('r', 'b')], ['', ''],
          '', wrap=('{\\em ', '}'))
    check('long-%s/arg' % label, 'foo', [('o', body), ('r', 'b')], ['', ''],
          '', wrap=('\\outer{', '}'))

# 3. long required arguments for comparison
check('long-required', 'foo', [('o', 'a'), ('r', long_groups), ('r', long_cmds)],
      ['', ' ', '\n'], '')

if failures:
    print('C09 VIOLATED (%d cases), e.g.:' % len(failures))
    for line in failures[:6]:
        print('  ' + line)
    sys.exit(1)
print('C09 holds on all constructed cases')
sys.exit(0)
