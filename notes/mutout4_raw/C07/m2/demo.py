"""C07, second and third clause: a well-formed document without math, verbatim
or list regions that has lost one closing brace, one closing bracket of an
argument or one \\end{name} is rejected by strict parsing and accepted by
tolerant parsing, and the tolerant output is the input with nothing but
closing delimiters inserted.

Checked for closers lost at several places of a short and of a longer
(article-sized) document.
usage: demo.py <path of a TexSoup checkout>; exit 0 = holds, 1 = violated.
"""
import re
import sys

sys.path.insert(0, sys.argv[1])

from TexSoup import TexSoup  # noqa: E402


def document(paragraphs):
    parts = ['\\documentclass[a4paper]{article}\n',
             '\\usepackage[utf8]{inputenc}\n',
             '\\begin{document}\n',
             '\\section{Introduction}\n']
    for i in range(paragraphs):
        parts.append(
            'Paragraph %d has \\emph{some} words and a \\textbf{bold \\textit'
            '{nested}} part, a note\\footnote{see \\cite[p.~%d]{key%d}} and '
            'a reference~\\ref{sec:%d}.\n' % (i, i + 1, i, i))
        if i % 4 == 3:
            parts.append('\\begin{center}\ncentred \\textsc{text} %d\n'
                         '\\begin{quote}quoted {\\small words}\\end{quote}\n'
                         '\\end{center}\n' % i)
        if i % 5 == 4:
            parts.append('\\subsection{Part %d}\\label{sec:%d}\n' % (i, i))
    parts.append('\\end{document}\n')
    return ''.join(parts)


def closers(doc):
    """(start, end) of every closing brace, closing bracket and \\end{name}."""
    spans = [m.span() for m in re.finditer(r'\\end\{[a-z]+\}', doc)]
    inside = set(i for a, b in spans for i in range(a, b))
    spans += [(i, i + 1) for i, ch in enumerate(doc)
              if ch in '}]' and i not in inside]
    return sorted(spans)


def only_closers_inserted(inp, out):
    """Can `out` be made from `inp` by inserting `}`, `]`, `\\end{name}`?"""
    pieces = {'}', ']'}
    for m in re.finditer(r'\\end\{', out):      # every \end{...}, balanced
        depth, k = 1, m.end()
        while depth and k < len(out):
            depth += {'{': 1, '}': -1}.get(out[k], 0)
            k += 1
        if not depth:
            pieces.add(out[m.start():k])

    def closure(states):
        todo = list(states)
        while todo:
            j = todo.pop()
            for piece in pieces:
                k = j + len(piece)
                if out.startswith(piece, j) and k not in states:
                    states.add(k)
                    todo.append(k)
        return states

    states = closure({0})
    for ch in inp:
        states = closure({j + 1 for j in states
                          if j < len(out) and out[j] == ch})
        if not states:
            return False
    return len(out) in states


def check(doc, failures):
    try:
        TexSoup(doc, tolerance=0)
    except Exception as e:
        failures.append('the intact document is rejected: %r' % e)
        return
    spans = closers(doc)
    # a sample: the first ones, the last ones and some in between
    step = max(1, len(spans) // 12)
    chosen = sorted(set(spans[:6] + spans[-6:] + spans[::step]))
    for a, b in chosen:
        broken = doc[:a] + doc[b:]
        where = 'closer %r lost at offset %d of %d' % (doc[a:b], a, len(doc))
        try:
            TexSoup(broken, tolerance=0)
        except Exception:
            pass
        else:
            failures.append('%s: strict parsing reports no error' % where)
        try:
            out = str(TexSoup(broken, tolerance=1))
        except Exception as e:
            failures.append('%s: tolerant parsing fails: %s: %s' % (
                where, type(e).__name__, str(e).split('\n')[0][:100]))
            continue
        if not only_closers_inserted(broken, out):
            failures.append('%s: tolerant output is not the input plus '
                            'closing delimiters' % where)


def main():
    failures = []
    for paragraphs in (2, 24):
        check(document(paragraphs), failures)
    if failures:
        print('C07 violated (%d cases), e.g.' % len(failures))
        for line in failures[:6]:
            print('  ' + line)
        return 1
    print('C07 holds on the documents tried')
    return 0


if __name__ == '__main__':
    sys.exit(main())
