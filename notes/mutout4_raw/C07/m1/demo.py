"""C07, first clause: whenever strict parsing succeeds, tolerant parsing
returns an identical tree and text.

Checked on small well-formed documents whose environment names have various
lengths (LaTeX puts no bound on the length of an environment name).
usage: demo.py <path of a TexSoup checkout>; exit 0 = holds, 1 = violated.
"""
import sys

sys.path.insert(0, sys.argv[1])

from TexSoup import TexSoup  # noqa: E402


def parse(doc, tolerance):
    soup = TexSoup(doc, tolerance=tolerance)
    return str(soup), repr(soup.expr)


def documents():
    stem = 'supplementarymaterialsfigurepanelwithcaptionandnotes'
    for length in (3, 8, 15, 20, 26, 31, 32, 33, 34, 40, 52):
        name = stem[:length]
        # plain, with arguments, starred, nested in other environments
        yield '\\begin{%s}body \\emph{text}\\end{%s}' % (name, name)
        yield ('\\begin{document}\n\\section{One}\n\\begin{%s}[h]{arg}\n'
               'some \\textbf{bold} text\n\\end{%s}\nafter\n\\end{document}\n'
               % (name, name))
        yield ('\\begin{center}\\begin{%s*}x\\begin{inner}y\\end{inner}'
               '\\end{%s*}\\end{center}' % (name, name))


def main():
    failures = []
    for doc in documents():
        try:
            strict = parse(doc, 0)
        except Exception:
            continue    # the clause only speaks about inputs strict accepts
        try:
            tolerant = parse(doc, 1)
        except Exception as e:
            failures.append((doc, 'tolerant parsing raised %r' % e))
            continue
        if tolerant != strict:
            failures.append((doc, 'strict   text %r\n    tolerant text %r\n'
                                  '    strict   tree %s\n    tolerant tree %s'
                             % (strict[0], tolerant[0],
                                strict[1], tolerant[1])))
    if failures:
        print('C07 violated: strict parsing succeeds but tolerant parsing '
              'gives something else for %d document(s)' % len(failures))
        for doc, what in failures[:3]:
            print('  input %r\n    %s' % (doc, what))
        return 1
    print('C07 holds on the documents tried')
    return 0


if __name__ == '__main__':
    sys.exit(main())
