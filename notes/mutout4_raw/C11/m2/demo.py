"""C11 demo 2: only the listed names (built-in ones and those passed via
skip_envs) are verbatim-like; under any other name - also a look-alike of a
listed one - the same body is parsed normally, and a listed user name is
opaque exactly like a built-in one.

Exit 0 if the property holds on the checkout given as argv[1], else 1.
"""
import sys

sys.path.insert(0, sys.argv[1])

from TexSoup import TexSoup  # noqa: E402
from TexSoup.data import TexNamedEnv  # noqa: E402

BODY = ' a \\textbf{x} $y$ {z} b '
HOSTILE = ' ${ \\textbf{x '
WRAPS = ['%s', 'pre \\begin{center}%s\\end{center} post']
CONTROL = 'ordinary'


def shape(name, body, wrap, skip):
    doc = wrap % ('\\begin{%s}%s\\end{%s}' % (name, body, name))
    try:
        soup = TexSoup(doc, skip_envs=skip)
    except Exception as e:
        return ('error', type(e).__name__)
    envs = [n for n in soup.find_all(name) if isinstance(n.expr, TexNamedEnv)]
    if not envs:
        return ('missing',)
    env = envs[0]
    return ('ok', [type(c).__name__ for c in env.expr._contents],
            [str(c) for c in env.expr._contents],
            len(soup.find_all('textbf')), str(soup) == doc)


failures = []
# (name used in the document, names passed via skip_envs)
UNLISTED = [
    ('verbatim*', ()), ('lstlisting*', ()), ('Verbatim*', ()),
    ('listing**', ()), ('verbatimx', ()), ('myverbatim', ()),
    ('code*', ('code',)), ('code', ('code*',)), ('codex', ('code',)),
]
for name, skip in UNLISTED:
    for wrap in WRAPS:
        got = shape(name, BODY, wrap, skip)
        want = shape(CONTROL, BODY, wrap, skip)
        if got != want:
            failures.append('%r is not listed (skip_envs=%r) but is not parsed '
                            'normally: %r, an ordinary name gives %r'
                            % (name, skip, got, want))

# listed names are opaque: one raw text, nothing searchable, no error
LISTED = [('verbatim', ()), ('lstlisting', ()), ('code', ('code',)),
          ('code*', ('code*',)), ('code*', ('code', 'code*'))]
for name, skip in LISTED:
    for body in (BODY, HOSTILE):
        for wrap in WRAPS:
            got = shape(name, body, wrap, skip)
            if got != ('ok', ['TexText'], [body], 0, True):
                failures.append('%r is listed (skip_envs=%r) but the body %r '
                                'is not opaque: %r' % (name, skip, body, got))

if failures:
    print('C11 violated (%d findings), e.g.:' % len(failures))
    for f in failures[:4]:
        print('  ' + f)
    sys.exit(1)
print('C11 holds: exactly the listed names are verbatim-like')
sys.exit(0)
