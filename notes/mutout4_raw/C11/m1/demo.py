"""C11 demo 1: a user-supplied verbatim-like name must behave exactly like a
built-in one, also when the document writes `\\begin {name}` (white space
between \\begin and the name group, which LaTeX and TexSoup both accept).

Exit 0 if the property holds on the checkout given as argv[1], else 1.
"""
import sys

sys.path.insert(0, sys.argv[1])

from TexSoup import TexSoup  # noqa: E402
from TexSoup.data import TexNamedEnv  # noqa: E402

BODIES = [
    '${ \\textbf{x ',
    ' } ] $$ \\begin{itemize} \\item \\end{other} \\[ ',
    'plain \\textit{words} here',
]
OPENERS = ['\\begin{%s}', '\\begin {%s}', '\\begin\n{%s}', '\\begin\t {%s}']
WRAPS = ['%s', 'pre \\begin{center}%s\\end{center} post',
         '\\begin{itemize}\\item a %s\\end{itemize}']


def env_of(soup, name):
    found = [n for n in soup.find_all(name) if isinstance(n.expr, TexNamedEnv)]
    return found[0].expr if found else None


def observe(name, opener, body, wrap, skip):
    """Parse and describe the environment `name`: ('ok', body pieces) or
    ('error', type)."""
    doc = wrap % ((opener % name) + body + '\\end{%s}' % name)
    try:
        soup = TexSoup(doc, skip_envs=skip)
    except Exception as e:  # a hostile body must never be a parse error
        return ('error', type(e).__name__), doc
    env = env_of(soup, name)
    if env is None:
        return ('missing',), doc
    return ('ok', [str(c) for c in env._contents],
            [type(c).__name__ for c in env._contents]), doc


failures = []
for opener in OPENERS:
    for body in BODIES:
        for wrap in WRAPS:
            builtin, _ = observe('verbatim', opener, body, wrap, ())
            user, doc = observe('foobar', opener, body, wrap, ('foobar',))
            # the body is one uninterpreted text, exactly as written
            if user[:2] != ('ok', [body]):
                failures.append('user name not opaque: %r -> %r' % (doc, user))
            # and the user-supplied name behaves exactly like a built-in one
            if user != builtin:
                failures.append('user %r differs from built-in %r for %r'
                                % (user, builtin, doc))

if failures:
    print('C11 violated (%d findings), e.g.:' % len(failures))
    for f in failures[:4]:
        print('  ' + f)
    sys.exit(1)
print('C11 holds: user-supplied names are as opaque as built-in ones')
sys.exit(0)
