"""C04 demo 2: at every node of a parsed document the navigation views must
agree with the complete content list `expr.all`:

  contents  == expr.all without whitespace-only text
  children  == contents without text
  iteration and indexing follow contents
  text      == the non-blank text leaves below the node, in document order

usage: demo.py /path/to/TexSoup/checkout
exit 0: property holds, exit 1: property violated
"""
import sys

sys.path.insert(0, sys.argv[1])

from TexSoup import TexSoup                    # noqa: E402
from TexSoup.data import TexNode, TexText      # noqa: E402


def key(item):
    """Identity of a view entry: the expression behind a node, or the leaf."""
    return id(item.expr) if isinstance(item, TexNode) else id(item)


def expected_contents(expr):
    """`expr.all` minus whitespace-only text (leaves unwrapped to strings)."""
    kept = []
    for item in expr.all:
        leaf = item._text if isinstance(item, TexText) else item
        if isinstance(leaf, str):
            if leaf.isspace():
                continue
            kept.append(leaf)
        else:
            kept.append(item)
    return kept


def expected_text(expr):
    """Non-blank text leaves below `expr` in document order (iterative)."""
    leaves, todo = [], [iter(expected_contents(expr))]
    while todo:
        for item in todo[-1]:
            if isinstance(item, str):
                leaves.append(item)
            else:
                todo.append(iter(expected_contents(item)))
                break
        else:
            todo.pop()
    return leaves


def show(item):
    return repr(str(item))[:40]


def check_node(label, node, problems):
    want = expected_contents(node.expr)
    want_keys = [id(x) for x in want]
    contents = node.contents
    where = '%s, node %s' % (label, show(node))
    if [key(x) for x in contents] != want_keys:
        problems.append('%s: contents is %s but expr.all without '
                        'whitespace-only text is %s' % (
                            where, [show(x) for x in contents],
                            [show(x) for x in want]))
    want_children = [id(x) for x in want if not isinstance(x, str)]
    if [key(x) for x in node.children] != want_children:
        problems.append('%s: children is not contents without text' % where)
    if [key(x) for x in node] != [key(x) for x in contents]:
        problems.append('%s: iteration does not follow contents' % where)
    if [key(node[i]) for i in range(len(contents))] != \
            [key(x) for x in contents]:
        problems.append('%s: indexing does not follow contents' % where)
    text = node.text
    want_text = expected_text(node.expr)
    if [id(x) for x in text] != [id(x) for x in want_text]:
        problems.append('%s: text is %r but the non-blank leaves are %r' % (
            where, list(map(str, text)), list(map(str, want_text))))
    for child in contents:
        if isinstance(child, TexNode):
            if child.parent is not node:
                problems.append('%s: child %s has the wrong parent' % (
                    where, show(child)))
            check_node(label, child, problems)


DOCS = [
    ('article',
     '\\section{Intro} Some $a+b$ text.\n'
     '\\begin{itemize}\n  \\item one \\textbf{bold {\\em deep}}\n'
     '  \\item[two] $$x^2$$ % note\n\\end{itemize}\n'
     '\\begin{center}\n\\textit{x}\n\n\\[ y \\]\n\\end{center}\n'),
    ('quote with blank-separated commands',
     '\\begin{quote}\n  \\textbf{if} $x$ \\textbf{then}\n  {\\em y}\n'
     '\\end{quote}\n'),
    ('alltt with blank-separated commands',
     '\\begin{alltt}\n  \\textbf{if} $x$ \\textbf{then}\n  {\\em y}\n'
     '\\end{alltt}\n'),
    ('tabbing inside a list',
     '\\begin{itemize}\n\\item code:\n\\begin{tabbing}\n'
     '\\textbf{for} \\= $i$ \\\\\n\\> \\emph{body}\n\\end{tabbing}\n'
     '\\end{itemize}\n'),
]

if __name__ == '__main__':
    problems = []
    for label, source in DOCS:
        soup = TexSoup(source)
        if ''.join(str(x) for x in soup.expr.all) != source:
            problems.append('%s: the root content list does not concatenate '
                            'to the document' % label)
        check_node(label, soup, problems)
    for line in problems[:12]:
        print('VIOLATION', line)
    if len(problems) > 12:
        print('... and %d more' % (len(problems) - 12))
    if not problems:
        print('ok: all views agree with expr.all at every node')
    sys.exit(1 if problems else 0)
