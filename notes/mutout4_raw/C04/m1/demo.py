"""C04 demo 1: `descendants` must be exactly the transitive closure of
`contents` (every node once) and every node reached must chain up to the root
through `parent` -- at any nesting depth.

usage: demo.py /path/to/TexSoup/checkout
exit 0: property holds, exit 1: property violated
"""
import sys

sys.path.insert(0, sys.argv[1])
sys.setrecursionlimit(max(sys.getrecursionlimit(), 4000))

from TexSoup import TexSoup          # noqa: E402
from TexSoup.data import TexNode     # noqa: E402


def key(item):
    """Identity of what a view entry stands for: the expression behind a node,
    or the text leaf itself."""
    return id(item.expr) if isinstance(item, TexNode) else id(item)


def closure(node):
    """Transitive closure of `contents`, computed without recursion."""
    found, todo = [], [node]
    while todo:
        current = todo.pop()
        for item in current.contents:
            found.append(item)
            if isinstance(item, TexNode):
                if item.parent is not current:
                    return None, 'contents entry %r has parent %r' % (
                        str(item)[:30], item.parent)
                todo.append(item)
    return found, None


def check(label, source):
    soup = TexSoup(source)
    problems = []
    expected, err = closure(soup)
    if err:
        return ['%s: %s' % (label, err)]
    got = list(soup.descendants)
    if sorted(map(key, got)) != sorted(map(key, expected)):
        missing = set(map(key, expected)) - set(map(key, got))
        extra = set(map(key, got)) - set(map(key, expected))
        problems.append(
            '%s: descendants is not the transitive closure of contents: '
            '%d entries instead of %d (%d missing, %d unexpected)' % (
                label, len(got), len(expected), len(missing), len(extra)))
    for item in got:
        if not isinstance(item, TexNode):
            continue
        hops, node = 0, item
        while node.parent is not None and hops <= len(expected) + 1:
            node, hops = node.parent, hops + 1
        if node is not soup:
            problems.append('%s: parents of descendant %r do not end at the '
                            'root' % (label, str(item)[:30]))
            break
    return problems


def nested(depth, core='x'):
    return '{' * depth + core + '}' * depth


DOCS = [
    ('ordinary document',
     '\\section{Intro} Some $a+b$ text.\n'
     '\\begin{itemize}\n  \\item one \\textbf{bold {\\em deep}}\n'
     '  \\item[two] $$x^2$$ % note\n\\end{itemize}\n'),
    ('groups nested 40 deep', 'a ' + nested(40) + ' b'),
    ('groups nested 200 deep', 'a ' + nested(200) + ' b'),
    ('groups nested 270 deep', 'a ' + nested(270, r'\textbf{x} y') + ' b'),
]

if __name__ == '__main__':
    failures = []
    for label, source in DOCS:
        failures.extend(check(label, source))
    for line in failures:
        print('VIOLATION', line)
    if not failures:
        print('ok: descendants == closure of contents on all documents')
    sys.exit(1 if failures else 0)
