"""C16: serialised output is a fixed point of the parser.

usage: demo.py <path-to-TexSoup-checkout>
exit 0 = property holds for the inputs below, exit 1 = violated.
"""
import sys

sys.path.insert(0, sys.argv[1])
from TexSoup import TexSoup            # noqa: E402
from TexSoup.data import TexText, TexExpr  # noqa: E402


def shape(e):
    """names, arguments, contents - nothing else"""
    if isinstance(e, TexText) or not isinstance(e, TexExpr):
        return ('text', str(e))
    return (type(e).__name__, str(e.name),
            [shape(a) for a in e.args],
            [shape(c) for c in e._contents])


def check(src):
    try:
        first = TexSoup(src)           # must parse in strict mode (domain)
    except Exception:
        return None                    # outside the domain of C16: no claim
    out1 = str(first)
    try:
        second = TexSoup(out1)
    except Exception as exc:           # re-parsing must succeed
        return 're-parse of %r failed: %s' % (out1, type(exc).__name__)
    out2 = str(second)
    if out2 != out1:
        return 'text drifts: %r -> %r' % (out1, out2)
    if shape(first.expr) != shape(second.expr):
        return ('same text %r, different tree:\n  1st: %r\n  2nd: %r'
                % (out1, shape(first.expr), shape(second.expr)))
    return None


# none of these uses \def, \textbf, \section, \label or a sizing prefix, and
# there is no NUL/DEL: all side conditions of C16 are met
DOCS = [
    # a comment between the control word and its (braced) file argument
    '\\begin{figure}\n\\includegraphics% scaled below\n'
    '[width=2cm]{fig}\n\\end{figure}\n',
    # the control word is the last thing inside a group
    'a {\\centering\\includegraphics}} b',
]

bad = 0
for doc in DOCS:
    problem = check(doc)
    if problem:
        bad += 1
        print('C16 violated for input %r:\n%s' % (doc, problem))
if bad:
    sys.exit(1)
print('C16 holds on the demo inputs')
sys.exit(0)
