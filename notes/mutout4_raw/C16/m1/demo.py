"""C16: serialised output is a fixed point of the parser.

usage: demo.py <path-to-TexSoup-checkout>
exit 0 = property holds for the inputs below, exit 1 = violated.
"""
import sys

sys.path.insert(0, sys.argv[1])
from TexSoup import TexSoup            # noqa: E402
from TexSoup.data import TexText, TexExpr  # noqa: E402


def shape(e):
    """names, arguments, contents - nothing else"""
    if isinstance(e, TexText) or not isinstance(e, TexExpr):
        return ('text', str(e))
    return (type(e).__name__, str(e.name),
            [shape(a) for a in e.args],
            [shape(c) for c in e._contents])


def check(src):
    try:
        first = TexSoup(src)           # must parse in strict mode (domain)
    except Exception:
        return None                    # outside the domain of C16: no claim
    out1 = str(first)
    try:
        second = TexSoup(out1)
    except Exception as exc:           # re-parsing must succeed
        return 're-parse of %r failed: %s: %s' % (out1, type(exc).__name__, exc)
    out2 = str(second)
    if out2 != out1:
        return 'text drifts: %r -> %r' % (out1, out2)
    if shape(first.expr) != shape(second.expr):
        return ('same text %r, different tree:\n  1st: %r\n  2nd: %r'
                % (out1, shape(first.expr), shape(second.expr)))
    return None


DOCS = [
    # an operator used (with blanks before its brace group) earlier in the
    # document than the line that declares it
    '$\\argmax {x} f(x)$\n\\DeclareMathOperator{\\argmax}{arg\\,max}\n',
    '\\begin{equation}\\sgn\n{a} = 1\\end{equation}\n'
    '\\DeclareMathOperator*{\\sgn}{sgn}',
]

bad = 0
for doc in DOCS:
    problem = check(doc)
    if problem:
        bad += 1
        print('C16 violated for input %r:\n%s' % (doc, problem))
if bad:
    sys.exit(1)
print('C16 holds on the demo inputs')
sys.exit(0)
