"""C01 demo 2: parse -> serialise round trip on \\newcommand-style definitions
whose body opens (or closes) an environment from inside the argument of
another command, e.g. a hook such as \\AtBeginDocument{\\begin{landscape}}.

usage: demo.py <path-to-TexSoup-checkout>
exit 0: property holds; exit 1: property violated (details printed).
"""
import sys

sys.path.insert(0, sys.argv[1])

from TexSoup import TexSoup  # noqa: E402
from TexSoup.data import TexExpr, TexText  # noqa: E402

DOCS = [
    # the plain shape: the unmatched \begin sits directly in the body
    '\\newcommand{\\beq}{\\begin{equation}}\n'
    '\\newcommand{\\eeq}{\\end{equation}}\n',
    # the unmatched \begin sits in the argument of a command in the body
    '\\newcommand{\\landscapeon}{\\AtBeginDocument{\\begin{landscape}}}\n'
    '\\newcommand{\\landscapeoff}{\\AtEndDocument{\\end{landscape}}}\n',
    '\\renewcommand{\\quotehook}[1]{\\AtBeginEnvironment{#1}{\\begin{quote}}}',
    '\\documentclass{article}\n'
    '\\providecommand{\\startsmall}[1][t]{\\preto{\\body}{\\begin{minipage}[#1]{3cm}}}\n'
    '\\begin{document}\n'
    '\\begin{itemize}\n'
    '\\item one $x$\n'
    '\\end{itemize}\n'
    '\\end{document}\n',
]


def walk(expr):
    yield expr
    if isinstance(expr, TexText):
        return
    for child in expr.all:
        if isinstance(child, TexExpr):
            yield from walk(child)


def short(s, n=90):
    s = repr(s)
    return s if len(s) <= n else s[:n] + '...'


def check(src):
    problems = []
    try:
        soup = TexSoup(src)
    except Exception as exc:  # parsing must succeed on a well-formed document
        return ['parse failed: %s: %s' % (type(exc).__name__, exc)]
    out = str(soup)
    if out != src:
        problems.append('round trip differs:\n   source: %r\n   output: %r'
                        % (src, out))
    for expr in walk(soup.expr):
        if isinstance(expr, TexText):
            position = getattr(expr._text, 'position', None)
        else:
            position = expr.position
        if position is None or position < 0 or expr is soup.expr:
            continue
        text = str(expr)
        if src[position:position + len(text)] != text:
            problems.append('node text %s is not the source slice at %d (%s)'
                            % (short(text), position,
                               short(src[position:position + len(text)])))
    return problems


def main():
    bad = 0
    for src in DOCS:
        for problem in check(src):
            bad += 1
            print('VIOLATION in %s:\n  %s' % (short(src), problem))
    if bad:
        print('%d violation(s) of C01' % bad)
        return 1
    print('C01 holds on %d documents' % len(DOCS))
    return 0


if __name__ == '__main__':
    sys.exit(main())
