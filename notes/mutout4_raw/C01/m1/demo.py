"""C01 demo 1: parse -> serialise round trip on figures that use the
bounding-box form of \\includegraphics (two bracket groups, then the file name).

usage: demo.py <path-to-TexSoup-checkout>
exit 0: property holds; exit 1: property violated (details printed).
"""
import sys

sys.path.insert(0, sys.argv[1])

from TexSoup import TexSoup  # noqa: E402
from TexSoup.data import TexExpr, TexText  # noqa: E402

DOCS = [
    # graphics.sty syntax: \includegraphics[llx,lly][urx,ury]{file}
    r'\includegraphics[0,0][100,50]{fig.eps}',
    '\\begin{figure}[htb]\n'
    '\\centering\n'
    '\\includegraphics*[10,20][210,140]{plots/curve.eps}\n'
    '\\includegraphics[10,20][210,140]{plots/curve.eps}\n'
    '\\caption{A curve, clipped to its bounding box.}\n'
    '\\label{fig:curve}\n'
    '\\end{figure}\n',
    # the ordinary forms, for completeness
    r'\includegraphics[width=.5\textwidth]{a.png} and \includegraphics{b.png}',
    '\\begin{itemize}\n\\item \\includegraphics[0,0][20,20]{dot.eps} a dot\n'
    '\\item $x$ \\includegraphics[1,1][2,2]{d}\n\\end{itemize}',
]


def walk(expr):
    yield expr
    if isinstance(expr, TexText):
        return
    for child in expr.all:
        if isinstance(child, TexExpr):
            yield from walk(child)


def short(s, n=90):
    s = repr(s)
    return s if len(s) <= n else s[:n] + '...'


def check(src):
    problems = []
    try:
        soup = TexSoup(src)
    except Exception as exc:  # parsing must succeed on a well-formed document
        return ['parse failed: %s: %s' % (type(exc).__name__, exc)]
    out = str(soup)
    if out != src:
        problems.append('round trip differs:\n   source: %r\n   output: %r'
                        % (src, out))
    for expr in walk(soup.expr):
        if isinstance(expr, TexText):
            position = getattr(expr._text, 'position', None)
        else:
            position = expr.position
        if position is None or position < 0 or expr is soup.expr:
            continue
        text = str(expr)
        if src[position:position + len(text)] != text:
            problems.append('node text %s is not the source slice at %d (%s)'
                            % (short(text), position,
                               short(src[position:position + len(text)])))
    return problems


def main():
    bad = 0
    for src in DOCS:
        for problem in check(src):
            bad += 1
            print('VIOLATION in %s:\n  %s' % (short(src), problem))
    if bad:
        print('%d violation(s) of C01' % bad)
        return 1
    print('C01 holds on %d documents' % len(DOCS))
    return 0


if __name__ == '__main__':
    sys.exit(main())
