"""C13 demo 2: every match reported by search_regex must carry the source
offset at which the reported text actually occurs.

usage: demo.py <path-to-TexSoup-checkout>
exit 0 = property holds, exit 1 = violated
"""
import re
import sys

sys.path.insert(0, sys.argv[1])

from TexSoup import TexSoup  # noqa: E402

SRC = (
    "\\section{Results}\n"
    "We refer to Fig. 12 and Tab. 3, see page 47 for details.\n"
    "\\begin{itemize}\n"
    "  \\item key=alpha, other=beta % key=gamma\n"
    "  \\item[opt] see appendix 9\n"
    "\\end{itemize}\n"
    "$x = 10$ and \\textbf{see chapter 5}.\n"
)

PATTERNS = [
    r'[a-z]+',                 # no group
    r'\d+',                    # no group
    r'(\w+)',                  # the group is the whole match
    r'(see) \w+',              # group at the start of the match
    r'(?:Fig|Tab)\. \d+',      # non-capturing group only
    r'(Fig|Tab)\. (\d+)',      # two groups
    r'see (\w+)',              # one group after some context
    r'key=(\w+)',              # one group after some context
    re.compile(r'(?:Fig|Tab)\. (\d+)'),   # precompiled, one group
    r'= (\d+)',                # inside maths
]


def main():
    soup = TexSoup(SRC)
    failures = []
    reported = 0
    for pattern in PATTERNS:
        shown = getattr(pattern, 'pattern', pattern)
        for token in soup.search_regex(pattern):
            reported += 1
            text, pos = str(token), token.position
            if SRC[pos:pos + len(text)] != text:
                failures.append(
                    'pattern %r: reported %r at offset %r, but the source has '
                    '%r there' % (shown, text, pos, SRC[pos:pos + len(text)]))
    if not reported:
        print('C13 VIOLATED: search_regex reported nothing at all')
        return 1
    if failures:
        print('C13 VIOLATED: search_regex reports offsets where the matched '
              'text does not occur')
        for line in failures[:10]:
            print('  ' + line)
        print('  (%d of %d reported matches are misplaced)'
              % (len(failures), reported))
        return 1
    print('C13 holds: all %d reported matches occur at their reported offsets'
          % reported)
    return 0


if __name__ == '__main__':
    sys.exit(main())
