"""C13 demo 1: char_pos_to_line must give the true (line, column) of every
offset, whatever the order in which the offsets are asked for.

usage: demo.py <path-to-TexSoup-checkout>
exit 0 = property holds, exit 1 = violated
"""
import random
import sys

sys.path.insert(0, sys.argv[1])

from TexSoup import TexSoup  # noqa: E402

SRC = (
    "\\section{Intro}\n"
    "Some text with $a+b$ maths.\n"
    "\n"
    "\\begin{itemize}\n"
    "  \\item first % note\n"
    "  \\item[x] second\n"
    "\\end{itemize}\n"
    "{group} \\[ x^2 \\]\n"
    "tail"
)


def reference(src, pos):
    """Line and column at which the character src[pos] stands (LF lines)."""
    line = src.count('\n', 0, pos)
    col = pos - (src.rfind('\n', 0, pos) + 1)
    return line, col


def sweep(soup, src, order, label, failures):
    for pos in order:
        got = tuple(soup.char_pos_to_line(pos))
        want = reference(src, pos)
        if got != want:
            failures.append('%s: offset %d (%r): got %r, expected %r'
                            % (label, pos, src[pos], got, want))


def main():
    failures = []
    offsets = list(range(len(SRC)))

    # one converter per order, on a freshly parsed document each time
    sweep(TexSoup(SRC), SRC, offsets, 'ascending', failures)
    sweep(TexSoup(SRC), SRC, offsets[::-1], 'descending', failures)
    rng = random.Random(13)
    for k in range(5):
        order = offsets[:]
        rng.shuffle(order)
        sweep(TexSoup(SRC), SRC, order, 'shuffled#%d' % k, failures)

    # the positions recorded for nodes, converted in document order after an
    # unrelated look-up near the end of the source
    soup = TexSoup(SRC)
    soup.char_pos_to_line(len(SRC) - 1)
    for node in soup.find_all('item'):
        pos = node.position
        for p in (pos, pos - 1):   # the \item and the line feed/blank before it
            got = tuple(soup.char_pos_to_line(p))
            if got != reference(SRC, p):
                failures.append('after item look-up: offset %d: got %r, '
                                'expected %r' % (p, got, reference(SRC, p)))

    if failures:
        print('C13 VIOLATED: char_pos_to_line gives a wrong line/column')
        for line in failures[:10]:
            print('  ' + line)
        print('  (%d wrong answers in total)' % len(failures))
        return 1
    print('C13 holds: every offset maps to its true line/column in every order')
    return 0


if __name__ == '__main__':
    sys.exit(main())
