"""C19 demo: tokens must partition the input (long plain-text runs)."""
import sys
sys.path.insert(0, sys.argv[1])
from TexSoup.category import categorize
from TexSoup.tokens import tokenize


def check(s):
    toks = list(tokenize(categorize(s)))
    problems = []
    if any(len(t.text) == 0 for t in toks):
        problems.append('empty token')
    joined = ''.join(t.text for t in toks)
    expect = s.replace('\x00', '').replace('\x7f', '')
    if joined.replace('\x00', '').replace('\x7f', '') != expect:
        problems.append('concatenation differs: %d chars in, %d chars out'
                        % (len(s), len(joined)))
    for t in toks:
        if s[t.position:t.position + len(t.text)] != t.text:
            problems.append('token %r does not start at its recorded offset %r'
                            % (t.text[:20], t.position))
            break
    return problems


word = 'lorem ipsum dolor sit amet, '
cases = []
for n in (10, 300, 511, 512, 513, 514, 700, 1100, 1600):
    body = (word * (n // len(word) + 1))[:n]
    cases.append(body)
    cases.append(r'\section{Intro}' + body + r'\textbf{x} tail $a+b$ % c')
    cases.append('{' + body + '}' + '\n\n' + body)

bad = 0
for s in cases:
    p = check(s)
    if p:
        bad += 1
        print('VIOLATION for input of length %d: %s' % (len(s), '; '.join(p)))
sys.exit(1 if bad else 0)
