"""C19 demo: every character gets its own index; tokens record their start
offset (inputs longer than a few thousand characters)."""
import sys
sys.path.insert(0, sys.argv[1])
from TexSoup.category import categorize
from TexSoup.tokens import tokenize

para = (r'\section{Title} Some \emph{text} with $x^2$ and [opt] % note' '\n'
        r'\begin{itemize}\item one \item two\end{itemize}' '\n\n')
bad = []
for size in (100, 5000, 8192, 8193, 9000, 20000):
    s = (para * (size // len(para) + 1))[:size]
    items = list(categorize(s))
    if len(items) != len(s):
        bad.append('len %d: %d characters categorised' % (size, len(items)))
    wrong = [(i, it.position) for i, it in enumerate(items)
             if it.position != i or it.text != s[i]]
    if wrong:
        bad.append('len %d: character at index %d is given index %d '
                   '(%d characters affected)'
                   % (size, wrong[0][0], wrong[0][1], len(wrong)))
    if len(set(it.position for it in items)) != len(items):
        bad.append('len %d: two characters share an index' % size)
    toks = list(tokenize(categorize(s)))
    if ''.join(t.text for t in toks) != s:
        bad.append('len %d: token texts do not reproduce the input' % size)
    off = [t for t in toks if s[t.position:t.position + len(t.text)] != t.text]
    if off:
        bad.append('len %d: token %r records offset %d but does not start '
                   'there (%d such tokens)'
                   % (size, off[0].text, off[0].position, len(off)))
for b in bad:
    print('VIOLATION', b)
sys.exit(1 if bad else 0)
