import sys
sys.path.insert(0, sys.argv[1])
from TexSoup.category import categorize
from TexSoup.tokens import tokenize

def check(s):
    cats = list(categorize(s))
    if len(cats) != len(s): return 'cat count'
    for i, c in enumerate(cats):
        if str(c) != s[i] or c.position != i or c.category is None:
            return 'cat %d' % i
    toks = list(tokenize(categorize(s)))
    pos = 0
    for t in toks:
        txt = str(t)
        if not txt: return 'empty token'
        # skip dropped NUL/DEL
        while pos < len(s) and not s.startswith(txt, pos) and s[pos] in '\x00\x7f':
            pos += 1
        if not s.startswith(txt, pos): return 'mismatch at %d: %r' % (pos, txt)
        if t.position != pos: return 'position %r != %d for %r' % (t.position, pos, txt[:20])
        pos += len(txt)
    if s[pos:].strip('\x00\x7f'): return 'tail lost %r' % s[pos:]
    return None

if __name__ == '__main__':
    import random
    rnd = random.Random(1)
    alphabet = ['\\', '{', '}', '$', '&', '\n', '\r', '#', '^', '_', '\x00', ' ', '\t', 'a', 'b', '1', '~', '%', '\x7f', '[', ']', '(', ')', '*', 'left', 'big', '|', '.', 'é']
    bad = 0
    for n in range(20000):
        s = ''.join(rnd.choice(alphabet) for _ in range(rnd.randint(0, 12)))
        r = check(s)
        if r:
            bad += 1
            if bad < 10: print(repr(s), r)
    print('bad', bad)
