"""C10 (comments are inert): everything from an unescaped % to the end of its
line is exactly one text leaf, and the tree around a comment does not depend
on the comment's payload - here: for payloads of many different lengths.

Usage: demo.py <path of a TexSoup checkout>
Exit 0 if the property holds for the inputs below, 1 (with a report) if not.
"""
import itertools
import sys

sys.path.insert(0, sys.argv[1])

from TexSoup import TexSoup            # noqa: E402
from TexSoup.data import TexExpr, TexText  # noqa: E402

MARK = '<COMMENT>'


def dump(expr, comment):
    """Structure of the tree below expr; the leaf equal to the comment is
    replaced by MARK so that trees for different payloads can be compared."""
    if isinstance(expr, TexText) or isinstance(expr, str):
        text = str(expr)
        return MARK if text == comment else ('text', text)
    assert isinstance(expr, TexExpr), type(expr)
    return (type(expr).__name__, str(expr.name),
            [dump(a, comment) for a in expr.args],
            [dump(c, comment) for c in expr._contents])


def count_marks(d):
    if d == MARK:
        return 1
    if isinstance(d, tuple) and d and d[0] == 'text':
        return 0
    if isinstance(d, (tuple, list)):
        return sum(count_marks(x) for x in d)
    return 0


def short(s, n=60):
    s = repr(s)
    return s if len(s) <= n else s[:n // 2] + '...' + s[-n // 2:]


def payload(length, alphabet):
    return ''.join(itertools.islice(itertools.cycle(alphabet), length))


# (label, text before the comment, text after the line end)
CONTEXTS = [
    ('top level',   '',                '\\foo{x} z'),
    ('brace group', '{a ',             '\\foo{x}} z'),
    ('environment', '\\begin{center}', '\\foo{x}\\end{center} z'),
    ('argument',    '\\emph{a ',       'b} \\foo{x}'),
    ('bracket arg', '\\foo[a ',        'b]{x} z'),
    ('item',        '\\begin{itemize}\\item a ', 'b\\item c\\end{itemize}'),
    ('inline math', '$a ',             'b$ \\foo{x}'),
    ('display math', '\\[a ',          'b\\] \\foo{x}'),
]
LINE_ENDS = ['\n', '\r\n']
ALPHABETS = ['x', 'word } \\end{center} $ ] \\item { \\[ % ']
LENGTHS = [0, 1, 7, 40, 63, 64, 79, 80, 127, 128, 200, 254, 255, 256, 257,
           300, 510, 511, 512, 767, 1000, 1023, 1024]

failures = []
for (label, before, after), eol in itertools.product(CONTEXTS, LINE_ENDS):
    reference = None
    for length, alphabet in itertools.product(LENGTHS, ALPHABETS):
        comment = '%' + payload(length, alphabet)
        source = before + comment + eol + after
        where = '%s, line ended by %r, payload of %d characters %s' % (
            label, eol, length, short(comment[1:], 30))
        try:
            soup = TexSoup(source)
            tree = dump(soup.expr, comment)
            found = len(soup.find_all('foo'))  # nothing in the payload is found
        except Exception as exc:  # the surroundings are well formed
            failures.append('%s: %s: %s' % (
                where, type(exc).__name__, short(str(exc), 200)))
            continue
        if count_marks(tree) != 1:
            leaves = [t for t in soup.text if t.startswith('%')]
            failures.append('%s: the comment is not exactly one text leaf; '
                            'leaves starting with %%: %s' % (
                                where, [short(t) for t in leaves]))
            continue
        if reference is None:
            reference = (tree, found)
        elif (tree, found) != reference:
            failures.append('%s: the tree around the comment differs from '
                            'the one for an empty payload: %r vs %r' % (
                                where, tree, reference[0]))

if failures:
    print('C10 VIOLATED (%d cases)' % len(failures))
    for f in failures[:12]:
        print(' -', f)
    if len(failures) > 12:
        print(' - ... and %d more' % (len(failures) - 12))
    sys.exit(1)
print('C10 holds on all inputs tried')
sys.exit(0)
