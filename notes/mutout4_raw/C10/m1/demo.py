"""C10 (comments are inert): the tree around a comment must not depend on the
comment's payload, and the comment must be exactly one text leaf.

Usage: demo.py <path of a TexSoup checkout>
Exit 0 if the property holds for the inputs below, 1 (with a report) if not.
"""
import sys

sys.path.insert(0, sys.argv[1])

from TexSoup import TexSoup            # noqa: E402
from TexSoup.data import TexExpr, TexText, TexCmd, TexEnv  # noqa: E402

MARK = '<COMMENT>'


def dump(expr, comment):
    """Structure of the tree below expr; the leaf equal to the comment is
    replaced by MARK so that trees for different payloads can be compared."""
    if isinstance(expr, TexText) or isinstance(expr, str):
        text = str(expr)
        return MARK if text == comment else ('text', text)
    assert isinstance(expr, TexExpr), type(expr)
    return (type(expr).__name__, str(expr.name),
            [dump(a, comment) for a in expr.args],
            [dump(c, comment) for c in expr._contents])


def count_marks(d):
    if d == MARK:
        return 1
    if isinstance(d, tuple) and d and d[0] == 'text':
        return 0
    if isinstance(d, (tuple, list)):
        return sum(count_marks(x) for x in d)
    return 0


# the same surroundings, only the payload of the comment differs
CONTEXTS = [
    ('top level',   '',                 '\n\\foo@bar{x} \\@other{y} z'),
    ('brace group', '{a ',              '\n\\foo@bar{x}} \\@other{y}'),
    ('environment', '\\begin{center}',  '\n\\foo@bar{x}\\end{center} \\p@{y}'),
    ('argument',    '\\emph{a ',        '\n b} \\foo@bar{x}'),
    ('inline math', '$a ',              '\n b$ \\foo@bar{x}'),
]
BENIGN = ' just some words '
PAYLOADS = [
    '',
    ' \\usepackage{foo}',
    '\\makeatletter',
    ' \\makeatletter',
    '\\makeatletter % not needed any more',
    '} \\end{center} $ \\makeatletter \\item {',
]

failures = []
for label, before, after in CONTEXTS:
    reference = None
    for payload in [BENIGN] + PAYLOADS:
        comment = '%' + payload
        source = before + comment + after
        try:
            soup = TexSoup(source)
            tree = dump(soup.expr, comment)
            found = [str(n) for n in soup.find_all('foo@bar')]
        except Exception as exc:  # the surroundings are well formed
            failures.append('%s: payload %r: %s: %s' % (
                label, payload, type(exc).__name__, exc))
            continue
        if count_marks(tree) != 1:
            failures.append('%s: payload %r: the comment is not exactly one '
                            'text leaf: %r' % (label, payload, tree))
            continue
        if reference is None:
            reference = (tree, found)
        elif (tree, found) != reference:
            if any(f.startswith(label + ': the tree') for f in failures):
                failures.append('%s: ... and likewise for payload %r' % (
                    label, payload))
                continue
            failures.append(
                '%s: the tree around the comment depends on its payload\n'
                '    payload %r gives %r (find_all("foo@bar") -> %r)\n'
                '    payload %r gives %r (find_all("foo@bar") -> %r)' % (
                    label, BENIGN, reference[0], reference[1],
                    payload, tree, found))

if failures:
    print('C10 VIOLATED (%d cases)' % len(failures))
    for f in failures:
        print(' -', f)
    sys.exit(1)
print('C10 holds on all inputs tried')
sys.exit(0)
