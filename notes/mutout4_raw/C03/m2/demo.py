"""C03 demo 2: searching by name returns exactly the commands of that name that
occur in the document - whatever the name of the command standing in front of
them is.

usage: demo.py <path-of-TexSoup-checkout>
exit 0: property holds, exit 1: violated.
"""
import re
import sys

sys.path.insert(0, sys.argv[1])

from TexSoup import TexSoup  # noqa: E402

# Small well-formed documents built only from documented constructs: math
# regions, named (math) environments, lists, brace groups, and commands with
# zero or more {..} / [..] arguments.  None of them contains comments or
# verbatim material, so every backslash-name in the source is a command of the
# tree and can be counted independently with a regular expression.
DOCS = [
    r'$\frac\alpha\beta$',
    r'\[ x = \frac\partial{\partial t} u \]',
    r'\begin{equation}\sqrt\pi + \sqrt[3]{\pi}\end{equation}',
    r'\begin{itemize}\item \(\frac\hbar{2}\) \item see {\sqrt\varepsilon}\end{itemize}',
    r'\begin{align}a &= \frac{\gamma}{\delta} \\ b &= \sqrt{\gamma}\end{align}',
    # the same shapes with other command names in front
    r'$\dfrac\alpha\beta$',
    r'\[ x = \over\partial{\partial t} u \]',
    r'\begin{equation}\root\pi + \root[3]{\pi}\end{equation}',
    r'\begin{itemize}\item \(\fraction\hbar{2}\) \item see {\sqrtsign\varepsilon}\end{itemize}',
    r'\textit{\emph\alpha} \mbox\beta \hat\gamma',
]


def names_in(doc):
    return re.findall(r'\\([A-Za-z]+\*?)', doc)


failures = []
for doc in DOCS:
    try:
        soup = TexSoup(doc)
    except Exception as e:  # the document is well formed
        failures.append('%r: cannot be parsed: %r' % (doc, e))
        continue
    occurring = names_in(doc)
    queries = sorted(set(occurring) - {'begin', 'end'}) + ['absentname']
    for name in queries:
        expected = occurring.count(name)
        found = soup.find_all(name)
        if any(node.name != name for node in found):
            failures.append('%r: find_all(%r) returned a node of another name'
                            % (doc, name))
        if len(found) != expected:
            failures.append(
                '%r: \\%s occurs %d time(s) but find_all(%r) returned %d'
                % (doc, name, expected, name, len(found)))
        if soup.count(name) != len(found):
            failures.append('%r: count(%r) != len(find_all)' % (doc, name))
        first = soup.find(name)
        if (first is None) != (not found) or \
                (found and first.expr is not found[0].expr):
            failures.append('%r: find(%r) is not the first of find_all'
                            % (doc, name))
        attr = getattr(soup, name)
        if (attr is None) != (first is None) or \
                (attr is not None and attr.expr is not first.expr):
            failures.append('%r: attribute access .%s differs from find'
                            % (doc, name))
    # a list of names matches the union
    union = soup.find_all(queries)
    total = sum(occurring.count(n) for n in queries)
    if len(union) != total:
        failures.append('%r: list query returned %d nodes, expected %d'
                        % (doc, len(union), total))

if failures:
    print('PROPERTY C03 VIOLATED')
    for f in failures:
        print(' -', f)
    sys.exit(1)
print('ok: every command occurring in the documents is found exactly once')
sys.exit(0)
