"""C03 demo 1: search must return every command of a name at ANY nesting depth.

usage: demo.py <path-of-TexSoup-checkout>
exit 0: property holds, exit 1: violated.
"""
import sys

sys.path.insert(0, sys.argv[1])

from TexSoup import TexSoup  # noqa: E402

failures = []


def check(label, doc, name, expected):
    soup = TexSoup(doc)
    if str(soup) != doc:
        # not the property under test; just make sure the tree is the document
        failures.append('%s: document does not round-trip' % label)
        return
    found = soup.find_all(name)
    count = soup.count(name)
    first = soup.find(name)
    attr = getattr(soup, name)
    if len(found) != expected:
        failures.append('%s: find_all(%r) returned %d nodes, the document '
                        'contains %d' % (label, name, len(found), expected))
    if count != len(found):
        failures.append('%s: count(%r)=%d but len(find_all)=%d'
                        % (label, name, count, len(found)))
    if expected and (first is None or attr is None):
        failures.append('%s: find(%r)=%r, attribute access=%r although the '
                        'document contains \\%s' % (label, name, first, attr,
                                                    name))
    for node in found:
        if node.name != name:
            failures.append('%s: spurious match %r' % (label, node))


def nested_envs(depth, payload):
    return (''.join(r'\begin{quote}' for _ in range(depth)) + payload +
            ''.join(r'\end{quote}' for _ in range(depth)))


def nested_groups(depth, payload):
    return '{' * depth + payload + '}' * depth


def nested_mixed(depth, payload):
    # environment body / brace group / math region, alternating
    opens, closes = [], []
    for i in range(depth):
        o, c = ((r'\begin{center}', r'\end{center}'), ('{', '}'),
                (r'\(', r'\)'))[i % 3]
        opens.append(o)
        closes.append(c)
    return ''.join(opens) + payload + ''.join(reversed(closes))


payload = r'\deepmark{x} and \deepmark{y}'
for depth in (3, 30, 60, 90, 99, 100, 101, 102, 110, 130, 160):
    check('envs depth %d' % depth, nested_envs(depth, payload), 'deepmark', 2)
    check('groups depth %d' % depth, nested_groups(depth, payload),
          'deepmark', 2)
    check('mixed depth %d' % depth, nested_mixed(depth, payload),
          'deepmark', 2)
    # every level of the chain itself must be found, too
    check('env chain depth %d' % depth, nested_envs(depth, 'text'), 'quote',
          depth)

# searching from an inner node as root must agree with searching from the top
doc = nested_envs(130, payload)
soup = TexSoup(doc)
inner = soup
for _ in range(60):
    inner = inner.find('quote')
if inner.count('deepmark') != 2:
    failures.append('inner root at depth 60 finds %d of 2 \\deepmark'
                    % inner.count('deepmark'))
if soup.count('deepmark') != inner.count('deepmark'):
    failures.append('top-level root finds %d \\deepmark, inner root finds %d'
                    % (soup.count('deepmark'), inner.count('deepmark')))

if failures:
    print('PROPERTY C03 VIOLATED')
    for f in failures[:20]:
        print(' -', f)
    if len(failures) > 20:
        print(' ... and %d more' % (len(failures) - 20))
    sys.exit(1)
print('ok: search results are complete at every nesting depth tried')
sys.exit(0)
