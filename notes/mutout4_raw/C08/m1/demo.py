"""C08 demo: serialisation must conserve the characters of a parseable input
(only whitespace runs directly before the '{' / '[' of an argument group may go).

usage: demo.py <path-to-TexSoup-checkout>   exit 0 = property holds, 1 = violated
"""
import sys

sys.path.insert(0, sys.argv[1])
from TexSoup import TexSoup  # noqa: E402

WS = ' \t\r\n'


def conserved(src, out):
    """True iff `out` is `src` minus whitespace runs that stand directly
    before an opening brace or bracket."""
    i = j = 0
    while i < len(src):
        if j < len(out) and src[i] == out[j]:
            i += 1
            j += 1
            continue
        k = i
        while k < len(src) and src[k] in WS:
            k += 1
        if k > i and k < len(src) and src[k] in '{[':
            i = k      # a dropped whitespace run before an opener
            continue
        return False
    return j == len(out)


# all inputs respect the side conditions of C08: no NUL/DEL, and \def, \textbf,
# \section, \label (not used here at all) only with brace-delimited arguments
DOCS = [
    # control: the fully braced form
    r'\begin{tabular}{cc}\multicolumn{2}{c}{total}\\a&b\end{tabular}',
    # the text of the cell is not braced (short-hand macro body, plain TeX style)
    r'\begin{tabular}{cc}\multicolumn{2}{c|} total & 1\\a&b\end{tabular}',
    # an alias is defined: \multicolumn is followed by a blank and a command
    r'\let\mc\multicolumn \mc{2}{c}{x}',
    # only two groups, then a paragraph of text
    'see \\multicolumn{2}{l}\nfor the syntax',
]

bad = 0
for doc in DOCS:
    try:
        out = str(TexSoup(doc))
    except Exception as exc:  # not parseable: outside the property's domain
        print('skipped (does not parse): %r: %s' % (doc, type(exc).__name__))
        continue
    if not conserved(doc, out):
        bad += 1
        print('C08 VIOLATED')
        print('   input : %r' % doc)
        print('   output: %r' % out)

if bad:
    sys.exit(1)
print('C08 holds on all %d documents' % len(DOCS))
sys.exit(0)
