"""C08 demo: serialisation must conserve the characters of a parseable input
(only whitespace runs directly before the '{' / '[' of an argument group may go).

usage: demo.py <path-to-TexSoup-checkout>   exit 0 = property holds, 1 = violated
"""
import sys

sys.path.insert(0, sys.argv[1])
from TexSoup import TexSoup  # noqa: E402

WS = ' \t\r\n'


def conserved(src, out):
    """True iff `out` is `src` minus whitespace runs that stand directly
    before an opening brace or bracket."""
    i = j = 0
    while i < len(src):
        if j < len(out) and src[i] == out[j]:
            i += 1
            j += 1
            continue
        k = i
        while k < len(src) and src[k] in WS:
            k += 1
        if k > i and k < len(src) and src[k] in '{[':
            i = k      # a dropped whitespace run before an opener
            continue
        return False
    return j == len(out)


# all inputs respect the side conditions of C08: no NUL/DEL, and \def, \textbf,
# \section, \label are not used at all
DOCS = [
    # control: the usual, fully braced shorthand definitions
    r'\newcommand{\beq}{\begin{equation}}\newcommand{\eeq}{\end{equation}} \beq x \eeq',
    # the environment name is a parameter of the new macro, given without braces
    r'\newcommand{\open}[1]{\begin#1}\newcommand{\close}[1]{\end#1}',
    # a blank and a macro parameter after the unmatched \end
    r'\renewcommand{\close}[1]{\end #1\ignorespacesafterend}',
    # line break between \end and the next command of the definition body
    '\\providecommand{\\stop}{\\end\n\\relax}',
    # plain-TeX style name without braces
    r'\newcommand{\ei}{\end itemize}',
]

bad = 0
for doc in DOCS:
    try:
        out = str(TexSoup(doc))
    except Exception as exc:  # not parseable: outside the property's domain
        print('skipped (does not parse): %r: %s' % (doc, type(exc).__name__))
        continue
    if not conserved(doc, out):
        bad += 1
        print('C08 VIOLATED')
        print('   input : %r' % doc)
        print('   output: %r' % out)

if bad:
    sys.exit(1)
print('C08 holds on all %d documents' % len(DOCS))
sys.exit(0)
