"""C20 demo: an in-range forward(j) over a not-yet-fetched stretch must return
exactly the j items a list+index model returns and leave the cursor at i+j."""
import sys
sys.path.insert(0, sys.argv[1])
from TexSoup.utils import Buffer, Token


def check(make, seq, ops):
    """Run ops on Buffer and on a list+index model; return first mismatch."""
    buf, idx = make(seq), 0
    for op, arg in ops:
        if op == 'forward':
            assert idx + arg <= len(seq)          # in range
            want = ''.join(seq[idx:idx + arg]); idx += arg
            try:
                got = buf.forward(arg)
            except Exception as e:                # noqa
                return 'forward(%d) raised %r' % (arg, e)
        elif op == 'backward':
            assert idx - arg >= 0
            idx -= arg; want = ''.join(seq[idx:idx + arg])
            got = buf.backward(arg)
        elif op == 'next':
            want = seq[idx]; idx += 1
            got = next(buf)
        elif op == 'peek':
            want = seq[idx + arg] if idx + arg < len(seq) else None
            got = buf.peek(arg)
        if got != want:
            return '%s(%r): got %d chars %r..., expected %d chars' % (
                op, arg, len(got or ''), str(got)[:12], len(want or ''))
        if buf.position != idx:
            return '%s(%r): cursor %d, expected %d' % (
                op, arg, buf.position, idx)
    return None


problems = []
for n in (10, 100, 150, 300, 700):
    chars = [chr(ord('a') + k % 26) for k in range(n)]
    toks = ['t%d;' % k for k in range(n)]
    for label, make, seq in (
            ('string-backed', lambda s: Buffer(''.join(s)), chars),
            ('token-backed', lambda s: Buffer([Token(t, 4 * k) for k, t in
                                               enumerate(s)]), toks)):
        for ops in (
                [('forward', n)],
                [('forward', n - 1), ('next', None)],
                [('next', None), ('forward', n - 2), ('peek', 0),
                 ('backward', n - 1), ('forward', n)],
                [('peek', 1), ('forward', n // 2), ('forward', n - n // 2)],
        ):
            msg = check(make, seq, ops)
            if msg:
                problems.append('%s, %d items, ops %r: %s' % (
                    label, n, ops, msg))

if problems:
    print('C20 violated:')
    for p in problems[:6]:
        print('  ' + p)
    sys.exit(1)
print('C20 holds on the probed sequences')
sys.exit(0)
