"""C20 demo: forward_until must return exactly the items a list+index model
skips over (and leave the cursor where the model's index is), however long
the run is; surrounding next/peek/backward must agree with the model too."""
import sys
sys.path.insert(0, sys.argv[1])
from TexSoup.utils import Buffer, Token

problems = []


def run_case(label, make, seq, stop_at, lead, use_peek):
    """seq: list of str items; scan from index `lead` up to index `stop_at`."""
    buf, idx = make(seq), 0
    for _ in range(lead):
        got, want = next(buf), seq[idx]
        idx += 1
        if got != want:
            problems.append('%s: next -> %r, expected %r' % (label, got, want))
            return
    stop_item = seq[stop_at] if stop_at < len(seq) else None
    if use_peek:
        got = buf.forward_until(lambda t: t == stop_item)
    else:
        got = buf.forward_until(lambda b: b.peek() == stop_item, peek=False)
    want = ''.join(seq[idx:stop_at])
    idx = min(stop_at, len(seq))
    if got != want:
        k = next((n for n, (a, b) in enumerate(zip(str(got), want))
                  if a != b), min(len(got), len(want)))
        problems.append(
            '%s: forward_until returned %d chars, model %d chars; first '
            'difference at char %d (%r vs %r)' % (
                label, len(got), len(want), k,
                str(got)[k:k + 8], want[k:k + 8]))
    if buf.position != idx:
        problems.append('%s: cursor %d, model %d' % (
            label, buf.position, idx))
    pk, want_pk = buf.peek(), (seq[idx] if idx < len(seq) else None)
    if pk != want_pk:
        problems.append('%s: peek() after scan %r, model %r' % (
            label, pk, want_pk))
    if idx:
        back, want_b = buf.backward(1), seq[idx - 1]
        if back != want_b or buf.position != idx - 1:
            problems.append('%s: backward(1) -> %r at %d, model %r at %d' % (
                label, back, buf.position, want_b, idx - 1))


for n in (5, 60, 256, 257, 300, 600, 1500):
    chars = [chr(ord('a') + k % 20) for k in range(n)] + ['Z', 'y', 'z']
    toks = ['w%d ' % k for k in range(n)] + ['\\end', '{', 'x']
    for lead in (0, 3):
        for use_peek in (True, False):
            for stop_at in (n, n + 5):          # stop at marker / at the end
                run_case('string-backed n=%d lead=%d peek=%s stop=%d' % (
                    n, lead, use_peek, stop_at),
                    lambda s: Buffer(''.join(s)), chars, stop_at, lead,
                    use_peek)
                run_case('token-backed n=%d lead=%d peek=%s stop=%d' % (
                    n, lead, use_peek, stop_at),
                    lambda s: Buffer([Token(t, 5 * k)
                                      for k, t in enumerate(s)]),
                    toks, stop_at, lead, use_peek)

if problems:
    print('C20 violated (%d findings):' % len(problems))
    for p in problems[:6]:
        print('  ' + p)
    sys.exit(1)
print('C20 holds on the probed sequences')
sys.exit(0)
