"""C14 demo: renaming an environment changes exactly \\begin{..} and \\end{..},
is visible to searches, and survives re-parsing -- also when the same
environment is renamed several times in a row before the document is written
out, and when the new names are computed at run time.

usage: demo.py <path-to-TexSoup-checkout>      exit 0 = property holds, 1 = violated
"""
import sys

sys.path.insert(0, sys.argv[1])
from TexSoup import TexSoup  # noqa: E402

DOC = ('\\section{Intro}\n'
       '\\begin{theorem}[Main]\nEvery $x$ is \\emph{fine}.\n\\end{theorem}\n'
       'Some text.\n'
       '\\begin{proof}\nTrivial.\n\\end{proof}\n')


def make_name(stem, i):
    """A plain identifier built at run time (a fresh string object per call)."""
    return ''.join([stem, 'abcdefghijklmnopqrstuvwxyz'[i % 26]])


def expected(name):
    return DOC.replace('{theorem}', '{%s}' % name)


def check(soup, name, step):
    problems = []
    text = str(soup)
    if text != expected(name):
        problems.append('serialised document after %s:\n%r\nexpected:\n%r'
                        % (step, text, expected(name)))
    if soup.count(name) != 1 or soup.count('theorem') != 0:
        problems.append('search by name after %s: count(%r)=%d count(theorem)=%d'
                        % (step, name, soup.count(name), soup.count('theorem')))
    if len(soup.find_all('\\begin{%s}' % name)) != 1:
        problems.append('search by \\begin{%s} after %s finds %d nodes'
                        % (name, step, len(soup.find_all('\\begin{%s}' % name))))
    again = TexSoup(text)
    if again.count(name) != 1 or str(again) != expected(name):
        problems.append('re-parsed document after %s does not show the rename '
                        'to %r: %r' % (step, name, str(again)))
    return problems


def main():
    failures = []
    for i in range(40):
        soup = TexSoup(DOC)
        env = soup.find('theorem')

        # first pass of a clean-up script: give the environment a project name
        env.name = make_name('thm', i)
        failures += check(soup, make_name('thm', i), 'first rename (#%d)' % i)

        # second pass: two more renames in a row, nothing is read in between
        env.name = make_name('lem', i)
        env.name = make_name('cor', i)
        failures += check(soup, make_name('cor', i),
                          'third rename in a row (#%d)' % i)
        if failures:
            break

    if failures:
        print('C14 VIOLATED')
        for f in failures:
            print(' -', f)
        return 1
    print('C14 holds: every rename changed exactly \\begin/\\end of the target')
    return 0


if __name__ == '__main__':
    sys.exit(main())
