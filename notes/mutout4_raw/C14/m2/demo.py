"""C14 demo: assigning a permutation / prefix of a node's argument list changes
exactly the argument part of the serialised document, is visible to searches
and survives re-parsing -- whichever way the new argument list is built
(slice, list, reversed(), generator expression).

usage: demo.py <path-to-TexSoup-checkout>      exit 0 = property holds, 1 = violated
"""
import sys

sys.path.insert(0, sys.argv[1])
from TexSoup import TexSoup  # noqa: E402
from TexSoup.data import TexArgs  # noqa: E402

HEAD = 'Intro \\textbf{bold} text\n\\begin{center}\n'
TAIL = ' and more\n\\end{center}\n\\infer{X}{Y} end\n'
GROUPS = ['{alpha}', '[beta]', '{gamma \\emph{delta}}', '{epsilon}']
DOC = HEAD + '\\multi' + ''.join(GROUPS) + TAIL

# name of the construction -> (builder of the new TexArgs, order of the groups)
BUILDERS = [
    ('slice [::-1]', lambda a: a[::-1], [3, 2, 1, 0]),
    ('TexArgs(list)', lambda a: TexArgs([a[2], a[0], a[3], a[1]]), [2, 0, 3, 1]),
    ('TexArgs(reversed(args))', lambda a: TexArgs(reversed(a)), [3, 2, 1, 0]),
    ('TexArgs(generator over a permutation)',
     lambda a: TexArgs(a[i] for i in (1, 3, 0, 2)), [1, 3, 0, 2]),
    ('TexArgs(iterator over a prefix)',
     lambda a: TexArgs(iter(list(a)[:2])), [0, 1]),
]


def main():
    failures = []
    for label, build, order in BUILDERS:
        soup = TexSoup(DOC)
        node = soup.find('multi')
        node.args = build(node.args)

        new_cmd = '\\multi' + ''.join(GROUPS[i] for i in order)
        want = HEAD + new_cmd + TAIL
        got = str(soup)
        if got != want:
            failures.append('%s: serialised document is\n    %r\n  expected\n    %r'
                            % (label, got, want))
            continue
        if len(soup.find_all(new_cmd)) != 1 or soup.count('multi') != 1:
            failures.append('%s: the edited command is not found by a search'
                            % label)
        again = TexSoup(got)
        if str(again) != want or \
                [str(a) for a in again.find('multi').args] != \
                [GROUPS[i] for i in order]:
            failures.append('%s: re-parsed tree does not show the new '
                            'argument list: %r' % (label, again.find('multi')))

    if failures:
        print('C14 VIOLATED')
        for f in failures:
            print(' -', f)
        return 1
    print('C14 holds: every way of assigning a permuted argument list '
          'changed exactly the arguments')
    return 0


if __name__ == '__main__':
    sys.exit(main())
