"""C05 demo 2: delete / replace_with are local, also inside a bibliography.

Usage: python demo.py /path/to/TexSoup-checkout
Exit 0 if the property holds for all probed (document, target, edit) triples,
1 if not.

Every command/environment/group node of each document is, on a fresh parse,
(a) deleted, (b) replaced by one string, (c) replaced by a string and a new
node.  The serialisation afterwards must be the original text with the node's
own span removed / substituted and every other character unchanged.
"""
import sys

sys.path.insert(0, sys.argv[1])

from TexSoup import TexSoup  # noqa: E402
from TexSoup.data import TexNode  # noqa: E402

DOCS = [
    r'''\begin{thebibliography}{9}
\bibitem{knuth84} D. Knuth, \emph{The \TeX book}, Addison-Wesley, 1984.
\bibitem[Lam94]{lamport94} L. Lamport, \emph{\LaTeX: a document preparation system}, 2nd ed.
\end{thebibliography}''',
    r'See \cite{knuth84}. \bibitem{a} A. Author, \textit{Title}, {\bf 12} (2001) $1$--$9$. \bibitem{b} B.',
    r'''\begin{itemize}
\item one \emph{x}
\item two \textbf{y}
\end{itemize}''',
]

EDITS = [
    ('delete', lambda node: node.delete(), ''),
    ('replace_with(str)', lambda node: node.replace_with('XY'), 'XY'),
    ('replace_with(str, node)',
     lambda node: node.replace_with('P ', TexSoup(r'\new{q}').new.copy()),
     r'P \new{q}'),
]


def nodes_of(soup):
    return [n for n in soup.descendants if isinstance(n, TexNode)]


def main():
    failures = []
    checked = 0
    for doc in DOCS:
        n_targets = len(nodes_of(TexSoup(doc)))
        for k in range(n_targets):
            for label, edit, substitute in EDITS:
                soup = TexSoup(doc)
                before = str(soup)
                node = nodes_of(soup)[k]
                span = str(node)
                if before.count(span) != 1:
                    continue  # ambiguous span: not needed for this demo
                expected = before.replace(span, substitute, 1)
                try:
                    edit(node)
                    after = str(soup)
                except Exception as e:  # an edit that fails is a violation
                    after = 'EXCEPTION %s: %s' % (type(e).__name__, e)
                checked += 1
                if after != expected:
                    failures.append((doc, label, span, expected, after))
    for doc, label, span, expected, after in failures:
        print('VIOLATION %s on %r' % (label, span))
        print('   document: %r' % doc)
        print('   expected: %r' % expected)
        print('   got     : %r' % after)
    print('%d edits checked, %d violations' % (checked, len(failures)))
    return 1 if failures else 0


if __name__ == '__main__':
    sys.exit(main())
