"""C05 demo 1: deleting a node removes exactly that node's span.

Usage: python demo.py /path/to/TexSoup-checkout
Exit 0 if the property holds for all probed (document, target) pairs, 1 if not.

The documents use the mark-up commands of the `changes` package
(\\added, \\deleted, \\replaced) next to ordinary commands, environments and
lists.  Every command/environment/group node of every document is deleted once
(on a fresh parse each time) and the serialisation is compared with the
original text minus the node's own span.
"""
import sys

sys.path.insert(0, sys.argv[1])

from TexSoup import TexSoup  # noqa: E402

DOCS = [
    r'\section{Intro}\textbf{We \deleted{did not} measure \added{x}.} Tail \emph{e}.',
    r'''\begin{itemize}
  \item first \replaced{new}{old} point
  \item second \deleted{obsolete} point \textit{kept}
\end{itemize}
After \emph{the} list.''',
    r'\begin{quote}A {grouped \deleted{gone} run} and $a+\deleted{b}$ math.\end{quote}\footnote{n}',
    r'\caption[short \added{s}]{long \deleted{l} text} \label{k}',
]


def nodes_of(soup):
    from TexSoup.data import TexNode
    return [n for n in soup.descendants if isinstance(n, TexNode)]


def main():
    failures = []
    checked = 0
    for doc in DOCS:
        n_targets = len(nodes_of(TexSoup(doc)))
        for k in range(n_targets):
            soup = TexSoup(doc)
            before = str(soup)
            node = nodes_of(soup)[k]
            span = str(node)
            if before.count(span) != 1:
                continue  # ambiguous span: not needed for this demo
            expected = before.replace(span, '', 1)
            try:
                node.delete()
                after = str(soup)
            except Exception as e:  # an edit that fails is a violation too
                after = 'EXCEPTION %s: %s' % (type(e).__name__, e)
            checked += 1
            if after != expected:
                failures.append((doc, span, expected, after))
    for doc, span, expected, after in failures:
        print('VIOLATION deleting %r' % span)
        print('   document: %r' % doc)
        print('   expected: %r' % expected)
        print('   got     : %r' % after)
    print('%d deletions checked, %d violations' % (checked, len(failures)))
    return 1 if failures else 0


if __name__ == '__main__':
    sys.exit(main())
