"""C16 demo: serialised output must be a fixed point of the parser.

usage: demo.py <path to a TexSoup checkout>
exit 0: property holds on the probes, exit 1: violated (details printed).
"""
import sys

sys.path.insert(0, sys.argv[1])

from TexSoup import TexSoup                      # noqa: E402
from TexSoup.data import TexText                 # noqa: E402


def shape(e):
    """names, arguments and contents of a parsed tree"""
    if isinstance(e, (TexText, str)):
        return ('text', str(e))
    return (type(e).__name__, str(e.name),
            [shape(a) for a in e.args],
            [shape(c) for c in e._contents])


def check(x):
    first = TexSoup(x)                 # the input must parse in strict mode
    s1 = str(first)
    try:
        second = TexSoup(s1)
    except Exception as ex:            # noqa
        return 're-parse of %r (from %r) failed: %r' % (s1, x, ex)
    s2 = str(second)
    if s2 != s1:
        return 'load-save drifts: %r -> %r -> %r' % (x, s1, s2)
    if shape(first.expr) != shape(second.expr):
        return ('tree changes shape on re-parse: %r -> %r\n   first : %r\n'
                '   second: %r' % (x, s1, shape(first.expr),
                                   shape(second.expr)))
    return None


def groups(n, sep=''):
    return sep.join('{a%d}' % i for i in range(1, n + 1))


PROBES = [
    # ordinary inputs (sanity)
    '\\foo {a} [b]\n\n\\bar[x] {y}',
    '\\begin {itemize}\n\\item [a] one\n\\item two\n\\end {itemize}',
    # few arguments, then a paragraph break
    '\\foo' + groups(3) + '\n\n\\bar',
    '\\foo' + groups(8, ' ') + '\n\n{x}',
    # many arguments, one blank behind them
    '\\foo' + groups(9) + ' \\bar',
    '\\foo' + groups(12, '\n') + '\n\\bar',
    # many arguments, then a paragraph break (two blank tokens)
    '\\foo' + groups(9) + '\n\n\\bar',
    '\\foo' + groups(9) + '\n\n{x}',
    '\\begin{tabular}' + groups(10, ' ') + ' \n \n$x$\\end{tabular}',
    '\\mybox[o]' + groups(8) + '\r\n[late] text',
]

failures = []
for x in PROBES:
    try:
        problem = check(x)
    except Exception as ex:            # the probe itself must parse
        problem = 'input %r does not parse in strict mode: %r' % (x, ex)
    if problem:
        failures.append(problem)

if failures:
    print('C16 VIOLATED')
    for f in failures:
        print(' -', f)
    sys.exit(1)
print('C16 holds on %d probes' % len(PROBES))
sys.exit(0)
