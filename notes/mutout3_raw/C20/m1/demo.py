"""C20 demo: a range peek that straddles the cursor must equal the list slice.

Compares Buffer against a plain list + integer index for histories of the
form  next()*k ; peek((-a, b))  with a, b >= 1 (the window starts behind the
cursor and ends ahead of it), on a string-backed and a token-backed buffer.
All windows are in range (a <= cursor, cursor + b <= len).
Exit 0 if the property holds, 1 otherwise.
"""
import sys

sys.path.insert(0, sys.argv[1])

from TexSoup.utils import Buffer  # noqa: E402
from TexSoup.category import categorize  # noqa: E402
from TexSoup.tokens import tokenize  # noqa: E402


def make_string():
    text = 'abcdefgh'
    return list(text), (lambda: Buffer(text))


def make_tokens():
    text = r'\item{ab}$x$ [cd] \textbf{ef}'
    items = [str(t) for t in Buffer(tokenize(categorize(text)))]
    return items, (lambda: Buffer(tokenize(categorize(text))))


failures = []
for label, (items, fresh) in (('string', make_string()),
                              ('tokens', make_tokens())):
    n = len(items)
    for k in range(1, n):
        for a in range(1, k + 1):
            for b in range(1, n - k + 1):
                buf = fresh()
                idx = 0
                for _ in range(k):          # advance with plain next()
                    got = next(buf)
                    if str(got) != items[idx]:
                        failures.append((label, 'next', k, str(got)))
                    idx += 1
                want = ''.join(items[idx - a:idx + b])
                got = buf.peek((-a, b))
                if str(got) != want:
                    failures.append(
                        '%s: after %d next(), peek((%d, %d)) = %r, '
                        'list model says %r' % (label, k, -a, b, str(got),
                                                want))
                if buf.position != idx:
                    failures.append(
                        '%s: peek((%d, %d)) moved the cursor: %d != %d'
                        % (label, -a, b, buf.position, idx))
                # and the cursor still reads the right item afterwards
                nxt = buf.peek()
                if str(nxt) != items[idx]:
                    failures.append('%s: peek() after window = %r, want %r'
                                    % (label, str(nxt), items[idx]))

if failures:
    print('C20 VIOLATED: %d mismatches, first few:' % len(failures))
    for f in failures[:5]:
        print('  ', f)
    sys.exit(1)
print('C20 holds on the probed histories')
sys.exit(0)
