"""C20 demo: slicing a Buffer equals slicing a plain list, for every slice.

Interleaves cursor moves (next / forward / backward) with slices b[a:b:c]
taken from a list+index model, including extended slices (an explicit step),
on a string-backed and a token-backed buffer.  Checks the joined items and
that slicing never moves the cursor.  Only non-negative bounds are used (so
every slice is well defined on a lazily filled sequence); steps are positive,
or -1 with open bounds (a full reversed copy).
Exit 0 if the property holds, 1 otherwise.
"""
import random
import sys

sys.path.insert(0, sys.argv[1])

from TexSoup.utils import Buffer  # noqa: E402
from TexSoup.category import categorize  # noqa: E402
from TexSoup.tokens import tokenize  # noqa: E402


def make_string():
    text = 'abcdefghij'
    return list(text), (lambda: Buffer(text))


def make_tokens():
    text = r'\item{ab}$x$ [cd] \textbf{ef}%z'
    items = [str(t) for t in Buffer(tokenize(categorize(text)))]
    return items, (lambda: Buffer(tokenize(categorize(text))))


def slices(n):
    out = [slice(None, None, None), slice(None, None, -1)]
    for a in [None] + list(range(0, n + 1)):
        for b in [None] + list(range(0, n + 2)):
            for c in (None, 1, 2, 3):
                out.append(slice(a, b, c))
    return out


failures = []
rng = random.Random(20)
for label, (items, fresh) in (('string', make_string()),
                              ('tokens', make_tokens())):
    n = len(items)
    all_slices = slices(n)
    for trial in range(40):
        buf, idx = fresh(), 0
        for step in range(12):
            op = rng.choice(('next', 'fwd', 'back', 'slice', 'slice'))
            if op == 'next' and idx < n:
                got = next(buf)
                want = items[idx]
                idx += 1
            elif op == 'fwd' and idx < n:
                k = rng.randint(1, min(3, n - idx))
                got = buf.forward(k)
                want = ''.join(items[idx:idx + k])
                idx += k
            elif op == 'back' and idx > 0:
                k = rng.randint(1, min(3, idx))
                got = buf.backward(k)
                idx -= k
                want = ''.join(items[idx:idx + k])
            elif op == 'slice':
                sl = rng.choice(all_slices)
                got = buf[sl]
                want = ''.join(items[sl])
                op = 'b[%s:%s:%s]' % (sl.start, sl.stop, sl.step)
            else:
                continue
            if str(got) != want:
                failures.append('%s: %s at cursor %d returned %r, list model '
                                'says %r' % (label, op, idx, str(got), want))
            if buf.position != idx:
                failures.append('%s: cursor is %d after %s, list model says '
                                '%d' % (label, buf.position, op, idx))
                break

if failures:
    print('C20 VIOLATED: %d mismatches, first few:' % len(failures))
    for f in failures[:5]:
        print('  ', f)
    sys.exit(1)
print('C20 holds on the probed histories')
sys.exit(0)
