"""C01 demo: parse -> serialise round trip on documents whose verbatim-like
environments have bodies that merely *mention* an \\end.

usage: demo.py /path/to/TexSoup-checkout
exit 0: property holds, exit 1: violated (details printed)
"""
import sys

sys.path.insert(0, sys.argv[1])

from TexSoup import TexSoup  # noqa: E402

DOCS = [
    # plain verbatim-like environments (sanity)
    ('plain verbatim',
     '\\begin{verbatim}\n$ { \\begin{x} &\n\\end{verbatim}\nafter\n',
     (), 'verbatim', '\n$ { \\begin{x} &\n'),
    ('body mentions another environment',
     'x \\begin{lstlisting}[language=TeX]\n\\end{itemize}\n\\end{lstlisting} y',
     (), 'lstlisting', '\n\\end{itemize}\n'),
    # a text about verbatim: the body shows an \end, a blank, and the name.
    # LaTeX does not end the environment there and neither may the parser.
    ('body shows "\\end {verbatim}" (with a blank)',
     'Do not write\n\\begin{verbatim}\n\\end {verbatim}\n\\end{verbatim}\nas it does not close.\n',
     (), 'verbatim', '\n\\end {verbatim}\n'),
    # a listing of (incomplete) TeX code: \end followed by an open brace
    ('listing shows "\\end{" with the brace left open',
     '\\begin{lstlisting}\n\\def\\stop{\\end{\n\\end{lstlisting}\n',
     (), 'lstlisting', '\n\\def\\stop{\\end{\n'),
    ('same inside an item and with a user supplied raw environment',
     '\\begin{itemize}\n\\item \\begin{code}puts("\\end{$");\\end{code}\n\\end{itemize}\n',
     ('code',), 'code', 'puts("\\end{$");'),
]


def main():
    problems = []
    for label, src, skip, env, body in DOCS:
        try:
            soup = TexSoup(src, skip_envs=skip)
        except Exception as exc:
            problems.append('%s: parsing raised %s: %s'
                            % (label, type(exc).__name__, str(exc)[:120]))
            continue
        out = str(soup)
        if out != src:
            problems.append('%s: str(soup) != source\n     got      %r\n'
                            '     expected %r' % (label, out, src))
            continue
        node = soup.find(env)
        text = str(node)
        if src[node.position:node.position + len(text)] != text:
            problems.append('%s: node text %r is not the source slice at %d'
                            % (label, text, node.position))
        expected = '\\begin{%s}' % env
        inner = text[text.index(expected) + len(expected):-len('\\end{%s}' % env)]
        if not inner.endswith(body):
            problems.append('%s: body of the environment is %r, expected it '
                            'to end with %r' % (label, inner, body))
    if problems:
        print('C01 VIOLATED:')
        for p in problems:
            print(' -', p)
        return 1
    print('C01 holds on all %d documents' % len(DOCS))
    return 0


if __name__ == '__main__':
    sys.exit(main())
