"""C01 demo: round trip + "the text of every node is exactly the slice of the
source it was parsed from", on documents that use CR LF line endings.

usage: demo.py /path/to/TexSoup-checkout
exit 0: property holds, exit 1: violated (details printed)
"""
import sys

sys.path.insert(0, sys.argv[1])

from TexSoup import TexSoup            # noqa: E402
from TexSoup.data import TexExpr, TexText  # noqa: E402

LF_DOC = (
    "\\documentclass[a4paper]{article}\n"
    "\\begin{document}\n"
    "\\section{Intro}\n"
    "\n"
    "Some text with $x+y$ and \\textbf{bold \\emph{nested}} words. % remark\n"
    "\\begin{itemize}\n"
    "  \\item first $a$\n"
    "  \\item[k] second \\(b\\)\n"
    "\\end{itemize}\n"
    "\\begin{verbatim}\n"
    "raw { $ \\begin{x}\n"
    "\\end{verbatim}\n"
    "\\begin{equation}\n"
    "  e = mc^2 \\\\ \\% \\{\n"
    "\\end{equation}\n"
    "\\end{document}\n"
)

DOCS = [
    ('LF line endings', LF_DOC),
    ('CR LF line endings', LF_DOC.replace('\n', '\r\n')),
    ('one CR LF in front of a command', 'a\r\nb \\textbf{c} d'),
    ('CR LF inside an item', '\\begin{itemize}\r\n\\item a\r\n\\end{itemize}'),
]


def leaves_and_nodes(expr):
    """Yield (kind, position, text) for every expression and every text leaf
    below `expr`, arguments included."""
    for child in expr.all:
        if isinstance(child, TexText):
            token = child._text
            yield 'text leaf', getattr(token, 'position', None), str(token)
        elif isinstance(child, TexExpr):
            yield type(child).__name__, child.position, str(child)
            yield from leaves_and_nodes(child)
        else:                       # a token of an argument group
            yield 'text leaf', getattr(child, 'position', None), str(child)
    for arg in expr.args:
        if isinstance(arg, TexExpr):
            yield type(arg).__name__, arg.position, str(arg)


def check(label, src):
    problems = []
    try:
        soup = TexSoup(src)
    except Exception as exc:        # parsing must succeed
        return ['%s: parsing raised %s: %s' % (label, type(exc).__name__, exc)]
    if str(soup) != src:
        problems.append('%s: str(soup) != source\n   got      %r\n   expected %r'
                        % (label, str(soup), src))
    for kind, pos, text in leaves_and_nodes(soup.expr):
        if pos is None or pos < 0:
            continue
        if src[pos:pos + len(text)] != text:
            problems.append(
                '%s: %s reports position %d and text %r, but the source has '
                '%r there' % (label, kind, pos, text, src[pos:pos + len(text)]))
    # the same through the public search interface
    for token in soup.search_regex(r'[A-Za-z]+'):
        if src[token.position:token.position + len(token)] != str(token):
            problems.append(
                '%s: search_regex match %r reported at %d, source has %r there'
                % (label, str(token), token.position,
                   src[token.position:token.position + len(token)]))
    return problems


def main():
    problems = []
    for label, src in DOCS:
        problems.extend(check(label, src))
    if problems:
        print('C01 VIOLATED (%d findings), first ones:' % len(problems))
        for p in problems[:8]:
            print(' -', p)
        return 1
    print('C01 holds on all %d documents' % len(DOCS))
    return 0


if __name__ == '__main__':
    sys.exit(main())
