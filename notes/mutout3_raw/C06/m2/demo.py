#!/usr/bin/env python
"""C06 demo 2: parsing must terminate (tree or diagnostic error) on every input,
in both tolerance modes.

Input: N math openers that are never closed, each nested in the previous one
('\\(' * N, or '\\(' and '\\[' alternating; nesting depth N <= 40).  This has
to be answered at once - with the EOFError for an unclosed math region or with a
tree.  The program exits 1 if a parse does not terminate within a generous time
limit or leaks a non-diagnostic exception, 0 otherwise.
"""
import signal
import sys
import time

sys.path.insert(0, sys.argv[1])
from TexSoup import TexSoup  # noqa: E402

LIMIT = 30          # seconds per parse; the unchanged tree needs milliseconds
DIAGNOSTICS = (EOFError, TypeError, AssertionError)


class Hang(Exception):
    pass


def on_alarm(signum, frame):
    raise Hang()


signal.signal(signal.SIGALRM, on_alarm)
failures = []
docs = [('\\(' * 10, "'\\(' * 10"),
        ('\\(\\[' * 15, "'\\(\\[' * 15"),
        ('\\(' * 40, "'\\(' * 40")]
for doc, label in docs:
    for tolerance in (0, 1):
        start = time.time()
        signal.setitimer(signal.ITIMER_REAL, LIMIT)
        try:
            TexSoup(doc, tolerance=tolerance)
            outcome = 'tree'
        except Hang:
            outcome = None
            failures.append('no result after %d s for %s, tolerance=%d'
                            % (LIMIT, label, tolerance))
        except DIAGNOSTICS as e:
            outcome = type(e).__name__
        except BaseException as e:  # internal exception leaked
            outcome = None
            failures.append('%s leaked for %s, tolerance=%d: %s'
                            % (type(e).__name__, label, tolerance, e))
        finally:
            signal.setitimer(signal.ITIMER_REAL, 0)
        print('%-14s tolerance %d -> %s (%.2f s)'
              % (label, tolerance, outcome, time.time() - start))
    if failures:
        break

if failures:
    print('PROPERTY C06 VIOLATED: parsing does not terminate')
    for f in failures:
        print('  ' + f)
    sys.exit(1)
print('C06 holds on these inputs')
sys.exit(0)
