#!/usr/bin/env python
"""C06 demo 1: parsing must terminate (tree or diagnostic error) on every input.

Input: a command followed by an optional-argument opener, nested N times and
never closed ('\\x[' * N, nesting depth N <= 40).  This must be answered at
once with the 'Malformed argument' TypeError (tolerance 0) or with a tree
(tolerance 1).  The program exits 1 if a parse does not terminate within a
generous time limit or leaks a non-diagnostic exception, 0 otherwise.
"""
import signal
import sys
import time

sys.path.insert(0, sys.argv[1])
from TexSoup import TexSoup  # noqa: E402

LIMIT = 20          # seconds per parse; the unchanged tree needs milliseconds
DIAGNOSTICS = (EOFError, TypeError, AssertionError)


class Hang(Exception):
    pass


def on_alarm(signum, frame):
    raise Hang()


signal.signal(signal.SIGALRM, on_alarm)
failures = []
for depth in (8, 16, 30, 40):
    doc = '\\x[' * depth
    for tolerance in (0, 1):
        start = time.time()
        signal.setitimer(signal.ITIMER_REAL, LIMIT)
        try:
            TexSoup(doc, tolerance=tolerance)
            outcome = 'tree'
        except Hang:
            outcome = None
            failures.append('no result after %d s for %r * %d, tolerance=%d'
                            % (LIMIT, '\\x[', depth, tolerance))
        except DIAGNOSTICS as e:
            outcome = type(e).__name__
        except BaseException as e:  # internal exception leaked
            outcome = None
            failures.append('%s leaked for %r * %d, tolerance=%d: %s'
                            % (type(e).__name__, '\\x[', depth, tolerance, e))
        finally:
            signal.setitimer(signal.ITIMER_REAL, 0)
        print('depth %2d tolerance %d -> %s (%.2f s)'
              % (depth, tolerance, outcome, time.time() - start))
        if outcome is None:
            break
    if failures:
        break

if failures:
    print('PROPERTY C06 VIOLATED: parsing does not terminate')
    for f in failures:
        print('  ' + f)
    sys.exit(1)
print('C06 holds on these inputs')
sys.exit(0)
