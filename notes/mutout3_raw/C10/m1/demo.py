"""C10 (comments are inert) - demonstration 1.

usage: demo.py <path of a TexSoup checkout>

A comment runs from an unescaped % to the end of its line, whatever its
payload contains.  Here the payload contains, besides the usual hostile
characters, a character that is not a TeX end-of-line character ('\n', '\r')
but that some text utilities regard as a "line boundary" (form feed, vertical
tab, the separators U+001C..U+001E, NEL U+0085, U+2028, U+2029).

For every context / payload / ending the program checks that
  * the document parses (the same document with a harmless payload does),
  * the comment is exactly one text leaf '%' + payload,
  * the tree is the same as with a harmless payload (comment leaf aside),
  * searching by name finds the same things as with the harmless payload.
exit status 0: property holds, 1: violated.
"""
import sys

sys.path.insert(0, sys.argv[1])

from TexSoup import TexSoup                      # noqa: E402
from TexSoup.data import TexText, TexCmd, TexEnv, TexExpr  # noqa: E402

MARK = ('<comment>',)


def signature(expr, comment):
    """Shape of the tree; the leaf that is the comment becomes MARK."""
    if isinstance(expr, TexText) or not isinstance(expr, TexExpr):
        text = str(expr)
        return MARK if text == comment else ('text', text)
    kind = 'cmd' if isinstance(expr, TexCmd) else type(expr).__name__
    return (kind, str(expr.name),
            tuple(signature(a, comment) for a in expr.args),
            tuple(signature(c, comment) for c in expr._contents))


def leaves(sig):
    if sig == MARK or sig[0] == 'text':
        yield sig
        return
    for part in sig[2] + sig[3]:
        yield from leaves(part)


NAMES = ['item', 'textbf', 'section', 'itemize', 'center', 'equation', '$',
         '$$', 'math', 'displaymath', 'BraceGroup', 'BracketGroup', 'end',
         'begin', 'x', 'y']

# C marks the place of the comment (comment + how it ends)
CONTEXTS = {
    'top level': 'a C b',
    'environment body': '\\begin{center}a C b\\end{center} c',
    'item': '\\begin{itemize}\\item a C\\item b\\end{itemize} c',
    'brace argument': '\\textbf{a C b} c',
    'bracket argument': '\\section[a C b]{t} c',
    'group': '{a C b} c',
    'math $': '$a C b$ c',
    'math $$': '$$a C b$$ c',
    'math \\(': '\\(a C b\\) c',
    'math \\[': '\\[a C b\\] c',
    'math environment': '\\begin{equation}a C b\\end{equation} c',
}

HOSTILE = '}]$\\end{itemize}\\end{center}\\]\\)\\item{[$$\\begin{x}'
RARE = ['\x0b', '\x0c', '\x1c', '\x1d', '\x1e', '\x85', '\u2028', '\u2029']
PAYLOADS = [HOSTILE, ' x ' + HOSTILE + ' y']
PAYLOADS += ['x' + ch + HOSTILE for ch in RARE]
PAYLOADS += [ch + '}' for ch in RARE] + [ch + '$' for ch in RARE]
REFERENCE = 'harmless'

problems = []


def parse(doc):
    try:
        return TexSoup(doc), None
    except Exception as e:      # noqa
        return None, '%s: %s' % (type(e).__name__, str(e).splitlines()[0][:80])


def check(where, template, payload, ending):
    doc = template.replace('C', '%' + payload + ending)
    ref = template.replace('C', '%' + REFERENCE + ending)
    ref_soup, err = parse(ref)
    assert ref_soup is not None, (where, err)
    soup, err = parse(doc)
    tag = '[%s, payload %r, ended by %r]' % (where, payload, ending)
    if soup is None:
        problems.append('%s does not parse any more (%s)' % (tag, err))
        return
    sig = signature(soup.expr, '%' + payload)
    ref_sig = signature(ref_soup.expr, '%' + REFERENCE)
    n = sum(1 for leaf in leaves(sig) if leaf == MARK)
    if n != 1:
        problems.append('%s the comment is not one text leaf; leaves: %r'
                        % (tag, [l for l in leaves(sig)]))
    elif sig != ref_sig:
        problems.append('%s tree differs from the tree with a harmless '
                        'payload:\n    %r\n    %r' % (tag, sig, ref_sig))
    for name in NAMES:
        a, b = soup.count(name), ref_soup.count(name)
        if a != b:
            problems.append('%s count(%r) is %d, with a harmless payload %d'
                            % (tag, name, a, b))
            break


for where, template in CONTEXTS.items():
    for payload in PAYLOADS:
        check(where, template, payload, '\n')
for payload in PAYLOADS:
    check('top level, end of input', 'a C', payload, '')

# 0..4 backslashes before the %: odd = escaped percent sign, even = comment
for k in range(5):
    soup, err = parse('a ' + '\\' * k + '%x\n b')
    if soup is None:
        problems.append('%d backslashes: %s' % (k, err))
        continue
    has = MARK in list(leaves(signature(soup.expr, '%x')))
    if has != (k % 2 == 0):
        problems.append('%d backslashes before %%: comment leaf %s'
                        % (k, 'present' if has else 'missing'))

if problems:
    print('C10 VIOLATED (%d findings); first ones:' % len(problems))
    for p in problems[:6]:
        print(' -', p)
    sys.exit(1)
print('C10 holds on everything tried')
sys.exit(0)
