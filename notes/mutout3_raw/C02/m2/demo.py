"""C02 demo: the parse tree mirrors the construct structure of the document;
in particular \\begin / \\end inside a \\newcommand-style definition do not
open or close environments.

The definitions used here wrap the \\begin / \\end in the argument of another
command (\\fbox{\\begin{minipage}{3cm}}, \\mbox{\\begin{a}y\\end{a}} ...), which
is how box- and alignment-shorthands are usually written.

usage: demo.py <path of a TexSoup checkout>      exit 0 = holds, 1 = violated
"""
import sys

sys.path.insert(0, sys.argv[1])

from TexSoup import TexSoup                                    # noqa: E402
from TexSoup.data import (TexText, TexCmd, TexNamedEnv, BraceGroup,  # noqa
                          BracketGroup, TexEnv)


def shape(expr):
    """Nested, comparable picture of a parsed expression."""
    if isinstance(expr, TexText) or isinstance(expr, str):
        return ('text', str(expr))
    if isinstance(expr, BraceGroup):
        return ('brace', seq(expr._contents))
    if isinstance(expr, BracketGroup):
        return ('bracket', seq(expr._contents))
    if isinstance(expr, TexNamedEnv):
        return ('env', str(expr.name), [shape(a) for a in expr.args],
                seq(expr._contents))
    if isinstance(expr, TexCmd):
        return ('cmd', str(expr.name), [shape(a) for a in expr.args],
                seq(expr._contents))
    if isinstance(expr, TexEnv):
        return ('math', str(expr.begin), seq(expr._contents))
    raise TypeError(type(expr))


def seq(exprs):
    """Shapes of a sibling list; adjacent text runs are one text run."""
    out = []
    for e in exprs:
        s = shape(e)
        if s[0] == 'text' and out and out[-1][0] == 'text':
            out[-1] = ('text', out[-1][1] + s[1])
        else:
            out.append(s)
    return out


def T(s):
    return ('text', s)


def B(*c):
    return ('brace', list(c))


def C(name, *args):
    return ('cmd', name, list(args), [])


CASES = [
    # opening half of a framed box: the \begin sits in the argument of \fbox
    (r'\newcommand{\bbox}{\fbox{\begin{minipage}{3cm}}}x',
     [C('newcommand',
        B(C('bbox')),
        B(C('fbox', B(C('begin', B(T('minipage')), B(T('3cm'))))))),
      T('x')]),
    # closing half, nested the same way, with an argument count
    (r'\renewcommand{\ebox}[1]{\hbox{#1\end{minipage}}}',
     [C('renewcommand',
        B(C('ebox')), ('bracket', [T('1')]),
        B(C('hbox', B(T('#1'), C('end', B(T('minipage')))))))]),
    # a balanced pair inside a nested argument stays a pair of commands
    (r'\providecommand{\w}{\mbox{\begin{a}y\end{a}}}',
     [C('providecommand',
        B(C('w')),
        B(C('mbox', B(C('begin', B(T('a'))), T('y'),
                      C('end', B(T('a')))))))]),
    # controls: \begin / \end directly in the body, and an ordinary
    # environment inside a command argument outside of any definition
    (r'\newcommand{\be}{\begin{equation}}\newcommand{\ee}{\end{equation}}',
     [C('newcommand', B(C('be')), B(C('begin', B(T('equation'))))),
      C('newcommand', B(C('ee')), B(C('end', B(T('equation')))))]),
    (r'\fbox{\begin{a}y\end{a}}',
     [C('fbox', B(('env', 'a', [], [T('y')])))]),
]


def main():
    bad = 0
    for source, expected in CASES:
        try:
            got = seq(TexSoup(source).expr._contents)
        except Exception as e:                      # noqa
            got = 'raised %s: %s' % (type(e).__name__, e)
        if got != expected:
            bad += 1
            print('VIOLATION for source %r' % source)
            print('   written : %r' % (expected,))
            print('   tree    : %r' % (got,))
    if bad:
        print('%d of %d documents are not mirrored by their tree'
              % (bad, len(CASES)))
        return 1
    print('all %d documents are mirrored by their tree' % len(CASES))
    return 0


if __name__ == '__main__':
    sys.exit(main())
