"""C02 demo: the parse tree mirrors the construct structure of the document.

Documents whose text runs are written in a non-Latin / accented alphabet and
follow a command name without a blank (usual in CJK sources, which do not use
blanks between words): the command must keep its name as written, the text
run must stay a text run, and an \\item must own that text.

usage: demo.py <path of a TexSoup checkout>      exit 0 = holds, 1 = violated
"""
import sys

sys.path.insert(0, sys.argv[1])

from TexSoup import TexSoup                                    # noqa: E402
from TexSoup.data import (TexText, TexCmd, TexNamedEnv, BraceGroup,  # noqa
                          BracketGroup, TexEnv)


def shape(expr):
    """Nested, comparable picture of a parsed expression."""
    if isinstance(expr, TexText) or isinstance(expr, str):
        return ('text', str(expr))
    if isinstance(expr, BraceGroup):
        return ('brace', seq(expr._contents))
    if isinstance(expr, BracketGroup):
        return ('bracket', seq(expr._contents))
    if isinstance(expr, TexNamedEnv):
        return ('env', str(expr.name), [shape(a) for a in expr.args],
                seq(expr._contents))
    if isinstance(expr, TexCmd):
        return ('cmd', str(expr.name), [shape(a) for a in expr.args],
                seq(expr._contents))
    if isinstance(expr, TexEnv):
        return ('math', str(expr.begin), seq(expr._contents))
    raise TypeError(type(expr))


def seq(exprs):
    """Shapes of a sibling list; adjacent text runs are one text run."""
    out = []
    for e in exprs:
        s = shape(e)
        if s[0] == 'text' and out and out[-1][0] == 'text':
            out[-1] = ('text', out[-1][1] + s[1])
        else:
            out.append(s)
    return out


def T(s):
    return ('text', s)


CASES = [
    # a Chinese list: no blank between \item and its text
    ('\\begin{itemize}\\item\u7b2c\u4e00\u9879\\item\u7b2c\u4e8c\u9879'
     '\\end{itemize}',
     [('env', 'itemize', [], [
         ('cmd', 'item', [], [T('\u7b2c\u4e00\u9879')]),
         ('cmd', 'item', [], [T('\u7b2c\u4e8c\u9879')]),
     ])]),
    # an accented capital directly behind \item, a second plain item
    ('\\begin{enumerate}\\item\u00c9t\u00e9 chaud\\item hiver'
     '\\end{enumerate}',
     [('env', 'enumerate', [], [
         ('cmd', 'item', [], [T('\u00c9t\u00e9 chaud')]),
         ('cmd', 'item', [], [T(' hiver')]),
     ])]),
    # an argument-less command followed by Cyrillic text, then a command
    # with an argument
    ('\\par\u0422\u0435\u043a\u0441\u0442 \\emph{\u0441\u043b\u043e\u0432'
     '\u043e}',
     [('cmd', 'par', [], []),
      T('\u0422\u0435\u043a\u0441\u0442 '),
      ('cmd', 'emph', [('brace', [T('\u0441\u043b\u043e\u0432\u043e')])],
       [])]),
    # control: the same shapes in ASCII-only spelling
    ('\\begin{itemize}\\item one\\item two\\end{itemize}',
     [('env', 'itemize', [], [
         ('cmd', 'item', [], [T(' one')]),
         ('cmd', 'item', [], [T(' two')]),
     ])]),
]


def main():
    bad = 0
    for source, expected in CASES:
        try:
            got = seq(TexSoup(source).expr._contents)
        except Exception as e:                      # noqa
            got = 'raised %s: %s' % (type(e).__name__, e)
        if got != expected:
            bad += 1
            print('VIOLATION for source %r' % source)
            print('   written : %r' % (expected,))
            print('   tree    : %r' % (got,))
    if bad:
        print('%d of %d documents are not mirrored by their tree'
              % (bad, len(CASES)))
        return 1
    print('all %d documents are mirrored by their tree' % len(CASES))
    return 0


if __name__ == '__main__':
    sys.exit(main())
