#!/usr/bin/env python
"""C09 demo: arguments attach by the one-line-break rule, whatever their body.

usage: demo.py /path/to/TexSoup-checkout
exit 0: property holds on the cases below; exit 1: violated.
"""
import sys

sys.path.insert(0, sys.argv[1])
from TexSoup import TexSoup  # noqa: E402

B, K = 'BraceGroup', 'BracketGroup'

# (source, command name, expected attached groups as (kind, exact body))
CASES = [
    # controls: empty separator / blanks only / body not opening with a switch
    ('\\centering{\\bf Title}', 'centering', [(B, '\\bf Title')]),
    ('\\centering  {\\bf Title}', 'centering', [(B, '\\bf Title')]),
    ('\\centering\n{Title \\bf x}', 'centering', [(B, 'Title \\bf x')]),
    ('\\centering\n{\\large Title}', 'centering', [(B, '\\large Title')]),
    # one line break (with blanks) before a brace group that opens with an
    # old-style font switch: still exactly one line break, so it attaches
    ('\\centering\n{\\bf Title}', 'centering', [(B, '\\bf Title')]),
    ('\\foo[a] \n  {\\it x]y}{b}', 'foo',
     [(K, 'a'), (B, '\\it x]y'), (B, 'b')]),
    ('\\foo{a}\n\t{\\tt b]c}', 'foo', [(B, 'a'), (B, '\\tt b]c')]),
    ('$\\mytitle{x}\n{\\em y}$', 'mytitle', [(B, 'x'), (B, '\\em y')]),
    ('\\begin{center}\\hdr \n {\\sc a}{b}\\end{center}', 'hdr',
     [(B, '\\sc a'), (B, 'b')]),
    # a blank line still detaches: the later group stays in the text
    ('\\centering\n\n{\\bf Title}', 'centering', []),
]


def main():
    bad = []
    for src, name, expected in CASES:
        try:
            soup = TexSoup(src)
            node = soup.find(name)
            got = [(type(a).__name__, str(a)[1:-1]) for a in node.args]
        except Exception as e:  # noqa
            bad.append((src, 'raised %s: %s' % (type(e).__name__, e)))
            continue
        if got != expected:
            bad.append((src, 'args of \\%s are %r, expected %r'
                        % (name, got, expected)))
    for src, why in bad:
        print('C09 VIOLATED for %r: %s' % (src, why))
    if bad:
        return 1
    print('C09 holds on %d cases' % len(CASES))
    return 0


if __name__ == '__main__':
    sys.exit(main())
