#!/usr/bin/env python
"""C09 demo: an attaching separator is blanks with at most one line break,
however long the run of blanks is.

usage: demo.py /path/to/TexSoup-checkout
exit 0: property holds on the cases below; exit 1: violated.
"""
import sys

sys.path.insert(0, sys.argv[1])
from TexSoup import TexSoup  # noqa: E402

B, K = 'BraceGroup', 'BracketGroup'


def cases():
    out = []
    # separators made of spaces/tabs with at most one line break: attaching,
    # whatever their length
    for n in (1, 8, 31, 32, 33, 40, 64, 100):
        pad = ' ' * n
        out.append(('\\foo' + pad + '{a}', 'foo', [(B, 'a')]))
        out.append(('\\foo\n' + pad + '{a}', 'foo', [(B, 'a')]))
        out.append(('\\foo[x]' + pad + '\n{a]b}{c}', 'foo',
                    [(K, 'x'), (B, 'a]b'), (B, 'c')]))
        out.append(('\\foo' + '\t' * n + '[x{]}][y] \n {a}', 'foo',
                    [(K, 'x{]}'), (K, 'y'), (B, 'a')]))
        out.append(('\\begin{itemize}\\item \\bar{a}\n' + pad + '{b[}\n'
                    '\\end{itemize}', 'bar', [(B, 'a'), (B, 'b[')]))
        # a blank line detaches, whatever the amount of blanks around it
        out.append(('\\foo[x]' + pad + '\n' + pad + '\n{a}', 'foo',
                    [(K, 'x')]))
        out.append(('\\foo' + pad + '\n\n' + pad + '[x]{a}', 'foo', []))
    return out


def main():
    bad = []
    all_cases = cases()
    for src, name, expected in all_cases:
        try:
            node = TexSoup(src).find(name)
            got = [(type(a).__name__, str(a)[1:-1]) for a in node.args]
        except Exception as e:  # noqa
            bad.append((src, 'raised %s: %s' % (type(e).__name__, e)))
            continue
        if got != expected:
            bad.append((src, 'args of \\%s are %r, expected %r'
                        % (name, got, expected)))
    for src, why in bad:
        print('C09 VIOLATED for %r: %s' % (src, why))
    if bad:
        return 1
    print('C09 holds on %d cases' % len(all_cases))
    return 0


if __name__ == '__main__':
    sys.exit(main())
