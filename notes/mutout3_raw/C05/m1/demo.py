"""C05 demo 1: replacing a node by a list that contains the node itself.

Wrapping a node in place (`n.replace_with('(', n, ')')`) or duplicating it
with a separator (`n.replace_with(n.copy(), ' and ', n.copy())`) must
substitute exactly the span of `n` by the serialisation of the replacement
list; every other character stays.

usage: demo.py <path of a TexSoup checkout>
exit 0: property holds, exit 1: violated
"""
import sys

sys.path.insert(0, sys.argv[1])

from TexSoup import TexSoup  # noqa: E402

failures = []


def check(label, src, pick, make_nodes, start, end):
    """Replace the node `pick(soup)` (span src[start:end]) by make_nodes(node)
    and compare with the textual substitution."""
    soup = TexSoup(src)
    if str(soup) != src:
        failures.append('%s: document does not round-trip' % label)
        return
    node = pick(soup)
    span = src[start:end]
    if str(node) != span:
        failures.append('%s: picked %r, wanted %r' % (label, str(node), span))
        return
    nodes = make_nodes(node)
    new_text = ''.join(str(n) for n in nodes)
    expected = src[:start] + new_text + src[end:]
    try:
        node.replace_with(*nodes)
    except Exception as exc:  # an edit inside the domain must not fail
        failures.append('%s: replace_with raised %r' % (label, exc))
        return
    got = str(soup)
    if got != expected:
        failures.append('%s:\n  source   %r\n  expected %r\n  got      %r'
                        % (label, src, expected, got))


# control cases: fresh replacement nodes / strings (1..3 items)
src = r'\begin{doc}a \x{1} b \y c\end{doc}'
s, e = src.index(r'\x{1}'), src.index(r'\x{1}') + len(r'\x{1}')
check('fresh strings, body', src, lambda t: t.doc.x,
      lambda n: ('(', 'NEW', ')'), s, e)
check('fresh node, body', src, lambda t: t.doc.x,
      lambda n: (TexSoup(r'\new{n}').new, ' '), s, e)

# wrap a node in place: body of an environment
check('wrap in body', src, lambda t: t.doc.x,
      lambda n: ('(', n, ')'), s, e)

# wrap a node that sits in a brace argument
src2 = r'\section{see \ref{a} here} tail'
s2 = src2.index(r'\ref{a}')
check('wrap in argument', src2, lambda t: t.section.ref,
      lambda n: ('[', n, ']'), s2, s2 + len(r'\ref{a}'))

# duplicate a node in place with a separator, using the documented .copy()
src3 = '\\begin{itemize}\n\\item one\n\\item two\n\\end{itemize}'
s3 = src3.index('\\item two\n')
check('duplicate item', src3, lambda t: list(t.find_all('item'))[1],
      lambda n: (n.copy(), '% again\n', n.copy()), s3, s3 + len('\\item two\n'))

# node first, text after it
src4 = r'{\a\b\c}'
s4 = src4.index(r'\b')
check('node then text, group', src4, lambda t: t.find('b'),
      lambda n: (n, '!'), s4, s4 + 2)
# text first, node after it
check('text then node, group', src4, lambda t: t.find('b'),
      lambda n: ('!', n), s4, s4 + 2)

if failures:
    print('C05 VIOLATED: a replacement list that contains the replaced node')
    for f in failures:
        print(' -', f)
    sys.exit(1)
print('C05 holds on the checked replacements')
sys.exit(0)
