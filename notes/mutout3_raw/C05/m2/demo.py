"""C05 demo 2: replacing one text run must not touch any other place.

Short edit histories, each step checked against the expected text:
a text run is copied to a second place with the documented `.copy()` idiom
(append / insert / replace_with), then ONE of the two occurrences is
replaced with a single string.  Only the span of the targeted occurrence
may change.

usage: demo.py <path of a TexSoup checkout>
exit 0: property holds, exit 1: violated
"""
import sys

sys.path.insert(0, sys.argv[1])

from TexSoup import TexSoup  # noqa: E402
from TexSoup.data import TexText  # noqa: E402

failures = []


def texts(node):
    """Text-run nodes among the direct contents of `node`."""
    return [n for n in node.all if isinstance(n.expr, TexText)]


def groups(node):
    return [n for n in node.all if n.name == 'BraceGroup']


def expect(label, soup, expected):
    got = str(soup)
    if got != expected:
        failures.append('%s:\n  expected %r\n  got      %r'
                        % (label, expected, got))
        return False
    return True


def run(label, steps):
    try:
        steps()
    except Exception as exc:  # edits inside the domain must not fail
        failures.append('%s: raised %r' % (label, exc))


# control: plain replacement of a text run that has a textual twin
def control():
    soup = TexSoup(r'\begin{a}x \p x \q\end{a}')
    texts(soup.a)[1].replace_with('Z')
    expect('control twin', soup, r'\begin{a}x \pZ\q\end{a}')
    soup = TexSoup(r'\begin{a}x \p x \q\end{a}')
    texts(soup.a)[0].replace_with('Z', 'W')
    expect('control two strings', soup, r'\begin{a}ZW\p x \q\end{a}')


# A: copy a text run into another environment, then replace the copy
def case_a():
    soup = TexSoup(r'\begin{a}x \p\end{a}\begin{b}y\end{b}')
    t = texts(soup.a)[0]
    soup.b.append(t.copy())
    if not expect('A step 1 (append copy)', soup,
                  r'\begin{a}x \p\end{a}\begin{b}yx \end{b}'):
        return
    texts(soup.b)[1].replace_with('Z')
    expect('A step 2 (replace the copy in b)', soup,
           r'\begin{a}x \p\end{a}\begin{b}yZ\end{b}')


# B: a text run is used as replacement of a command elsewhere, then the
#    ORIGINAL run is replaced
def case_b():
    soup = TexSoup(r'{one \q two} and {\r}')
    g1, g2 = groups(soup)
    t = texts(g1)[0]
    g2.find('r').replace_with(t.copy())
    if not expect('B step 1 (text as replacement)', soup,
                  r'{one \q two} and {one }'):
        return
    g1 = groups(soup)[0]
    texts(g1)[0].replace_with('ONE')
    expect('B step 2 (replace the original run)', soup,
           r'{ONE\q two} and {one }')


# C: same inside list items, with insert at an index
def case_c():
    soup = TexSoup('\\begin{itemize}\\item ab\\item cd\\end{itemize}')
    first, second = list(soup.find_all('item'))
    t = texts(first)[0]
    second.insert(0, t.copy())
    if not expect('C step 1 (insert copy at 0)', soup,
                  '\\begin{itemize}\\item ab\\item ab cd\\end{itemize}'):
        return
    first, second = list(soup.find_all('item'))
    texts(second)[0].replace_with('!')
    expect('C step 2 (replace the copy in 2nd item)', soup,
           '\\begin{itemize}\\item ab\\item! cd\\end{itemize}')


run('control', control)
run('A', case_a)
run('B', case_b)
run('C', case_c)

if failures:
    print('C05 VIOLATED: replacing one text run changed another place')
    for f in failures:
        print(' -', f)
    sys.exit(1)
print('C05 holds on the checked histories')
sys.exit(0)
