"""C08 demo: serialisation conserves the characters of any parseable input.

Usage: demo.py <path-of-a-TexSoup-checkout>
Exit 0 if the property holds on every probe, exit 1 (with a report) if not.
"""
import re
import sys

sys.path.insert(0, sys.argv[1])

from TexSoup import TexSoup  # noqa: E402

# the only permitted difference: whitespace runs directly before `{` or `[`
_PERMITTED = re.compile(r'[ \t\r\n]+(?=[{\[])')


def normal(s):
    return _PERMITTED.sub('', s)


PROBES = [
    # ordinary documents with Unix line ends (controls)
    '\\maketitle\n\\section{Intro}\nText $x$ and \\emph{more}.\n',
    '\\begin{itemize}\n\\item one\n\\item two\n\\end{itemize}\n',
    # the same kind of documents with Windows (CRLF) line ends
    '\\maketitle\r\n\\section{Intro}\r\nText $x$ and \\emph{more}.\r\n',
    '\\begin{itemize}\r\n\\item\r\n\\item two\r\n\\end{itemize}\r\n',
    '\\foo\r\n\\bar',
    '\\foo{a}\r\n$x$',
    '{\\bfseries\r\n}',
    '\\foo[a]  \r\n  %c\r\n',
    '\\foo\r\n',
    # CRLF before an argument group: dropping it is permitted
    '\\foo\r\n{a}\r\n[b]',
]

bad = []
for src in PROBES:
    try:
        out = str(TexSoup(src))
    except Exception:       # does not parse in strict mode: outside the domain
        continue
    if normal(out) != normal(src):
        bad.append((src, out))

for src, out in bad:
    print('C08 VIOLATED: input  %r\n              output %r' % (src, out))
sys.exit(1 if bad else 0)
