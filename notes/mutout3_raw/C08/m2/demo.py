"""C08 demo: serialisation conserves the characters of any parseable input.

Usage: demo.py <path-of-a-TexSoup-checkout>
Exit 0 if the property holds on every probe, exit 1 (with a report) if not.
Probes that do not parse in strict mode are outside the property's domain and
are skipped.
"""
import re
import sys

sys.path.insert(0, sys.argv[1])

from TexSoup import TexSoup  # noqa: E402

# the only permitted difference: whitespace runs directly before `{` or `[`
_PERMITTED = re.compile(r'[ \t\r\n]+(?=[{\[])')


def normal(s):
    return _PERMITTED.sub('', s)


PROBES = [
    # controls: ordinary environments with arguments behind the name
    r'\begin{minipage}[t]{3cm}x\end{minipage}',
    r'\begin{tabular}{cc}a & b\end{tabular} tail',
    r'\begin {itemize} \item a \end{itemize}',
    # bracket group(s) between \begin and the name group
    r'\begin[t]{minipage}{3cm}x\end{minipage}',
    r'\begin[a]{e}x\end{e}',
    r'\begin [a] [b] {e}{c}x\end{e}y',
    r'\begin[]{itemize}\item a\end{itemize}',
    r'\begin[x]{equation}a+b\end{equation}',
    r'\begin[x]{verbatim} raw \end{verbatim}',
    r'\textbf{\begin[{k}]{e}\end{e}}',
]

bad = []
for src in PROBES:
    try:
        out = str(TexSoup(src))
    except Exception:       # does not parse in strict mode: outside the domain
        continue
    if normal(out) != normal(src):
        bad.append((src, out))

for src, out in bad:
    print('C08 VIOLATED: input  %r\n              output %r' % (src, out))
sys.exit(1 if bad else 0)
