"""C15 demo: a history of argument-list edits and string assignments, replayed
on the tree and on a plain reference model (per command: name + list of
argument texts).  Nodes that are not the target of a step must not change.

usage: demo.py <path of a TexSoup checkout>
exit 0 = property holds, exit 1 = violated
"""
import sys

sys.path.insert(0, sys.argv[1])

from TexSoup import TexSoup  # noqa: E402

failures = []


def serialise(model):
    return ''.join('\\' + name + ''.join(args) + tail
                   for name, args, tail in model)


def check(step, soup, model):
    want = serialise(model)
    got = str(soup)
    if got != want:
        failures.append('%s: tree gives %r, reference model gives %r'
                        % (step, got, want))
    # view through search results must agree with the model as well
    for name, args, _ in model:
        seen = [str(a) for a in soup.find(name).args]
        if seen != args:
            failures.append('%s: args of \\%s are %r, reference model has %r'
                            % (step, name, seen, args))


def run(doc, model, history):
    soup = TexSoup(doc)
    check('parse', soup, model)
    for n, (op, which, value) in enumerate(history):
        name, args, _ = model[which]
        node = soup.find(name)
        if op == 'append':            # unparsed argument string
            node.args.append(value)
            args.append(value)
        elif op == 'insert0':
            node.args.insert(0, value)
            args.insert(0, value)
        elif op == 'string':          # command with exactly one argument
            assert len(args) == 1
            node.string = value
            args[0] = args[0][0] + value + args[0][-1]
        elif op == 'pop':
            node.args.pop()
            args.pop()
        check('step %d (%s %r on \\%s)' % (n + 1, op, value, name),
              soup, model)


# history 1: the same argument text is given to two different commands, then
# only one of them is edited
run(r'\alpha, \beta and \gamma{z}.',
    [['alpha', [], ', '], ['beta', [], ' and '], ['gamma', ['{z}'], '.']],
    [('append', 0, '{x}'),
     ('append', 1, '{x}'),
     ('string', 0, 'changed'),      # targets \alpha only
     ('append', 2, '[o]'),
     ('pop', 2, None)])

# history 2: an argument is added, edited, and the original text is added
# again later on (to the same command and to another one)
run(r'\one \two{k}',
    [['one', [], ' '], ['two', ['{k}'], '']],
    [('append', 0, '[opt]'),
     ('string', 0, 'new'),
     ('pop', 0, None),
     ('append', 0, '[opt]'),        # must be the text given, not the edited one
     ('insert0', 1, '[opt]')])

# history 3: a fresh document parsed later in the same process
run(r'\three',
    [['three', [], '']],
    [('append', 0, '{x}'),
     ('append', 0, '[opt]')])

if failures:
    print('C15 VIOLATED')
    for f in failures:
        print('  ' + f)
    sys.exit(1)
print('C15 holds on these histories')
sys.exit(0)
