"""C15 demo: argument-list edits with plain strings vs. a reference model.

The reference model of a command is simply (name, [argument strings]); an edit
with an unparsed argument string adds exactly that string to the list, and the
serialised command is the concatenation.  The argument strings used here have
a body that itself starts / ends with a delimiter character (nested groups),
which is perfectly legal new material.

usage: demo.py <path of a TexSoup checkout>
exit 0 = property holds, exit 1 = violated
"""
import sys

sys.path.insert(0, sys.argv[1])

from TexSoup import TexSoup  # noqa: E402

failures = []


def check(step, soup, model_text):
    got = str(soup)
    if got != model_text:
        failures.append('%s: tree gives %r, reference model gives %r'
                        % (step, got, model_text))


def serialise(model):
    return ''.join('\\' + name + ''.join(args) + tail
                   for name, args, tail in model)


# document: two commands separated by text
soup = TexSoup(r'\newcommand{\pair}[2] and \frac{a}{b}.')
model = [['newcommand', ['{\\pair}', '[2]'], ' and '],
         ['frac', ['{a}', '{b}'], '.']]
check('parse', soup, serialise(model))

history = [
    ('append', 0, None, '{{#1}{#2}}'),     # definition body made of two groups
    ('insert', 1, 0, '{{a}}'),             # doubly braced numerator
    ('append', 1, None, '[[x]]'),          # bracketed option holding brackets
    ('insert', 0, 1, '[{]}]'),             # harmless: brace inside brackets
    ('pop', 1, 1, None),
    ('append', 1, None, '{\\bar{b}}'),     # body ending in a closing brace
]

for n, (op, which, index, text) in enumerate(history):
    node = soup.find(model[which][0])
    if op == 'append':
        node.args.append(text)
        model[which][1].append(text)
    elif op == 'insert':
        node.args.insert(index, text)
        model[which][1].insert(index, text)
    elif op == 'pop':
        node.args.pop(index)
        model[which][1].pop(index)
    check('step %d (%s %r on \\%s)' % (n + 1, op, text, model[which][0]),
          soup, serialise(model))
    # the argument list seen through the node must agree with the text
    seen = [str(a) for a in soup.find(model[which][0]).args]
    if seen != model[which][1]:
        failures.append('step %d: args of \\%s are %r, reference model has %r'
                        % (n + 1, model[which][0], seen, model[which][1]))

if failures:
    print('C15 VIOLATED')
    for f in failures:
        print('  ' + f)
    sys.exit(1)
print('C15 holds on this history')
sys.exit(0)
