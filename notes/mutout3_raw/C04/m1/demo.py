"""Demonstration for property C04 (navigation views of a node are mutually
consistent).

usage: python demo.py /path/to/TexSoup-checkout
exit 0: the property holds on the documents below; exit 1: it is violated.

The documents contain text leaves that consist only of "rare" blank characters
(non-breaking space, form feed, vertical tab, ideographic space, ...).  Such a
leaf is whitespace-only text (str.isspace), so it has to be absent from
`contents`, iteration, indexing, `descendants` and `text`, exactly like a leaf
made of ordinary blanks or line breaks.
"""
import sys

sys.path.insert(0, sys.argv[1])

from TexSoup import TexSoup            # noqa: E402
from TexSoup.data import TexNode, TexExpr, TexText   # noqa: E402

problems = []


def fail(doc, node, msg):
    problems.append('doc %r, node %r: %s' % (doc, str(node)[:40], msg))


def leaf(x):
    """plain text of an entry of expr.all, or None for an expression"""
    if isinstance(x, TexText):
        return x._text
    if isinstance(x, str):
        return x
    return None


def same(got, want):
    """entry of a node-level view against an entry of expr.all"""
    text = leaf(want)
    if text is not None:
        return isinstance(got, str) and not isinstance(got, TexNode) \
            and str(got) == str(text)
    return isinstance(got, TexNode) and got.expr is want


def same_list(got, want):
    return len(got) == len(want) and all(same(g, w) for g, w in zip(got, want))


def check_node(doc, soup, node, seen_depth=0):
    complete = list(node.expr.all)
    want = [x for x in complete
            if not (leaf(x) is not None and str(leaf(x)).isspace())]

    contents = list(node.contents)
    if not same_list(contents, want):
        fail(doc, node, 'contents %r is not expr.all without whitespace-only '
             'text %r' % (contents, want))
        return

    # children: contents without text
    want_children = [x for x in want if leaf(x) is None]
    children = list(node.children)
    if not same_list(children, want_children):
        fail(doc, node, 'children %r != contents without text %r'
             % (children, want_children))

    # iteration and indexing follow contents
    iterated = list(iter(node))
    if not same_list(iterated, want):
        fail(doc, node, 'iteration %r does not follow contents' % iterated)
    for i in range(-len(want), len(want)):
        if not same(node[i], want[i]):
            fail(doc, node, 'node[%d] = %r does not follow contents' %
                 (i, node[i]))

    # parents of what the views hand out
    for view, entries in (('contents', contents), ('children', children),
                          ('iteration', iterated),
                          ('indexing', [node[i] for i in range(len(want))])):
        for entry in entries:
            if isinstance(entry, TexNode) and entry.parent is not node:
                fail(doc, node, '%s: parent of %r is %r' %
                     (view, entry, entry.parent))

    # descendants: transitive closure of contents, every node once
    def closure(n):
        out = []
        for c in n.contents:
            out.append(c)
        for c in n.contents:
            if isinstance(c, TexNode):
                out.extend(closure(c))
        return out

    def key(x):
        return ('n', id(x.expr)) if isinstance(x, TexNode) else ('s', id(x))

    got_desc = list(node.descendants)
    want_desc = closure(node)
    if sorted(map(key, got_desc)) != sorted(map(key, want_desc)):
        fail(doc, node, 'descendants %r are not the closure of contents %r'
             % (got_desc, want_desc))
    for d in got_desc:
        if isinstance(d, str) and not isinstance(d, TexNode) and d.isspace():
            fail(doc, node, 'descendants contain whitespace-only text %r' % d)
        if isinstance(d, TexNode):
            top, steps = d, 0
            while top.parent is not None and steps < 1000:
                top, steps = top.parent, steps + 1
            if top.expr is not soup.expr and node is soup:
                fail(doc, node, 'parent walk from %r ends at %r' % (d, top))

    # text: the non-blank text leaves in document order
    def leaves(n):
        out = []
        for c in n.contents:
            if isinstance(c, TexNode):
                out.extend(leaves(c))
            else:
                out.append(c)
        return out

    got_text = list(node.text)
    want_text = [t for t in leaves(node)]
    if [str(t) for t in got_text] != [str(t) for t in want_text]:
        fail(doc, node, 'text %r != text leaves in document order %r'
             % (got_text, want_text))
    for t in got_text:
        if str(t).isspace():
            fail(doc, node, 'text lists a blank leaf %r' % t)

    for c in contents:
        if isinstance(c, TexNode):
            check_node(doc, soup, c, seen_depth + 1)


def check(doc):
    soup = TexSoup(doc)
    whole = ''.join(str(x) for x in soup.expr.all)
    if whole != doc:
        fail(doc, soup, 'root content list concatenates to %r' % whole)
    check_node(doc, soup, soup)


NBSP, FF, VT, IDEO, THIN = '\u00a0', '\x0c', '\x0b', '\u3000', '\u2009'

DOCS = [
    # ordinary blanks: filtered on any tree
    'a\\textbf{b} \\emph{c}\n\\textit{d}',
    # a non-breaking space between two commands (typical paste artefact)
    'see \\ref{fig}' + NBSP + '\\cite{knuth} and more',
    # form feed used as a page separator between two sections
    '\\section{One}text\n\\par' + FF + '\\section{Two}more',
    # inside an argument, a group, math, an item, an environment
    '\\textbf{\\emph{x}' + NBSP + '\\emph{y}}',
    'a{\\bf b}' + VT + '{\\it c}',
    '$\\alpha' + THIN + '\\beta$',
    '\\begin{itemize}\n\\item \\textbf{k}' + IDEO + '\\emph{v}\n'
    '\\item[' + NBSP + ']q\n\\end{itemize}',
    '\\begin{center}' + FF + '\\end{center}tail',
    '{' + NBSP + '}',
    # blank mixed with ordinary whitespace
    '\\foo \n' + NBSP + '\\bar',
]

for d in DOCS:
    try:
        check(d)
    except Exception as e:   # a crash is not what is being demonstrated
        problems.append('doc %r: unexpected %s: %s' % (d, type(e).__name__, e))

if problems:
    print('C04 VIOLATED (%d findings):' % len(problems))
    for p in problems[:12]:
        print(' -', p)
    sys.exit(1)
print('C04 holds on %d documents' % len(DOCS))
sys.exit(0)
