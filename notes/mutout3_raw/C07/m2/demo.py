"""C07 demo 2: a well-formed document (no math, verbatim or lists) that lost one
closing brace, one closing bracket of an argument or one \\end{name} is
rejected by strict parsing and accepted by tolerant parsing, and the tolerant
output is the input plus inserted closers only.

The documents are handed to TexSoup the way the documentation shows for files
(`with open(...) as f: TexSoup(f)`): as a file object / a list of lines, which
the API accepts besides a plain string.  The same checks are made for the plain
string so that the two ways of passing the document can be compared.
"""
import io
import sys

sys.path.insert(0, sys.argv[1])

from TexSoup import TexSoup  # noqa: E402

GOOD = (
    "\\documentclass[a4paper]{article}\n"
    "\\begin{document}\n"
    "\\section[short]{A long title}\n"
    "Some \\textbf{bold \\emph{and nested}} text.\n"
    "\\begin{center}\n"
    "centred \\textit{words}\n"
    "\\end{center}\n"
    "\\end{document}\n"
)

# (description, text to remove, occurrence index counted from the left)
LOSSES = [
    ('closing brace of \\textbf', 'nested}}', 'nested}'),
    ('closing bracket of \\section', '[short]', '[short'),
    ('\\end{center}', '\\end{center}\n', ''),
    ('\\end{document}', '\\end{document}\n', ''),
]


def is_input_plus_closers(src, out):
    """True if `out` is `src` with only `}`, `]`, `\\end{name}` inserted."""
    import re
    closer = re.compile(r'\}|\]|\\end\{[^{}]*\}')

    sys.setrecursionlimit(10000)
    memo = {}

    def go(i, j):
        key = (i, j)
        if key in memo:
            return memo[key]
        if j == len(out):
            res = i == len(src)
        else:
            res = False
            if i < len(src) and src[i] == out[j] and go(i + 1, j + 1):
                res = True
            if not res:
                m = closer.match(out, j)
                if m and go(i, m.end()):
                    res = True
        memo[key] = res
        return res

    return go(0, 0)


def forms(text):
    yield 'str', lambda: text
    yield 'list of lines', lambda: text.splitlines(True)
    yield 'file object', lambda: io.StringIO(text)


def main():
    bad = 0
    for what, old, new in LOSSES:
        assert GOOD.count(old) == 1
        broken = GOOD.replace(old, new)
        for form, make in forms(broken):
            # strict parsing has to report an error
            try:
                TexSoup(make(), tolerance=0)
            except Exception:
                pass
            else:
                print('VIOLATION [%s, lost %s]: strict parsing accepted the '
                      'damaged document' % (form, what))
                bad += 1
            # tolerant parsing has to succeed ...
            try:
                out = str(TexSoup(make(), tolerance=1))
            except Exception as e:
                print('VIOLATION [%s, lost %s]: tolerant parsing raised %s: %s'
                      % (form, what, type(e).__name__,
                         str(e).splitlines()[0][:80]))
                bad += 1
                continue
            # ... and only insert closers
            if not is_input_plus_closers(broken, out):
                print('VIOLATION [%s, lost %s]: tolerant output is not the '
                      'input plus closers:\n  %r\n  %r'
                      % (form, what, broken, out))
                bad += 1
    # undamaged document: both modes agree, whatever the input form
    for form, make in forms(GOOD):
        if str(TexSoup(make(), tolerance=0)) != str(TexSoup(make(), tolerance=1)):
            print('VIOLATION [%s]: strict and tolerant text differ' % form)
            bad += 1
    if bad:
        sys.exit(1)
    print('C07 holds on the probed inputs')
    sys.exit(0)


if __name__ == '__main__':
    main()
