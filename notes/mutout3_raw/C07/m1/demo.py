"""C07 demo 1: whenever strict parsing succeeds, tolerant parsing must return an
identical tree and text.

The inputs below are accepted by the strict parser.  Each of them has a brace
(or bracket) group that directly contains the control sequence \\end{document}
(a definition of a shorthand for the closer, the usual
\\newcommand{\\enddoc}{\\end{document}} idiom, and a plain group).
"""
import sys

sys.path.insert(0, sys.argv[1])

from TexSoup import TexSoup  # noqa: E402


def dump(node):
    """Structural dump of an expression tree (class, name, args, contents)."""
    from TexSoup.data import TexExpr, TexText
    if isinstance(node, TexText) or not isinstance(node, TexExpr):
        return ('text', str(node))
    return (type(node).__name__, str(node.name),
            tuple(dump(a) for a in node.args),
            tuple(dump(c) for c in node._contents))


DOCS = [
    # shorthand for the closer, defined in the preamble
    "\\documentclass{article}\n"
    "\\newcommand{\\enddoc}{\\end{document}}\n"
    "\\begin{document}\n"
    "Some \\textbf{bold} text.\n"
    "\\end{document}\n",
    # same, with \def-free providecommand and an optional argument count
    "\\providecommand{\\finish}[0]{\\clearpage\\end{document}}\n"
    "\\begin{document}\nbody\n\\end{document}\n",
    # a plain group that contains the closer as an ordinary control sequence
    "\\begin{document}\ntext {\\small\\end{document}} tail\n\\end{document}\n",
    # a bracket group
    "\\AtEndDocument[\\end{document}]{x}\n",
]


def main():
    bad = 0
    for doc in DOCS:
        try:
            strict = TexSoup(doc, tolerance=0)
        except Exception as e:  # strict must accept these; otherwise skip
            print('NOTE: strict parsing rejected %r: %r' % (doc, e))
            continue
        try:
            tolerant = TexSoup(doc, tolerance=1)
        except Exception as e:
            print('VIOLATION: strict succeeds but tolerant raises %r on %r'
                  % (e, doc))
            bad += 1
            continue
        if str(strict) != str(tolerant):
            print('VIOLATION: strict succeeds, tolerant text differs\n'
                  '  input   : %r\n  strict  : %r\n  tolerant: %r'
                  % (doc, str(strict), str(tolerant)))
            bad += 1
        elif dump(strict.expr) != dump(tolerant.expr):
            print('VIOLATION: strict succeeds, tolerant tree differs\n'
                  '  input   : %r\n  strict  : %r\n  tolerant: %r'
                  % (doc, dump(strict.expr), dump(tolerant.expr)))
            bad += 1
    if bad:
        sys.exit(1)
    print('C07 holds on the probed inputs')
    sys.exit(0)


if __name__ == '__main__':
    main()
