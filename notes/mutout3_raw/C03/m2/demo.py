r"""C03 demo: search must reach the commands, math regions and groups nested
inside the argument of every command, whatever the command is called - here
amsmath's \text{...} inside a cases environment."""
import sys
sys.path.insert(0, sys.argv[1])
from TexSoup import TexSoup
from TexSoup.data import TexCmd, TexEnv, TexGroup

DOC = (r'\begin{equation}' '\n'
       r'f(x) = \begin{cases}' '\n'
       r'x^2 & \text{if $x \geq 0$ and \emph{finite}} \\' '\n'
       r'0 & \text{otherwise \textbf{(by \emph{convention})}}' '\n'
       r'\end{cases}' '\n'
       r'\end{equation}' '\n'
       r'where \emph{f} is \textbf{bold}.' '\n')


def walk(expr, out):
    """Independent enumeration: argument groups, then the body."""
    for arg in expr.args:
        if isinstance(arg, TexGroup):
            for c in arg._contents:
                if isinstance(c, (TexCmd, TexEnv)):
                    out.append(c)
                    walk(c, out)
    for c in expr._contents:
        if isinstance(c, (TexCmd, TexEnv)):
            out.append(c)
            walk(c, out)
    return out


def main():
    soup = TexSoup(DOC)
    problems = []
    roots = [soup] + [n for n in soup.descendants if hasattr(n, 'expr')]
    for root in roots:
        nodes = walk(root.expr, [])
        names = sorted({str(n.name) for n in nodes} | {'absentname'})
        for name in names:
            expected = [id(n) for n in nodes if str(n.name) == name]
            found = root.find_all(name)
            got = [id(n.expr) for n in found]
            if sorted(expected) != sorted(got):
                problems.append('root %r: find_all(%r) returned %d node(s), '
                                'the tree holds %d: %r' % (
                                    str(root)[:30], name, len(got),
                                    len(expected), [str(n) for n in found]))
            if root.count(name) != len(found):
                problems.append('count(%r) != len(find_all)' % name)
            first = root.find(name)
            if (first is None) != (not found) or (
                    found and first.expr is not found[0].expr):
                problems.append('find(%r) is not find_all(...)[0]' % name)
            if name.isalpha() and not hasattr(type(root), name):
                attr = getattr(root, name)
                if (attr is None) != (first is None) or (
                        attr is not None and attr.expr is not first.expr):
                    problems.append('attribute .%s differs from find' % name)
    if problems:
        print('C03 VIOLATED')
        for p in problems:
            print('  ' + p)
        return 1
    print('C03 holds on this document')
    return 0


if __name__ == '__main__':
    sys.exit(main())
