r"""C03 demo: search by name must return exactly the commands AND environments
of that name.  The document uses the same name both as a declaration command
(\small, \center) and as an environment (\begin{small}, \begin{center}) -
ordinary LaTeX, every declaration has an environment form."""
import sys
sys.path.insert(0, sys.argv[1])
from TexSoup import TexSoup
from TexSoup.data import TexCmd, TexEnv, TexGroup

DOC = (r'\section{Sizes}' '\n'
       r'Text {\small fine print} and more.' '\n'
       r'\begin{small}An \emph{entire} paragraph.\end{small}' '\n'
       r'\begin{center}{\center nested} \textbf{x}\end{center}' '\n')


def walk(expr, out):
    """Independent enumeration: argument groups, then the body."""
    for arg in expr.args:
        if isinstance(arg, TexGroup):
            for c in arg._contents:
                if isinstance(c, (TexCmd, TexEnv)):
                    out.append(c)
                    walk(c, out)
    for c in expr._contents:
        if isinstance(c, (TexCmd, TexEnv)):
            out.append(c)
            walk(c, out)
    return out


def main():
    soup = TexSoup(DOC)
    problems = []
    roots = [soup] + [n for n in soup.descendants if hasattr(n, 'expr')]
    for root in roots:
        nodes = walk(root.expr, [])
        names = sorted({str(n.name) for n in nodes} | {'absentname'})
        for name in names:
            expected = [id(n) for n in nodes if str(n.name) == name]
            found = root.find_all(name)
            got = [id(n.expr) for n in found]
            if sorted(expected) != sorted(got):
                problems.append('root %r: find_all(%r) returned %d node(s), '
                                'the tree holds %d: %r' % (
                                    str(root)[:30], name, len(got),
                                    len(expected), [str(n) for n in found]))
            if root.count(name) != len(found):
                problems.append('count(%r) != len(find_all)' % name)
            first = root.find(name)
            if (first is None) != (not found) or (
                    found and first.expr is not found[0].expr):
                problems.append('find(%r) is not find_all(...)[0]' % name)
            if name.isalpha() and not hasattr(type(root), name):
                attr = getattr(root, name)
                if (attr is None) != (first is None) or (
                        attr is not None and attr.expr is not first.expr):
                    problems.append('attribute .%s differs from find' % name)
    if problems:
        print('C03 VIOLATED')
        for p in problems:
            print('  ' + p)
        return 1
    print('C03 holds on this document')
    return 0


if __name__ == '__main__':
    sys.exit(main())
