"""C14 demo 1: a renamed environment must be visible to subsequent searches,
whichever of the supported search keys is used (name, \\begin{..} delimiter,
\\end{..} delimiter, \\begin{..} followed by the arguments).

usage: demo.py <path of a TexSoup checkout>
exit 0: property holds, exit 1: property violated
"""
import sys

sys.path.insert(0, sys.argv[1])

from TexSoup import TexSoup  # noqa: E402

DOC = (r'pre \begin{quote}[x]Hello \textbf{w}\end{quote} mid '
       r'\begin{quote}Other\end{quote} post')
EXPECTED = (r'pre \begin{center}[x]Hello \textbf{w}\end{center} mid '
            r'\begin{quote}Other\end{quote} post')
RENAMED = r'\begin{center}[x]Hello \textbf{w}\end{center}'
UNTOUCHED = r'\begin{quote}Other\end{quote}'

problems = []


def check(what, got, want):
    if got != want:
        problems.append('%s: got %r, expected %r' % (what, got, want))


def searches(soup, label):
    """every way of searching for the two environments"""
    def found(key):
        return [str(node) for node in soup.find_all(key)]
    check(label + ": find_all('center')", found('center'), [RENAMED])
    check(label + ": find_all('quote')", found('quote'), [UNTOUCHED])
    check(label + r": find_all('\begin{center}')",
          found(r'\begin{center}'), [RENAMED])
    check(label + r": find_all('\end{center}')",
          found(r'\end{center}'), [RENAMED])
    check(label + r": find_all('\begin{center}[x]')",
          found(r'\begin{center}[x]'), [RENAMED])
    check(label + r": find_all('\begin{quote}')",
          found(r'\begin{quote}'), [UNTOUCHED])
    check(label + r": find_all('\end{quote}')",
          found(r'\end{quote}'), [UNTOUCHED])
    check(label + r": count('\begin{quote}[x]')",
          soup.count(r'\begin{quote}[x]'), 0)


soup = TexSoup(DOC)
target = soup.find('quote')
target.name = 'center'

# exactly the two delimiters changed
check('serialised document', str(soup), EXPECTED)
# the change is visible to subsequent searches on the edited tree ...
searches(soup, 'edited tree')
# ... and the re-parsed text shows the same change
searches(TexSoup(str(soup)), 're-parsed text')

if problems:
    print('C14 violated after renaming an environment quote -> center:')
    for problem in problems:
        print('  ' + problem)
    sys.exit(1)
print('C14 holds')
sys.exit(0)
