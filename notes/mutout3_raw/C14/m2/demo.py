"""C14 demo 2: slicing a node's argument list, re-ordering the node's list in
place and assigning a previously taken slice each change exactly the argument
part of that command - and nothing else, at any step of the history:

  1. saved = node.args[:]      (slicing alone changes nothing)
  2. node.args.reverse()       (the command now shows the reversed arguments)
  3. node.args = saved         (the command shows the saved arguments again)
  4. part = node.args[0:3]; part.pop()
                               (editing a slice that was never assigned
                                changes nothing)

After every step the serialised document, searches and the re-parsed text are
compared with what the step must produce.

usage: demo.py <path of a TexSoup checkout>
exit 0: property holds, exit 1: property violated
"""
import sys

sys.path.insert(0, sys.argv[1])

from TexSoup import TexSoup  # noqa: E402

PRE, POST = r'\section{Intro} see ', r' and \other{a}[b]{c} end'
ORIGINAL = r'\cmd{a}[b]{\emph{c}}'
REVERSED = r'\cmd{\emph{c}}[b]{a}'

problems = []


def check(step, what, got, want):
    if got != want:
        problems.append('step %s, %s: got %r, expected %r'
                        % (step, what, got, want))


def verify(step, soup, command):
    """the document is PRE + command + POST; searches and re-parse agree"""
    check(step, 'serialised document', str(soup), PRE + command + POST)
    for tree, label in ((soup, 'edited tree'),
                        (TexSoup(str(soup)), 're-parsed text')):
        check(step, label + ": str(find('cmd'))", str(tree.find('cmd')),
              command)
        check(step, label + ": arguments of cmd",
              [str(arg) for arg in tree.find('cmd').args],
              [str(arg) for arg in TexSoup(command).find('cmd').args])
        check(step, label + ": count('emph')", tree.count('emph'), 1)
        check(step, label + ": str(find('other'))", str(tree.find('other')),
              r'\other{a}[b]{c}')


soup = TexSoup(PRE + ORIGINAL + POST)
node = soup.find('cmd')

saved = node.args[:]                       # 1. full slice
verify('1 (saved = node.args[:])', soup, ORIGINAL)
check('1 (saved = node.args[:])', 'the slice', str(saved),
      r'{a}[b]{\emph{c}}')

node.args.reverse()                        # 2. in-place re-ordering
verify('2 (node.args.reverse())', soup, REVERSED)

node.args = saved                          # 3. assign the slice taken in 1
verify('3 (node.args = saved)', soup, ORIGINAL)

part = node.args[0:3]                      # 4. edit a slice, never assign it
part.pop()
verify('4 (part = node.args[0:3]; part.pop())', soup, ORIGINAL)

if problems:
    print('C14 violated:')
    for problem in problems:
        print('  ' + problem)
    sys.exit(1)
print('C14 holds')
sys.exit(0)
