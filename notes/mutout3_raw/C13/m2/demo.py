"""C13 demo 2: every position recorded by a fresh parse (commands,
environments, groups, math regions, text tokens, search_regex matches) must
be the offset of that item's first character in the source that was parsed.

usage: demo.py /path/to/TexSoup-checkout      (exit 0: holds, exit 1: violated)
"""
import sys
import unicodedata

sys.path.insert(0, sys.argv[1])

from TexSoup import TexSoup  # noqa: E402
from TexSoup.data import (  # noqa: E402
    TexExpr, TexCmd, TexEnv, TexNamedEnv, TexText)
from TexSoup.utils import Token  # noqa: E402


def opening(expr):
    """The characters a node starts with in the source."""
    if isinstance(expr, TexCmd):
        return '\\' + str(expr.name)
    if isinstance(expr, TexNamedEnv):
        return '\\begin'
    if isinstance(expr, TexEnv):        # groups and $ $$ \( \[ regions
        return expr.begin
    raise AssertionError(expr)


def check_tree(expr, src, errors):
    if isinstance(expr, TexText):
        check_token(expr._text, src, errors)
        return
    if expr.name != '[tex]':
        start = opening(expr)
        pos = expr.position
        if not (isinstance(pos, int) and src[pos:pos + len(start)] == start):
            errors.append('%s %r records position %r, but the source has %r '
                          'there' % (type(expr).__name__, str(expr)[:40], pos,
                                     src[pos:pos + len(start)]
                                     if isinstance(pos, int) else None))
    for child in expr.all:
        if isinstance(child, TexExpr):
            check_tree(child, src, errors)
        else:
            check_token(child, src, errors)


def check_token(tok, src, errors):
    if not isinstance(tok, Token):
        return
    pos = tok.position
    if not (isinstance(pos, int) and src[pos:pos + len(tok)] == str(tok)):
        errors.append('text token %r records position %r, but the source '
                      'has %r there' % (str(tok), pos,
                                        src[pos:pos + len(tok)]
                                        if isinstance(pos, int) else None))


def reference_line_col(src, offset):
    before = src[:offset]
    return before.count('\n'), offset - (before.rfind('\n') + 1)


def nodes(expr):
    for child in expr.all:
        if isinstance(child, TexExpr) and not isinstance(child, TexText):
            yield child
            yield from nodes(child)


REGEXES = [r'[a-z]+', r'[0-9]+', r'\S+', r'\s+', r'x']


def check(src):
    errors = []
    soup = TexSoup(src)
    check_tree(soup.expr, src, errors)
    for node in nodes(soup.expr):
        pos = node.position
        if isinstance(pos, int) and 0 <= pos < len(src):
            got = tuple(soup.char_pos_to_line(pos))
            want = reference_line_col(src, pos)
            if got != want:
                errors.append('char_pos_to_line(%d) = %r, the character '
                              'stands at %r' % (pos, got, want))
    for rx in REGEXES:
        for match in soup.search_regex(rx):
            pos = match.position
            if src[pos:pos + len(match)] != str(match):
                errors.append('search_regex(%r) reports %r at %r, but the '
                              'source has %r there'
                              % (rx, str(match), pos,
                                 src[pos:pos + len(match)]))
    return errors


def nfd(s):
    return unicodedata.normalize('NFD', s)


DOCS = [
    # ASCII and precomposed (NFC) controls
    '\\section{Intro} some text $x+1$\n\\begin{itemize}\n\\item one {grp}\n'
    '\\item two \\[ y \\]\n\\end{itemize}\n',
    'Caf\u00e9 \\textbf{cr\u00e8me} \\(x\\) % note\n$$ z $$ end\n',
    # the same kind of text with the accents typed as base letter followed by
    # a combining mark (what macOS file names / some editors and keyboard
    # layouts produce)
    nfd('Caf\u00e9 \\textbf{cr\u00e8me} \\(x\\) % note\n$$ z $$ end\n'),
    nfd('\\section{R\u00e9sum\u00e9}\nna\u00efve text 12 \\emph{x} {grp}\n'
        '\\begin{itemize}\n\\item \u00fcber $x$\n\\item [opt] fin\n'
        '\\end{itemize}\n'),
    'a\u0308 \\begin{verbatim} raw \\x \\end{verbatim} \\[ x \\]\n',
]


def main():
    failed = False
    for src in DOCS:
        try:
            errors = check(src)
        except Exception as e:  # noqa: BLE001
            errors = ['raised %r' % (e,)]
        if errors:
            failed = True
            print('C13 VIOLATED for source %r' % src)
            for line in errors[:6]:
                print('   ', line)
            if len(errors) > 6:
                print('    ... %d problems in total' % len(errors))
    if failed:
        sys.exit(1)
    print('C13 holds: all recorded positions are true source offsets')
    sys.exit(0)


if __name__ == '__main__':
    main()
