"""C13 demo 1: char_pos_to_line must give the true (line, column) of every
offset of a document whose lines are separated by LF.

usage: demo.py /path/to/TexSoup-checkout      (exit 0: holds, exit 1: violated)
"""
import sys

sys.path.insert(0, sys.argv[1])

from TexSoup import TexSoup  # noqa: E402


def reference(src, offset):
    """Line and column of src[offset]; lines are separated by LF only."""
    before = src[:offset]
    line = before.count('\n')
    column = offset - (before.rfind('\n') + 1)
    return line, column


DOCS = [
    # plain ASCII control documents
    'abc\n\\section{One}\nsome text\n',
    '\n\n\\begin{itemize}\n\\item a\n\\item b\n\\end{itemize}',
    # a form feed (page separator, as written by some editors between
    # sections) inside an ordinary text run; the line structure is still LF
    '\\section{One}\nfirst page\x0c\\section{Two}\nsecond page $x$\n',
    # vertical tab and the unicode line / paragraph separators inside text
    'intro \\textbf{bold}\x0b more\nnext line \\emph{x}\n',
    'caf\u00e9 \u2028 menu \\textit{du jour}\n\\begin{center}a \u2029 b\\end{center}\n',
    # NEL and the ascii separators
    'a\x85b {grp} \nc\x1cd\x1de\x1ef\n$math$ tail',
]


def main():
    failures = []
    for src in DOCS:
        soup = TexSoup(src)
        assert str(soup) == src  # sanity: this really is the parsed document
        for offset in range(len(src)):
            try:
                got = tuple(soup.char_pos_to_line(offset))
            except Exception as e:  # noqa: BLE001
                got = 'raised %r' % (e,)
            want = reference(src, offset)
            if got != want:
                failures.append((src, offset, want, got))

    if failures:
        print('C13 VIOLATED: char_pos_to_line does not give the line/column '
              'at which the character stands')
        for src, offset, want, got in failures[:8]:
            print('  source %r\n    offset %d (char %r): expected %r, got %r'
                  % (src, offset, src[offset], want, got))
        print('  (%d wrong offsets in total)' % len(failures))
        sys.exit(1)
    print('C13 holds: every offset of every document maps to its true '
          '(line, column)')
    sys.exit(0)


if __name__ == '__main__':
    main()
