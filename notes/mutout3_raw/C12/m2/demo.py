"""C12 demo 2: a named math environment written inside an extra brace group
(e.g. a font-size scope `{\\small ...}`) in the definition argument of
\\newcommand / \\renewcommand / \\providecommand must still be ONE math node of
that name whose body is exactly the enclosed source.

usage: demo.py <path-of-TexSoup-checkout>      exit 0 = property holds, 1 = broken
"""
import sys

sys.path.insert(0, sys.argv[1])

from TexSoup import TexSoup                                    # noqa: E402
from TexSoup.data import (TexMathModeEnv, TexDisplayMathModeEnv,   # noqa: E402
                          TexMathEnv, TexDisplayMathEnv, TexNamedEnv,
                          TexExpr, TexText)
from TexSoup.tokens import MATH_ENV_NAMES                      # noqa: E402

KINDS = {TexMathModeEnv: '$', TexDisplayMathModeEnv: '$$',
         TexMathEnv: r'\(', TexDisplayMathEnv: r'\['}


def kind_of(expr):
    for cls, kind in KINDS.items():
        if type(expr) is cls:
            return kind
    if isinstance(expr, TexNamedEnv) and expr.name in MATH_ENV_NAMES:
        return 'env:%s' % expr.name
    return None


def math_nodes(expr):
    """outermost math nodes below expr, in document order"""
    found = []
    for child in expr.all:
        if not isinstance(child, TexExpr) or isinstance(child, TexText):
            continue
        kind = kind_of(child)
        if kind is not None:
            found.append((kind, str(child)))
        else:
            found.extend(math_nodes(child))
    return found


# (document, expected outermost math nodes, commands that must be findable)
CASES = [
    # font-size scope around a display equation inside a macro definition
    ('\\newcommand{\\sm}[1]{{\\small\\begin{equation}#1 \\in [0,1)'
     '\\end{equation}}}',
     [('env:equation', '\\begin{equation}#1 \\in [0,1)\\end{equation}')],
     ['in']),
    # the group sits inside a command argument of the definition
    ('\\renewcommand{\\pair}{\\textbf{{\\begin{align*}a &= \\left[ b \\right)'
     '\\end{align*}}}}',
     [('env:align*', '\\begin{align*}a &= \\left[ b \\right)\\end{align*}')],
     []),
    ('\\providecommand{\\unit}{{ \\begin{math}\\alpha\\end{math} }}',
     [('env:math', '\\begin{math}\\alpha\\end{math}')],
     ['alpha']),
    # controls: same shapes outside a definition / delimiter pairs in the group
    ('{\\small\\begin{equation}a \\cup [b\\end{equation}}',
     [('env:equation', '\\begin{equation}a \\cup [b\\end{equation}')],
     ['cup']),
    ('\\newcommand{\\x}{{$a$ \\[b\\] \\(c\\) $$d$$}}',
     [('$', '$a$'), (r'\[', r'\[b\]'), (r'\(', r'\(c\)'), ('$$', '$$d$$')],
     []),
    ('\\def\\y{{\\begin{gather}c\\end{gather}}}',
     [('env:gather', '\\begin{gather}c\\end{gather}')], []),
]

failures = []
for doc, expected, commands in CASES:
    try:
        soup = TexSoup(doc)
        got = math_nodes(soup.expr)
    except Exception as exc:   # a well-formed document must parse
        failures.append('%r: raised %s: %s' % (doc, type(exc).__name__, exc))
        continue
    if got != expected:
        failures.append('%r:\n    expected math nodes %r\n    got %r'
                        % (doc, expected, got))
        continue
    for name in commands:
        if not soup.find_all(name):
            failures.append('%r: command \\%s inside math is not searchable'
                            % (doc, name))

if failures:
    print('C12 VIOLATED')
    for failure in failures:
        print(' -', failure)
    sys.exit(1)
print('C12 holds on all %d cases' % len(CASES))
sys.exit(0)
