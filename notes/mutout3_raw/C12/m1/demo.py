"""C12 demo 1: a display region `$$..$$` that comes after a verbatim-like
environment whose (unparsed) body holds an odd number of dollars must still be
ONE display-math node whose body is exactly the enclosed source.

usage: demo.py <path-of-TexSoup-checkout>      exit 0 = property holds, 1 = broken
"""
import sys

sys.path.insert(0, sys.argv[1])

from TexSoup import TexSoup                                    # noqa: E402
from TexSoup.data import (TexMathModeEnv, TexDisplayMathModeEnv,   # noqa: E402
                          TexMathEnv, TexDisplayMathEnv, TexNamedEnv,
                          TexExpr, TexText)
from TexSoup.tokens import MATH_ENV_NAMES                      # noqa: E402

KINDS = {TexMathModeEnv: '$', TexDisplayMathModeEnv: '$$',
         TexMathEnv: r'\(', TexDisplayMathEnv: r'\['}


def kind_of(expr):
    for cls, kind in KINDS.items():
        if type(expr) is cls:
            return kind
    if isinstance(expr, TexNamedEnv) and expr.name in MATH_ENV_NAMES:
        return 'env:%s' % expr.name
    return None


def math_nodes(expr):
    """outermost math nodes below expr, in document order"""
    found = []
    for child in expr.all:
        if not isinstance(child, TexExpr) or isinstance(child, TexText):
            continue
        kind = kind_of(child)
        if kind is not None:
            found.append((kind, str(child)))
        else:
            found.extend(math_nodes(child))
    return found


# (document, expected outermost math nodes, commands that must be findable)
CASES = [
    # shell snippet with one dollar in a listing, display math afterwards
    ('\\begin{lstlisting}\necho $HOME\n\\end{lstlisting}\n'
     'Then $$x \\in [0,1) \\cup \\left[ 2,3 \\right)$$ holds.',
     [('$$', '$$x \\in [0,1) \\cup \\left[ 2,3 \\right)$$')],
     ['in', 'cup']),
    # the test-suite's own verbatim body, followed by the four delimiter pairs
    ('\\begin{verbatim} $ \\end{verbatim} $a$ and \\(b\\) and \\[c\\] and '
     '$$\\alpha + d$$ and $e$',
     [('$', '$a$'), (r'\(', r'\(b\)'), (r'\[', r'\[c\]'),
      ('$$', '$$\\alpha + d$$'), ('$', '$e$')],
     ['alpha']),
    # three dollars in the verbatim body, adjacent display + inline after it
    ('\\begin{verbatim}\ncost: $1, $2 or $3\n\\end{verbatim}\n$$a$$$b$',
     [('$$', '$$a$$'), ('$', '$b$')],
     []),
    # controls (even number of dollars / no verbatim at all)
    ('\\begin{verbatim} $x$ \\end{verbatim} $$a \\notin (0,1]$$',
     [('$$', '$$a \\notin (0,1]$$')], ['notin']),
    ('$$a$$$b$ \\(c\\)\\[d\\]', [('$$', '$$a$$'), ('$', '$b$'),
                               (r'\(', r'\(c\)'), (r'\[', r'\[d\]')], []),
]

failures = []
for doc, expected, commands in CASES:
    try:
        soup = TexSoup(doc)
        got = math_nodes(soup.expr)
    except Exception as exc:   # a well-formed document must parse
        failures.append('%r: raised %s: %s' % (doc, type(exc).__name__, exc))
        continue
    if got != expected:
        failures.append('%r:\n    expected math nodes %r\n    got %r'
                        % (doc, expected, got))
        continue
    for name in commands:
        if not soup.find_all(name):
            failures.append('%r: command \\%s inside math is not searchable'
                            % (doc, name))

if failures:
    print('C12 VIOLATED')
    for failure in failures:
        print(' -', failure)
    sys.exit(1)
print('C12 holds on all %d cases' % len(CASES))
sys.exit(0)
