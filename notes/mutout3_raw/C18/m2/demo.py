"""C18 demo: extend on an argument list behaves like list.extend.

list.extend accepts ANY iterable - a list, a tuple, another argument list, a
slice, but also one-shot iterators such as a generator expression, map(),
filter(), reversed() or iter().  A node's argument list is extended with each
kind of iterable (group objects and unparsed strings), interleaved with other
list operations, and compared after every step with a plain Python list that
is extended with an equivalent iterable; the owning node must print the
concatenation of the groups in list order.

usage: demo.py <path-to-TexSoup-checkout>   (exit 0: holds, exit 1: violated)
"""
import sys

sys.path.insert(0, sys.argv[1])

from TexSoup import TexSoup  # noqa: E402
from TexSoup.data import BraceGroup, BracketGroup  # noqa: E402

failures = []


def check(node, model, what):
    got = [str(g) for g in node.args]
    if got != model:
        failures.append('%s: list is %r, expected %r' % (what, got, model))
    if len(node.args) != len(model):
        failures.append('%s: len is %d, expected %d'
                        % (what, len(node.args), len(model)))
    if str(node.args) != ''.join(model):
        failures.append('%s: str(args) is %r, expected %r'
                        % (what, str(node.args), ''.join(model)))
    if str(node) != '\\cmd' + ''.join(model):
        failures.append('%s: node prints %r, expected %r'
                        % (what, str(node), '\\cmd' + ''.join(model)))


def fresh():
    """group objects / unparsed strings and what each one prints as"""
    return [(BraceGroup('a'), '{a}'), ('[y]', '[y]'),
            (BracketGroup('b'), '[b]'), ('{x}', '{x}'),
            (BraceGroup('a'), '{a}')]


# every way of handing the same five items to extend
SHAPES = [
    ('list', lambda items: list(items)),
    ('tuple', lambda items: tuple(items)),
    ('generator expression', lambda items: (i for i in items)),
    ('iter()', lambda items: iter(items)),
    ('reversed()', lambda items: reversed(list(reversed(items)))),
    ('map()', lambda items: map(lambda i: i, items)),
    ('filter()', lambda items: filter(lambda i: True, items)),
]

for name, shape in SHAPES:
    node = TexSoup(r'\cmd{a}[b]').cmd
    model = ['{a}', '[b]']
    check(node, model, 'initial')

    pairs = fresh()
    node.args.extend(shape([p[0] for p in pairs]))
    model.extend(shape([p[1] for p in pairs]))
    check(node, model, 'extend(<%s>)' % name)

    # carry on with other operations, then extend once more the same way
    node.args.insert(1, '[k]')
    model.insert(1, '[k]')
    check(node, model, '%s: insert(1, "[k]")' % name)
    popped = node.args.pop()
    if str(popped) != model.pop():
        failures.append('%s: pop() returned %r' % (name, str(popped)))
    check(node, model, '%s: pop()' % name)
    node.args.reverse()
    model.reverse()
    check(node, model, '%s: reverse()' % name)

    pairs = fresh()[:2]
    node.args.extend(shape([p[0] for p in pairs]))
    model.extend(shape([p[1] for p in pairs]))
    check(node, model, 'second extend(<%s>)' % name)

# extending with another node's argument list and with a slice of itself
node = TexSoup(r'\cmd{a}[b]').cmd
other = TexSoup(r'\other{p}[q]{p}').other
model = ['{a}', '[b]']
node.args.extend(other.args)
model.extend(['{p}', '[q]', '{p}'])
check(node, model, 'extend(other.args)')
node.args.extend(node.args[1:3])
model.extend(model[1:3])
check(node, model, 'extend(args[1:3])')
node.args.extend(g for g in other.args[::-1])
model.extend(['{p}', '[q]', '{p}'])
check(node, model, 'extend(generator over other.args[::-1])')

# a malformed string is rejected (TypeError) whatever carries it
for name, shape in SHAPES:
    node = TexSoup(r'\cmd{a}[b]').cmd
    try:
        node.args.extend(shape(['{x]']))
    except TypeError:
        pass
    else:
        failures.append('extend(<%s> with "{x]") was not rejected' % name)
    check(node, ['{a}', '[b]'], 'rejected extend(<%s>)' % name)

if failures:
    print('C18 VIOLATED:')
    for f in failures[:12]:
        print('  -', f)
    if len(failures) > 12:
        print('  ... and %d more' % (len(failures) - 12))
    sys.exit(1)
print('C18 holds')
sys.exit(0)
