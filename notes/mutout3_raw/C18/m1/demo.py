"""C18 demo: unparsed argument strings are coerced to the corresponding group.

An unparsed string such as '{x}' or '[y]' handed to append / insert / extend /
remove of a node's argument list must become the group that prints back as
exactly that string, whatever the body of the group is - in particular when
the body itself starts with the opening delimiter or ends with the closing
delimiter ('{{x}}', '{\\textbf{x}}', '[[1]]', '[a[0]]').  The argument list is
compared step by step with a plain Python list of the expected serialisations,
and the owning node must print the concatenation.

usage: demo.py <path-to-TexSoup-checkout>   (exit 0: holds, exit 1: violated)
"""
import sys

sys.path.insert(0, sys.argv[1])

from TexSoup import TexSoup  # noqa: E402
from TexSoup.data import BraceGroup, BracketGroup  # noqa: E402

failures = []


def check(node, model, what):
    args = node.args
    got = [str(g) for g in args]
    if got != model:
        failures.append('%s: list is %r, expected %r' % (what, got, model))
    for g, s in zip(args, model):
        want = BraceGroup if s.startswith('{') else BracketGroup
        if not isinstance(g, want):
            failures.append('%s: %r coerced to %s' % (what, s, type(g).__name__))
    if str(args) != ''.join(model):
        failures.append('%s: str(args) is %r, expected %r'
                        % (what, str(args), ''.join(model)))
    if str(node) != '\\cmd' + ''.join(model):
        failures.append('%s: node prints %r, expected %r'
                        % (what, str(node), '\\cmd' + ''.join(model)))


def run(strings):
    node = TexSoup(r'\cmd{a}[b]').cmd
    model = ['{a}', '[b]']
    check(node, model, 'initial')

    # append
    node.args.append(strings[0])
    model.append(strings[0])
    check(node, model, 'append(%r)' % strings[0])

    # insert at the front and in the middle
    node.args.insert(0, strings[1])
    model.insert(0, strings[1])
    check(node, model, 'insert(0, %r)' % strings[1])
    node.args.insert(-1, strings[2])
    model.insert(-1, strings[2])
    check(node, model, 'insert(-1, %r)' % strings[2])

    # extend
    node.args.extend([strings[3], '{z}'])
    model.extend([strings[3], '{z}'])
    check(node, model, 'extend([%r, "{z}"])' % strings[3])

    # remove by unparsed string: the first group printing like it goes away
    for s in (strings[1], strings[3]):
        try:
            node.args.remove(s)
        except Exception as e:  # a plain list of these groups would succeed
            failures.append('remove(%r) raised %s: %s'
                            % (s, type(e).__name__, e))
        else:
            model.remove(s)
        check(node, model, 'remove(%r)' % s)

    # mismatched delimiters are rejected and leave the list alone
    for bad in ('{{x}]', '[x}}', '{x'):
        try:
            node.args.append(bad)
        except TypeError:
            pass
        else:
            failures.append('append(%r) was not rejected' % bad)
        check(node, model, 'rejected append(%r)' % bad)


# plain bodies (sanity), then bodies touching their own delimiters
run(['{x}', '[y]', '{w}', '[v]'])
run(['{{x}}', '[[1]]', '{\\textbf{x}}', '[a[0]]'])
run(['{{x}y}', '[p[q]]', '{}', '[[i]j]'])

if failures:
    print('C18 VIOLATED:')
    for f in failures[:12]:
        print('  -', f)
    sys.exit(1)
print('C18 holds')
sys.exit(0)
