"""C17 demo: parses are independent - an earlier parse never influences a
later one, and parsing the same source twice gives equal trees.

usage: demo.py /path/to/TexSoup/checkout
exit 0: property holds; exit 1: violated (prints what went wrong)
"""
import sys

sys.path.insert(0, sys.argv[1])
from TexSoup import TexSoup  # noqa: E402


def shape(soup):
    """Text, nested repr of the tree and the names of all descendants."""
    names = [getattr(d, 'name', None) for d in soup.descendants
             if not isinstance(d, str)]
    return (str(soup), repr(soup.expr), repr(list(soup.expr.all)), names)


# a preamble as found in documents using the listings package
PREAMBLE = (
    '\\usepackage{listings}\n'
    '\\lstnewenvironment{code}[1][]{\\lstset{language=Python,#1}}{}\n'
    '\\lstnewenvironment{shell}{\\lstset{language=bash}}{}\n'
)

# documents that do not declare anything themselves
LATER = [
    '\\begin{code} $x$ and \\textbf{bold} {group} \\end{code}',
    '\\section{S}\n\\begin{shell}\n\\item[a] one \\emph{two}\n\\end{shell}\n',
    '\\begin{itemize}\\item \\begin{code}\\label{k} $a+b$\\end{code}\\end{itemize}',
]

# a single document that uses the environment before declaring it
SELF = ('\\begin{snippet}\\textit{i} $y$\\end{snippet}\n'
        '\\lstnewenvironment{snippet}{}{}\n')

failures = []

# 1. a later parse must not depend on whether another document was parsed
before = [shape(TexSoup(s)) for s in LATER]
TexSoup(PREAMBLE)
after = [shape(TexSoup(s)) for s in LATER]
for s, b, a in zip(LATER, before, after):
    if a != b:
        failures.append(('parsed before / after an unrelated document', s, b, a))

# 2. the same source parsed twice gives equal trees
first = shape(TexSoup(SELF))
second = shape(TexSoup(SELF))
if first != second:
    failures.append(('same source parsed twice', SELF, first, second))

if failures:
    print('C17 VIOLATED: an earlier parse influences a later one '
          '(%d cases):' % len(failures))
    for what, s, b, a in failures:
        print('  %s: %r' % (what, s))
        print('     first : %s   descendants %s' % (b[1], b[3]))
        print('     second: %s   descendants %s' % (a[1], a[3]))
    sys.exit(1)
print('C17 holds: parses are independent')
sys.exit(0)
