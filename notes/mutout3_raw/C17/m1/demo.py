"""C17 demo: the parse result depends only on the characters of the source,
not on how they are handed over (one string, chunks, lines, generator, file).

usage: demo.py /path/to/TexSoup/checkout
exit 0: property holds; exit 1: violated (prints what went wrong)
"""
import io
import sys

sys.path.insert(0, sys.argv[1])
from TexSoup import TexSoup  # noqa: E402

ZWNBSP = '\ufeff'   # ZERO WIDTH NO-BREAK SPACE, an ordinary "other" character

SOURCES = [
    'intro\n' + ZWNBSP + '\\section{One} text\n\\textbf{b}\n',
    'a' + ZWNBSP + 'b',
    '\\begin{itemize}\n\\item x' + ZWNBSP + 'y\n\\item ' + ZWNBSP + 'z\n\\end{itemize}\n',
    '\\section{A' + ZWNBSP + '}$x' + ZWNBSP + '+1$ % c' + ZWNBSP + 'd\n',
    ZWNBSP + ZWNBSP + 'doubled at the start \\emph{e}',
]


def shape(node):
    """What the parse produced: the text and the (nested) repr of the tree."""
    return (str(node), repr(node.expr), repr(list(node.expr.all)))


def forms(src):
    yield 'list [whole]', lambda: [src]
    yield 'tuple (whole,)', lambda: (src,)
    yield 'list of lines', lambda: src.splitlines(keepends=True)
    yield 'list of characters', lambda: list(src)
    yield 'generator of lines', lambda: (l for l in src.splitlines(keepends=True))
    yield 'StringIO', lambda: io.StringIO(src, newline='')
    for i in range(1, len(src)):
        yield 'split at %d' % i, (lambda i=i: [src[:i], src[i:]])


failures = []
for src in SOURCES:
    want = shape(TexSoup(src))
    for label, make in forms(src):
        try:
            got = shape(TexSoup(make()))
        except Exception as e:  # a form that fails while the string parses
            got = ('raised', repr(e))
        if got != want:
            failures.append((src, label, want[0], got[0]))

if failures:
    print('C17 VIOLATED: the same characters give different parses '
          'depending on the input form (%d cases), e.g.:' % len(failures))
    for src, label, want, got in failures[:6]:
        print('  source %r as %s' % (src, label))
        print('     one string -> %r' % want)
        print('     this form  -> %r' % got)
    sys.exit(1)
print('C17 holds: all input forms agree')
sys.exit(0)
