"""C19 demo: every character of a string gets its own category item and index,
and the tokens partition the string (texts concatenate to the input, apart from
dropped NUL/DEL; no empty token; each token records its start offset).

Usage: demo.py <path of TexSoup checkout>; exit 0 = property holds, 1 = violated.
"""
import sys

sys.path.insert(0, sys.argv[1])

from TexSoup.category import categorize  # noqa: E402
from TexSoup.tokens import tokenize  # noqa: E402

DROPPABLE = '\x00\x7f'


def check_categories(s):
    """Each character: exactly one item, its own text, its own index."""
    items = list(categorize(s))
    shown = [(str(c), c.position) for c in items]
    if len(items) != len(s):
        return 'categorize yields %d items for %d characters: %a' % (
            len(items), len(s), shown)
    for i, c in enumerate(items):
        if str(c) != s[i] or c.position != i or c.category is None:
            return 'categorize item %d is %a at index %r (category %r), ' \
                'expected %a at %d' % (i, str(c), c.position, c.category, s[i], i)
    return None


def check_tokens(s):
    """Tokens partition s."""
    tokens = []
    for t in tokenize(categorize(s)):
        tokens.append(t)
        if len(tokens) > len(s) + 1:
            return 'more tokens than characters'
    shown = [(str(t), t.position) for t in tokens]
    offset = 0
    for t in tokens:
        text = str(t)
        if not text:
            return 'empty token; tokens=%a' % shown
        while offset < len(s) and s[offset] in DROPPABLE and s[offset] != text[0]:
            offset += 1
        if t.position != offset:
            return 'token %a records offset %r but should start at %d; tokens=%a' % (
                text, t.position, offset, shown)
        for ch in text:
            while offset < len(s) and s[offset] != ch and s[offset] in DROPPABLE:
                offset += 1
            if offset >= len(s) or s[offset] != ch:
                return 'token %a does not match the input at offset %d; tokens=%a' % (
                    text, offset, shown)
            offset += 1
    while offset < len(s) and s[offset] in DROPPABLE:
        offset += 1
    if offset != len(s):
        return 'input from offset %d on is not covered; tokens=%a' % (offset, shown)
    return None


HI, LO = '\ud83d', '\ude02'   # two code points; each is a character of its own

INPUTS = [
    # a high surrogate directly followed by a low surrogate
    HI + LO,
    'a' + HI + LO + 'b{c}',
    '{' + HI + LO + '}' + HI + LO + '$x$',
    # controls: lone / reversed / repeated / separated surrogates, and a real
    # astral character
    HI,
    LO,
    LO + HI,
    HI + HI + 'a',
    'a' + HI + ' ' + LO + '{b}',
    'a\U0001F602b{c}',
]

failed = False
for s in INPUTS:
    for problem in (check_categories(s), check_tokens(s)):
        if problem:
            failed = True
            print('VIOLATION for input %a: %s' % (s, problem))
if failed:
    sys.exit(1)
print('ok: every character has its own item and the tokens partition every input')
sys.exit(0)
