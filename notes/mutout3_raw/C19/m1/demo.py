"""C19 demo: the tokens of a string partition it (texts concatenate to the input,
apart from dropped NUL/DEL; no empty token; each token records its start offset).

Usage: demo.py <path of TexSoup checkout>; exit 0 = property holds, 1 = violated.
"""
import sys

sys.path.insert(0, sys.argv[1])

from TexSoup.category import categorize  # noqa: E402
from TexSoup.tokens import tokenize  # noqa: E402

DROPPABLE = '\x00\x7f'


def check(s):
    """Return None if tokenising s partitions it, else a description."""
    tokens = []
    for t in tokenize(categorize(s)):
        tokens.append(t)
        if len(tokens) > len(s) + 1:
            return 'more tokens than characters'
    shown = [(str(t), t.position) for t in tokens]
    offset = 0
    for t in tokens:
        text = str(t)
        if not text:
            return 'empty token; tokens=%r' % shown
        while offset < len(s) and s[offset] in DROPPABLE and s[offset] != text[0]:
            offset += 1
        if t.position != offset:
            return 'token %r records offset %r but should start at %d; tokens=%r' % (
                text, t.position, offset, shown)
        for ch in text:
            while offset < len(s) and s[offset] != ch and s[offset] in DROPPABLE:
                offset += 1
            if offset >= len(s) or s[offset] != ch:
                return 'token %r does not match the input at offset %d; tokens=%r' % (
                    text, offset, shown)
            offset += 1
    while offset < len(s) and s[offset] in DROPPABLE:
        offset += 1
    if offset != len(s):
        return 'input from offset %d on is not covered; tokens=%r' % (offset, shown)
    return None


INPUTS = [
    # size command + named delimiter, directly followed by a letter
    r'\left\langlex',
    r'$\left\langlex\right\rangle$',
    r'$\big\lfloor n/2\big\rfloor$ and $\Bigg\lceilk\Bigg\rceil$',
    r'a\right\rceilz b',
    # controls: the same commands followed by a non-letter
    r'$\left\langle x\right\rangle$',
    r'$\big\lfloor x \big\rfloor$',
    r'\left\{a\right\}',
    r'\left(a\right)',
]

failed = False
for s in INPUTS:
    problem = check(s)
    if problem:
        failed = True
        print('VIOLATION for input %r: %s' % (s, problem))
if failed:
    sys.exit(1)
print('ok: tokens partition every input')
sys.exit(0)
