r"""C11 demo 1: the body of a verbatim-like environment runs up to the first
literal `\end{name}`; a look-alike `\end {name}` / `\end<newline>{name}` (with
white space between `\end` and the brace) is ordinary body text."""
import sys
sys.path.insert(0, sys.argv[1])
from TexSoup import TexSoup

failures = []


def check(name, body, skip, pre='', post=''):
    doc = '%s\\begin{%s}%s\\end{%s}%s' % (pre, name, body, name, post)
    try:
        soup = TexSoup(doc, skip_envs=skip)
    except Exception as e:  # opaque bodies can never cause a parse error
        failures.append('%r: parse error %s: %s' % (doc, type(e).__name__, e))
        return
    envs = [n for n in soup.find_all(name)]
    if len(envs) != 1:
        failures.append('%r: expected one %s env, found %d' % (doc, name, len(envs)))
        return
    raw = envs[0].expr._contents
    if len(raw) != 1 or str(raw[0]) != body:
        failures.append('%r: body is %r, expected the single text %r'
                        % (doc, [str(c) for c in raw], body))
    if str(soup) != doc:
        failures.append('%r: serialises as %r' % (doc, str(soup)))
    if soup.find('textbf') is not None:
        failures.append('%r: \\textbf inside the body is searchable' % doc)


# sanity: plain hostile bodies
check('verbatim', ' $ { \\textbf{x \\end{center} [ ', ())
check('code', ' $ { \\textbf{x \\end{center} [ ', ('code',))

for name, skip in (('verbatim', ()), ('lstlisting', ()), ('code', ('code',))):
    # a spaced look-alike of the closing marker inside the body
    check(name, 'use \\end {%s} to close $ { \\textbf{x\n' % name, skip)
    check(name, 'a\n\\end\n{%s}\n\\textbf{ $ tail\n' % name, skip)
    check(name, 'x \\end\t{%s} } ] y ' % name, skip,
          pre='\\begin{center}\\begin{quote}', post='\\end{quote}\\end{center}')

if failures:
    print('C11 VIOLATED:')
    for f in failures:
        print('  ' + f)
    sys.exit(1)
print('C11 holds on the probed inputs')
sys.exit(0)
