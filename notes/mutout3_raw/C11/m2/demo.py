r"""C11 demo 2: whatever text stands in front of the closing `\end{name}` of a
verbatim-like environment (here: a size command such as `\left`, `\big`,
`\Bigg` written directly before it), the body is the single raw text up to the
first `\end{name}` and the parse cannot fail."""
import sys
sys.path.insert(0, sys.argv[1])
from TexSoup import TexSoup

failures = []


def check(name, body, skip, pre='', post=''):
    doc = '%s\\begin{%s}%s\\end{%s}%s' % (pre, name, body, name, post)
    try:
        soup = TexSoup(doc, skip_envs=skip)
    except Exception as e:  # opaque bodies can never cause a parse error
        failures.append('%r: parse error %s: %s' % (doc, type(e).__name__, e))
        return
    envs = list(soup.find_all(name))
    if len(envs) != 1:
        failures.append('%r: expected one %s env, found %d' % (doc, name, len(envs)))
        return
    raw = envs[0].expr._contents
    if len(raw) != 1 or str(raw[0]) != body:
        failures.append('%r: body is %r, expected the single text %r'
                        % (doc, [str(c) for c in raw], body))
    if str(soup) != doc:
        failures.append('%r: serialises as %r' % (doc, str(soup)))
    if soup.find('textbf') is not None:
        failures.append('%r: \\textbf inside the body is searchable' % doc)


# sanity: the same commands followed by a line break or a delimiter
check('verbatim', ' $ { \\textbf{x \\left\n', ())
check('verbatim', ' $ { \\textbf{x \\left( \\big\\{ ', ())
check('code', ' ] \\left\\langle \\textbf{x \\right. ', ('code',))

for name, skip in (('verbatim', ()), ('lstlisting', ()), ('code', ('code',))):
    for size in ('left', 'right', 'big', 'Big', 'bigg', 'Bigg'):
        # body ends with the bare size command, directly before the closing
        check(name, 'delimiters are sized with \\%s' % size, skip)
        check(name, ' $ { \\textbf{x \\%s' % size, skip)
    check(name, ' } \\big', skip,
          pre='\\begin{center}\\begin{quote}', post='\\end{quote}\\end{center}')

if failures:
    print('C11 VIOLATED:')
    for f in failures:
        print('  ' + f)
    sys.exit(1)
print('C11 holds on the probed inputs')
sys.exit(0)
