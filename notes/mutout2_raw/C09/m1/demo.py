"""C09 demo 1: attached groups contain exactly the characters between their
delimiters -- a foreign (unbalanced) closing brace inside a bracket group does
not end that group -- whatever the error tolerance level of the parser is.

usage: demo.py <path of a TexSoup checkout>; exit 0 = property holds, 1 = violated
"""
import sys

sys.path.insert(0, sys.argv[1])

from TexSoup import TexSoup  # noqa: E402
from TexSoup.data import BracketGroup, BraceGroup  # noqa: E402

KIND = {BracketGroup: '[', BraceGroup: '{'}

# (run of groups after \foo, expected [(kind, body)], text that follows)
RUNS = [
    (r'[a}b]{c}', [('[', 'a}b'), ('{', 'c')], ''),
    (r'[}]{c}{d]e}', [('[', '}'), ('{', 'c'), ('{', 'd]e')], ''),
    ('[x][y}z]\n{w[}', [('[', 'x'), ('[', 'y}z'), ('{', 'w[')], ''),
    (r'[a}b] {c}' + '\n\n{d}', [('[', 'a}b'), ('{', 'c')], '\n\n{d}'),
]
CONTEXTS = [
    ('top level', '%s'),
    ('text around', 'x %s y'),
    ('inline math', '$%s$'),
    ('named env', '\\begin{quote}%s\\end{quote}'),
]

failures = []
for tolerance in (0, 1):
    for ctx_name, ctx in CONTEXTS:
        for run, expected, rest in RUNS:
            source = ctx % ('\\foo' + run)
            try:
                soup = TexSoup(source, tolerance=tolerance)
                cmd = soup.find('foo')
                got = [(KIND.get(type(a), type(a).__name__), str(a.string))
                       for a in cmd.args]
            except Exception as exc:  # noqa: BLE001
                got = '%s: %s' % (type(exc).__name__, exc)
            if got != expected:
                failures.append((tolerance, ctx_name, source, expected, got))
                continue
            # later groups (after the blank line) stay in the surrounding text
            if rest and rest.strip() not in str(soup):
                failures.append((tolerance, ctx_name, source,
                                 'later group %r kept in text' % rest,
                                 str(soup)))

if failures:
    for tolerance, ctx_name, source, expected, got in failures:
        print('VIOLATION tolerance=%d context=%s source=%r\n   expected args %r'
              '\n   got           %r' % (tolerance, ctx_name, source, expected,
                                         got))
    sys.exit(1)
print('C09 holds: bracket groups with a foreign closing brace are attached '
      'with exact contents at every tolerance level')
sys.exit(0)
