"""C09 demo 2: any character other than blanks (with at most one line break)
ends the argument run of a command -- at every position of the run, the one
directly behind the command name included -- and the groups behind that
character remain in the surrounding text.

usage: demo.py <path of a TexSoup checkout>; exit 0 = property holds, 1 = violated
"""
import sys

sys.path.insert(0, sys.argv[1])

from TexSoup import TexSoup  # noqa: E402
from TexSoup.data import BracketGroup, BraceGroup  # noqa: E402

KIND = {BracketGroup: '[', BraceGroup: '{'}
PUNCTUATION = [',', '.', ';', ':', '!', '?', '-', '+', '=', '/', '|', '@', '"',
               "'", '`', '<', '>']
GROUPS = [('[', 'a'), ('[', 'b{]}'), ('{', 'c]d'), ('{', 'e[')]
CLOSE = {'[': ']', '{': '}'}
CONTEXTS = [
    ('top level', '%s'),
    ('brace group', 'x{%s}y'),
    ('inline math', '$%s$'),
    ('named env', '\\begin{quote}%s\\end{quote}'),
    ('item', '\\begin{itemize}\\item z %s\\end{itemize}'),
]


def render(groups):
    return ''.join(k + body + CLOSE[k] for k, body in groups)


failures = []
for ctx_name, ctx in CONTEXTS:
    for punct in PUNCTUATION:
        # the punctuation character stands at position `cut` of the run:
        # 0 = directly behind the name, 1 = behind the first group, ...
        for cut in range(len(GROUPS) + 1):
            attached, later = GROUPS[:cut], GROUPS[cut:]
            source = ctx % ('\\foo' + render(attached) + punct + render(later))
            try:
                soup = TexSoup(source)
                cmd = soup.find('foo')
                if cmd is None:
                    got = 'no command foo; commands found: %r' % [
                        (str(n.name), [str(a) for a in n.args])
                        for n in soup.descendants
                        if hasattr(n, 'expr') and n.expr.args]
                else:
                    got = [(KIND.get(type(a), type(a).__name__), str(a.string))
                           for a in cmd.args]
            except Exception as exc:  # noqa: BLE001
                got = '%s: %s' % (type(exc).__name__, exc)
            if got != attached:
                failures.append((ctx_name, source, attached, got))
                continue
            # the later groups stay, unattached, in the surrounding text
            tail = punct + render(later)
            if tail not in str(soup):
                failures.append((ctx_name, source,
                                 'text keeps %r' % tail, str(soup)))

if failures:
    for ctx_name, source, expected, got in failures[:12]:
        print('VIOLATION context=%s source=%r\n   expected %r\n   got      %r'
              % (ctx_name, source, expected, got))
    print('%d violations in total' % len(failures))
    sys.exit(1)
print('C09 holds: every punctuation character ends the argument run at '
      'every position')
sys.exit(0)
