"""C03 demo: searching by name returns exactly the matching nodes.

Documents: named environments whose *arguments* hold nested commands
(a command inside a group / command inside the argument) while the body is
plain text.  The expected answers are computed by an independent walk over
the stored tree (argument groups + bodies) and are also written down by hand.

usage: demo.py <path-to-TexSoup-checkout>
exit 0: property holds, exit 1: violated.
"""
import sys

sys.path.insert(0, sys.argv[1])

from TexSoup import TexSoup                                   # noqa: E402
from TexSoup.data import TexCmd, TexEnv, TexGroup             # noqa: E402

failures = []


def reference(expr):
    """All command/environment expressions below `expr`, by walking the
    argument groups and the body directly (no use of the search code)."""
    found = []

    def visit(piece):
        if isinstance(piece, (TexCmd, TexEnv)):
            found.append(piece)
            walk(piece)

    def walk(e):
        for arg in e.args:
            if isinstance(arg, TexGroup):
                for piece in arg._contents:
                    visit(piece)
        for piece in e._contents:
            visit(piece)

    walk(expr)
    return found


def check_root(label, node):
    expected = reference(node.expr)
    names = sorted({str(e.name) for e in expected}) + ['absentname']
    for name in names:
        want = [e for e in expected if str(e.name) == name]
        got = node.find_all(name)
        got_ids = sorted(id(n.expr) for n in got)
        want_ids = sorted(id(e) for e in want)
        if got_ids != want_ids:
            failures.append(
                '%s: find_all(%r) returned %d node(s) %r, the tree holds %d: %r'
                % (label, name, len(got), [str(n) for n in got],
                   len(want), [str(e) for e in want]))
            continue
        if node.count(name) != len(want):
            failures.append('%s: count(%r) = %d, expected %d'
                            % (label, name, node.count(name), len(want)))
        first = node.find(name)
        if (first is None) != (not got) or \
                (got and first.expr is not got[0].expr):
            failures.append('%s: find(%r) is not find_all(%r)[0]'
                            % (label, name, name))


def check(label, source, handwritten, **options):
    soup = TexSoup(source, **options)
    # hand-written expectations (independent of any tree walk)
    for name, n in handwritten.items():
        got = soup.count(name)
        if got != n:
            failures.append('%s: count(%r) = %d, document contains %d'
                            % (label, name, got, n))
    # every node as search root
    check_root(label + ' [root]', soup)
    for e in reference(soup.expr):
        for n in soup.find_all(str(e.name)):
            if n.expr is e:
                check_root('%s [root %s]' % (label, str(e.name)), n)


check('tabular column spec',
      r'''\begin{tabular}{@{\extracolsep{\fill}}lr}
 a & b \\
 c & d
\end{tabular}''',
      {'tabular': 1, 'extracolsep': 1, 'fill': 1})

check('theorem with emphasised title',
      r'''\begin{theorem}[\textbf{Main \emph{result}}]
Every bounded sequence has a convergent subsequence.
\end{theorem}''',
      {'theorem': 1, 'textbf': 1, 'emph': 1})

check('same, body with a command (control)',
      r'''\begin{theorem}[\textbf{Main \emph{result}}]
Every \emph{bounded} sequence has a convergent subsequence.
\end{theorem}''',
      {'theorem': 1, 'textbf': 1, 'emph': 2})

check('listing with caption option',
      r'''\begin{itemize}
\item code: \begin{lstlisting}[caption={\textbf{Loop $i$}}]
for i in range(3): print(i)
\end{lstlisting}
\end{itemize}''',
      {'itemize': 1, 'item': 1, 'lstlisting': 1, 'textbf': 1, '$': 1})

check('minipage inside math text inside item',
      r'''\begin{enumerate}
\item[\textbf{a}] see $x$ \begin{minipage}[t]{\dimexpr{0.5\textwidth}}
plain text only
\end{minipage}
\end{enumerate}''',
      {'enumerate': 1, 'item': 1, 'textbf': 1, 'minipage': 1,
       'dimexpr': 1, 'textwidth': 1})

if failures:
    print('C03 VIOLATED:')
    for f in failures:
        print('  -', f)
    sys.exit(1)
print('C03 holds on the sampled documents')
sys.exit(0)
