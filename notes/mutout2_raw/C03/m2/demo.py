"""C03 demo: a full-expression query `\\begin{env}{args}` matches exactly the
environments whose opening equals it (and an absent one matches nothing).

The documents hold two different environments whose names have the same
number of letters and whose arguments read the same.

usage: demo.py <path-to-TexSoup-checkout>
exit 0: property holds, exit 1: violated.
"""
import sys

sys.path.insert(0, sys.argv[1])

from TexSoup import TexSoup                                   # noqa: E402
from TexSoup.data import TexCmd, TexEnv, TexGroup             # noqa: E402

failures = []


def reference(expr):
    """All command/environment expressions below `expr` (independent walk
    over argument groups and bodies)."""
    found = []

    def visit(piece):
        if isinstance(piece, (TexCmd, TexEnv)):
            found.append(piece)
            walk(piece)

    def walk(e):
        for arg in e.args:
            if isinstance(arg, TexGroup):
                for piece in arg._contents:
                    visit(piece)
        for piece in e._contents:
            visit(piece)

    walk(expr)
    return found


def opening(e):
    return e.begin + ''.join(str(a) for a in e.args)


def expect(label, node, query, want):
    got = node.find_all(query)
    if sorted(id(n.expr) for n in got) != sorted(id(e) for e in want):
        failures.append(
            '%s: find_all(%r) returned %d node(s) with openings %r; '
            'expected %d: %r'
            % (label, query, len(got),
               [opening(n.expr) if isinstance(n.expr, TexEnv) else str(n)
                for n in got],
               len(want), [opening(e) if isinstance(e, TexEnv) else str(e)
                           for e in want]))
        return
    if node.count(query) != len(want):
        failures.append('%s: count(%r) = %d, expected %d'
                        % (label, query, node.count(query), len(want)))
    first = node.find(query)
    if (first is None) != (not want) or \
            (want and first.expr is not got[0].expr):
        failures.append('%s: find(%r) is not find_all(%r)[0]'
                        % (label, query, query))


def check(label, source, absent_queries):
    soup = TexSoup(source)
    nodes = reference(soup.expr)
    envs = [e for e in nodes if isinstance(e, TexEnv) and
            e.begin.startswith('\\begin')]
    cmds = [e for e in nodes if isinstance(e, TexCmd)]
    # openings (with and without arguments) of every named environment
    for q in sorted({opening(e) for e in envs} | {e.begin for e in envs}):
        want = [e for e in envs if q in (opening(e), e.begin)]
        want += [c for c in cmds if str(c) == q]
        expect(label, soup, q, want)
    # full text of every command that carries arguments
    for q in sorted({str(c) for c in cmds if '{' in str(c) or '[' in str(c)}):
        want = [c for c in cmds if str(c) == q]
        want += [e for e in envs if q in (opening(e), e.begin, str(e))]
        expect(label, soup, q, want)
    # openings that do not occur in the document
    for q in absent_queries:
        expect(label + ' (absent)', soup, q, [])


check('two half-width boxes',
      r'''\begin{figure}
\begin{minipage}{0.5\textwidth}
left picture
\end{minipage}
\begin{subtable}{0.5\textwidth}
right table
\end{subtable}
\caption{Both}
\end{figure}''',
      [r'\begin{sidenote}{0.5\textwidth}', r'\begin{wrapfig}{0.5\textwidth}',
       r'\begin{minipage}{0.4\textwidth}'])

check('array next to a two-column itemize-like list',
      r'''\begin{itemize}
\item \[ \begin{array}{cc} 1 & 2 \\ 3 & 4 \end{array} \]
\item \begin{block}{cc} text \end{block}
\item \begin{tabular}{cc} 5 & 6 \end{tabular}
\end{itemize}''',
      [r'\begin{proof}{cc}', r'\begin{array}{c}'])

check('command as long as an opening',
      r'''\begin{tabular}{lr} a & b \end{tabular}
\multicolumnxyz{lr} and \textbf{lr}''',
      [r'\begin{theorem}{lr}'])

if failures:
    print('C03 VIOLATED:')
    for f in failures:
        print('  -', f)
    sys.exit(1)
print('C03 holds on the sampled documents')
sys.exit(0)
