"""C15 demo 1: deleting a node that has a textually equal twin inside an
argument group of the same parent.

Usage: demo.py <path-of-TexSoup-checkout>
Exit 0: property holds; exit 1: violated.
"""
import sys
import traceback

sys.path.insert(0, sys.argv[1])
from TexSoup import TexSoup  # noqa: E402

failures = []


def fail(msg):
    failures.append(msg)
    print('VIOLATION:', msg)


class Model(object):
    """Reference model: the document is a flat list of text pieces."""

    def __init__(self, pieces):
        self.pieces = list(pieces)

    def delete(self, k):
        del self.pieces[k]

    def insert(self, k, piece):
        self.pieces.insert(k, piece)

    def __str__(self):
        return ''.join(self.pieces)


def consistent(soup, label):
    """search results / descendants / parent links / text agree."""
    text = str(soup)
    for name in ('ref', 'alpha', 'item', 'sec'):
        found = soup.find_all(name)
        n_desc = sum(1 for d in soup.descendants
                     if hasattr(d, 'name') and not isinstance(d, str)
                     and d.name == name)
        if len(found) != n_desc:
            fail('%s: find_all(%r) gives %d, descendants hold %d'
                 % (label, name, len(found), n_desc))
        if len(found) != text.count('\\' + name):
            fail('%s: find_all(%r) gives %d nodes but the text %r has %d'
                 % (label, name, len(found), text, text.count('\\' + name)))
        for node in found:
            if node.parent is None or not any(
                    c.expr is node.expr for c in node.parent.contents
                    if not isinstance(c, str)):
                fail('%s: parent link of %r is broken' % (label, node))


def step(label, soup, model, action):
    try:
        action()
    except Exception:
        fail('%s: a valid edit raised\n%s' % (label, traceback.format_exc()))
        return False
    if str(soup) != str(model):
        fail('%s: text is %r, reference model says %r'
             % (label, str(soup), str(model)))
        return False
    consistent(soup, label)
    return True


# --- history 1: \item whose optional label holds the same command ---------
pieces = ['\\begin{itemize}', '\\item[', '\\ref{k}', ']', ' see ', '\\ref{k}',
          ' end', '\\item b', '\\end{itemize}']
model = Model(pieces)
soup = TexSoup(''.join(pieces))
assert str(soup) == str(model)
consistent(soup, 'h1 start')
model.delete(5)
step('h1 delete the \\ref{k} of the item body (twin sits in the label)',
     soup, model, lambda: soup.find_all('ref')[1].delete())

# --- history 2: the twin is created by an insertion -----------------------
pieces = ['\\begin{itemize}', '\\item[', '\\ref{k}', ']', ' see ',
          '\\item b', '\\end{itemize}']
model = Model(pieces)
soup = TexSoup(''.join(pieces))
fresh = TexSoup(r'x \ref{k} y').ref.copy()
model.insert(5, '\\ref{k}')
ok = step('h2 insert a fresh \\ref{k} into the item body', soup, model,
          lambda: soup.item.insert(1, fresh))
if ok:
    if len(soup.find_all('ref')) != 2:
        fail('h2: inserted node is not found')
    model.delete(5)
    ok = step('h2 delete the inserted \\ref{k} again', soup, model,
              lambda: [n for n in soup.find_all('ref')
                       if n.expr is fresh.expr][0].delete())
if ok:
    # the label must still be the untouched original
    label = soup.item.args[0]
    if str(label) != '[\\ref{k}]':
        fail('h2: the untargeted label was altered: %r' % str(label))

# --- history 3: two argument groups of one command, equal content ---------
pieces = ['$', '\\frac{', '\\alpha', '}{', '\\alpha', '}', '$', ' \\sec{a}']
model = Model(pieces)
soup = TexSoup(''.join(pieces))
first = soup.find_all('alpha')[0]
model.delete(4)
ok = step('h3 delete the \\alpha of the second argument', soup, model,
          lambda: soup.find_all('alpha')[1].delete())
if ok:
    left = soup.find_all('alpha')
    if len(left) != 1 or left[0].expr is not first.expr:
        fail('h3: the wrong twin was removed')
    model.delete(2)
    step('h3 delete the remaining \\alpha', soup, model,
         lambda: soup.find_all('alpha')[0].delete())

if failures:
    print('%d violation(s) of C15' % len(failures))
    sys.exit(1)
print('C15 holds on the exercised histories')
sys.exit(0)
