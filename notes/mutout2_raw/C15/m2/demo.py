"""C15 demo 2: argument-list histories (append / insert / pop) on a command
whose argument list holds textually equal groups, against a plain Python
list of strings as reference model.

Usage: demo.py <path-of-TexSoup-checkout>
Exit 0: property holds; exit 1: violated.
"""
import sys
import traceback

sys.path.insert(0, sys.argv[1])
from TexSoup import TexSoup  # noqa: E402

failures = []


def fail(msg):
    failures.append(msg)
    print('VIOLATION:', msg)


def check(label, soup, prefix, model, suffix=''):
    expected = prefix + ''.join(model) + suffix
    if str(soup) != expected:
        fail('%s: text is %r, reference model says %r'
             % (label, str(soup), expected))
        return False
    # search results and text agree
    n = len(soup.find_all('ref'))
    if n != expected.count('\\ref'):
        fail('%s: find_all("ref") gives %d, the text holds %d'
             % (label, n, expected.count('\\ref')))
        return False
    for node in soup.find_all('ref'):
        if node.parent is None or node.parent.name != 'cmd':
            fail('%s: parent link of %r is wrong' % (label, node))
            return False
    return True


def run(label, source, prefix, ops, suffix=''):
    """ops: list of (name, args); applied to soup.cmd.args and to the model."""
    soup = TexSoup(source)
    model = [str(a) for a in soup.cmd.args]
    if not check(label + ' [start]', soup, prefix, model, suffix):
        return
    for k, (name, args) in enumerate(ops):
        here = '%s [step %d: %s%r]' % (label, k + 1, name, args)
        untouched = list(soup.cmd.args)
        try:
            if name == 'pop':
                got = soup.cmd.args.pop(*args)
                want = model.pop(*args)
                victim = untouched.pop(*args)
                if str(got) != want:
                    fail('%s: returned %r, model returned %r'
                         % (here, str(got), want))
                # nodes that were not targeted must all still be there
                now = list(soup.cmd.args)
                if len(now) != len(untouched) or any(
                        a is not b for a, b in zip(now, untouched)):
                    fail('%s: an argument that was not targeted was lost '
                         '(or the targeted one kept): %r' % (here, now))
                if any(a is victim for a in now):
                    fail('%s: the popped argument is still in the list'
                         % here)
            elif name == 'append':
                soup.cmd.args.append(*args)
                model.append(*args)
            elif name == 'insert':
                soup.cmd.args.insert(*args)
                model.insert(*args)
            else:
                raise AssertionError(name)
        except Exception:
            fail('%s: a valid edit raised\n%s'
                 % (here, traceback.format_exc()))
            return
        if not check(here, soup, prefix, model, suffix):
            return


# control histories: no equal groups, or equal groups where first is popped
run('c1', r'\cmd{a}[b]{c} z', '\\cmd', [('pop', ()), ('pop', (0,))], ' z')
run('c2', r'\cmd{a}[b]{a} z', '\\cmd', [('pop', (0,))], ' z')

# the last of two equal groups, something different in between
run('h1', r'\cmd{a}[b]{a} z', '\\cmd', [('pop', ())], ' z')

# the equal twin only comes into being along the history
run('h2', r'\cmd{a}[b] z', '\\cmd',
    [('append', ('{a}',)), ('pop', ()), ('pop', ())], ' z')

# explicit index, longer list, commands inside the groups
run('h3', r'\cmd{\ref{k}}{b}{\ref{k}}{c}', '\\cmd',
    [('pop', (2,)), ('insert', (1, '[o]')), ('pop', (-1,))])

# insert a twin in front, then pop the original behind it
run('h4', r'\cmd[o]{x}', '\\cmd',
    [('insert', (0, '{x}')), ('pop', (2,))])

if failures:
    print('%d violation(s) of C15' % len(failures))
    sys.exit(1)
print('C15 holds on the exercised histories')
sys.exit(0)
