"""C08 demo 2: serialisation conserves the characters of a parseable input.

usage: demo.py <path of a TexSoup checkout>
exit 0 if the property holds on every probe, exit 1 otherwise.
"""
import re
import sys

sys.path.insert(0, sys.argv[1])
from TexSoup import TexSoup  # noqa: E402

WS = ' \t\n\r'


def conserved(src, out):
    """True iff `out` is `src` with nothing changed except that (tails of)
    whitespace runs standing directly before a `{` or `[` may be missing."""
    pat, i, n = [], 0, len(src)
    while i < n:
        if src[i] in WS:
            j = i
            while j < n and src[j] in WS:
                j += 1
            run = src[i:j]
            if j < n and src[j] in '{[':
                # any tail of the run may have been discarded
                pat.append(''.join('(?:' + re.escape(c) for c in run)
                           + ')?' * len(run))
            else:
                pat.append(re.escape(run))
            i = j
        else:
            pat.append(re.escape(src[i]))
            i += 1
    return re.fullmatch(''.join(pat), out, flags=re.S) is not None


def env(name, body='x', args=''):
    return '\\begin{%s}%s%s\\end{%s}' % (name, args, body, name)


# environment names: ordinary ones, and names whose brace group holds more
# than one piece (a command, inline math, a comment, a nested group, blanks)
NAMES = ['e', 'align*', 'my env', ' e', 'e ', ' ', '\t', '\\foo', '\\foo ',
         ' \\foo', '$a$', '$a$ ', ' $a$', 'e% c\n', 'e% c\n ', '{a}', '{a} ',
         'a{b} \\c', '\\a \\b', '] ', 'e\\\\ ']
PROBES = []
for name in NAMES:
    PROBES.append(env(name))
    PROBES.append('pre ' + env(name, body=' \\item a $b$ ', args='[o]{r}')
                  + ' post')
    PROBES.append(env('outer', body=env(name, body='{\\bf }')))
    PROBES.append('\\section{s}\n' + env('itemize', '\n\\item '
                  + env(name) + '\n\\item z\n'))

bad = 0
for src in PROBES:
    try:
        out = str(TexSoup(src))
    except Exception:
        continue        # does not parse in strict mode: outside the property
    if not conserved(src, out):
        bad += 1
        if bad <= 8:
            print('C08 VIOLATED: characters not conserved')
            print('   input : %r' % src)
            print('   output: %r' % out)

if bad:
    print('%d of %d probes violate C08' % (bad, len(PROBES)))
    sys.exit(1)
print('C08 holds on %d probes' % len(PROBES))
sys.exit(0)
