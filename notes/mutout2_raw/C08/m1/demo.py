"""C08 demo 1: serialisation conserves the characters of a parseable input.

usage: demo.py <path of a TexSoup checkout>
exit 0 if the property holds on every probe, exit 1 otherwise.
"""
import re
import sys

sys.path.insert(0, sys.argv[1])
from TexSoup import TexSoup  # noqa: E402

WS = ' \t\n\r'


def conserved(src, out):
    """True iff `out` is `src` with nothing changed except that (tails of)
    whitespace runs standing directly before a `{` or `[` may be missing."""
    pat, i, n = [], 0, len(src)
    while i < n:
        if src[i] in WS:
            j = i
            while j < n and src[j] in WS:
                j += 1
            run = src[i:j]
            if j < n and src[j] in '{[':
                # any tail of the run may have been discarded
                pat.append(''.join('(?:' + re.escape(c) for c in run)
                           + ')?' * len(run))
            else:
                pat.append(re.escape(run))
            i = j
        else:
            pat.append(re.escape(src[i]))
            i += 1
    return re.fullmatch(''.join(pat), out, flags=re.S) is not None


def groups(k):
    return ''.join('{%d}' % i for i in range(1, k + 1))


PROBES = []
# a command with k argument groups, followed by whitespace and a non-letter
for k in (1, 2, 5, 8, 9, 10, 12):
    for tail in (' \\bar', '\n\\bar{x}', ' $x$', '\n\nnew paragraph',
                 ' % note\n', '\t}', ' ', '\n'):
        body = '\\foo' + groups(k) + tail
        if tail == '\t}':
            body = '{' + body
        PROBES.append(body)
# optional and mandatory groups mixed, inside an environment
PROBES.append('\\begin{e}\\foo[o]' + groups(8) + ' \\bar\\end{e}')
PROBES.append('\\begin{e}' + groups(8) + '\n\\item a\n\\end{e}')
PROBES.append('\\foo[a][b][c][d][e][f][g][h][i] $y$')

bad = 0
for src in PROBES:
    try:
        out = str(TexSoup(src))
    except Exception:
        continue        # does not parse in strict mode: outside the property
    if not conserved(src, out):
        bad += 1
        if bad <= 8:
            print('C08 VIOLATED: characters not conserved')
            print('   input : %r' % src)
            print('   output: %r' % out)

if bad:
    print('%d of %d probes violate C08' % (bad, len(PROBES)))
    sys.exit(1)
print('C08 holds on %d probes' % len(PROBES))
sys.exit(0)
