"""C16 demo: serialised output is a fixed point of the parser.

usage: demo.py <path of a TexSoup checkout>
exit 0: property holds on the inputs below; exit 1: violated (details printed).

The inputs write \\section (the one command whose signature bounds the number of
optional arguments) with its bracket argument in front of or behind the title,
followed by nothing, one blank, or a paragraph break.
"""
import sys

sys.path.insert(0, sys.argv[1])
from TexSoup import TexSoup                      # noqa: E402


def shape(e):
    """names, arguments and contents of a tree, nothing else"""
    if isinstance(e, str):                       # TexText / Token / str
        return ('text', str(e))
    return (type(e).__name__, str(e.name),
            tuple(shape(a) for a in e.args),
            tuple(shape(c) for c in e._contents))


def check(src):
    """None if the property holds for src, else a description"""
    try:
        t1 = TexSoup(src)
    except (EOFError, TypeError, AssertionError):
        return None                              # outside the domain
    s1 = str(t1)
    try:
        t2 = TexSoup(s1)
    except Exception as exc:
        return 're-parsing %r (saved from %r) failed: %r' % (s1, src, exc)
    s2 = str(t2)
    if s2 != s1:
        return 'text drifts: %r -> save1 %r -> save2 %r' % (src, s1, s2)
    if shape(t1.expr) != shape(t2.expr):
        return 'tree shape differs for %r / re-parsed %r:\n  %r\n  %r' % (
            src, s1, shape(t1.expr), shape(t2.expr))
    return None


INPUTS = [
    # the usual order: optional argument first
    '\\section[short]{Title}\n\nText',
    '\\section[short]{Title}\n\n\\label{a}',
    '\\section[short] {Title}\n\n\\noindent x',
    '\\section [short]\n{Title} \\foo',
    # the optional argument behind the title, then: nothing / one blank
    '\\section{Title}[short]\\foo',
    '\\section{Title}[short] \\foo',
    '\\section{Title}[short]\n\\foo{a}',
    '\\section{Title}[short] [x] {y}',
    '\\section{Title}[short]\n\nText',
    # ... then a paragraph break in front of a command, math, a group, the end
    '\\section{Title}[short]\n\n\\foo',
    '\\section {Title}[short] \n\n$x$',
    '\\section{Title}[short]\n\n{y}',
    '\\section{Title}[short]\n\n',
    '\\begin{e}\\section{Title}[short]\n\n\\end{e}',
    '\\begin{itemize}\\item \\section{Title}[short]\n\n\\item b\\end{itemize}',
]


def main():
    bad = [msg for msg in map(check, INPUTS) if msg]
    for msg in bad:
        print('C16 VIOLATED:', msg)
    if bad:
        return 1
    print('C16 holds on %d inputs' % len(INPUTS))
    return 0


if __name__ == '__main__':
    sys.exit(main())
