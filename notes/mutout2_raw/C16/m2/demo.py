"""C16 demo: serialised output is a fixed point of the parser.

usage: demo.py <path of a TexSoup checkout>
exit 0: property holds on the inputs below; exit 1: violated (details printed).

The inputs use Windows (CR LF) and mixed line ends directly behind a
non-text token (command name, closing brace/bracket, math switch, comment).
"""
import sys

sys.path.insert(0, sys.argv[1])
from TexSoup import TexSoup                      # noqa: E402


def shape(e):
    """names, arguments and contents of a tree, nothing else"""
    if isinstance(e, str):                       # TexText / Token / str
        return ('text', str(e))
    return (type(e).__name__, str(e.name),
            tuple(shape(a) for a in e.args),
            tuple(shape(c) for c in e._contents))


def check(src):
    """None if the property holds for src, else a description"""
    try:
        t1 = TexSoup(src)
    except (EOFError, TypeError, AssertionError):
        return None                              # outside the domain
    s1 = str(t1)
    try:
        t2 = TexSoup(s1)
    except Exception as exc:
        return 're-parsing %r (saved from %r) failed: %r' % (s1, src, exc)
    s2 = str(t2)
    if s2 != s1:
        return 'text drifts: %r -> save1 %r -> save2 %r' % (src, s1, s2)
    if shape(t1.expr) != shape(t2.expr):
        return 'tree shape differs for %r / re-parsed %r:\n  %r\n  %r' % (
            src, s1, shape(t1.expr), shape(t2.expr))
    return None


INPUTS = [
    # plain documents, LF and CR LF
    '\\section{A}\n\\label{a}\n\n\\textbf{x} $y$\n',
    '\\section{A}\r\n\\label{a}\r\n\r\n\\textbf{x} $y$\r\n',
    '\\begin{itemize}\r\n\\item a\r\n\\item[b] c\r\n\\end{itemize}\r\n',
    '\\foo\r\n{a}', '\\foo\r\n\\bar', '\\foo\r\\bar', '\\foo\n\r\\bar',
    # a CR LF line end followed by one more LF (mixed line ends)
    '\\foo\r\n\n\\bar',
    '\\foo{a}\r\n\n$x$',
    '\\begin{e}\r\n\n\\item a\r\n\n\\end{e}',
    '%comment\r\n\n\\foo',
    '$x$\r\n\n{y}',
    '\\foo[a]\r\n \n{b}',
]


def main():
    bad = [msg for msg in map(check, INPUTS) if msg]
    for msg in bad:
        print('C16 VIOLATED:', msg)
    if bad:
        return 1
    print('C16 holds on %d inputs' % len(INPUTS))
    return 0


if __name__ == '__main__':
    sys.exit(main())
