"""C07 demo 1: single lost closers in well-formed documents.

For well-formed documents without math, verbatim or list regions, delete one
closing delimiter at a time (one `}`, one `]` of an argument, or one
`\\end{name}`).  The property requires, for every such deletion:

  * strict parsing (tolerance=0) reports an error,
  * tolerant parsing (tolerance=1) succeeds,
  * the tolerant output is the damaged input with nothing changed except
    inserted closing delimiters (`}`, `]`, `\\end{name}`).

For the undamaged documents it also requires that strict and tolerant parsing
give an identical tree and text.

usage: demo.py /path/to/TexSoup-checkout
exit 0: property holds, exit 1: property violated
"""
import re
import sys
from functools import lru_cache

sys.path.insert(0, sys.argv[1])
sys.setrecursionlimit(10000)

from TexSoup import TexSoup  # noqa: E402


DOCS = [
    # plain commands with one kind of argument
    r'\title{A short note} and \emph{some \textbf{nested} words} here.',
    r'\usepackage[utf8]{inputenc} then \cite[p. 3]{knuth} ok.',
    # environments, nested, with arguments
    r'\begin{document} intro \begin{center} middle \end{center} outro \end{document}',
    r'\begin{figure}[ht] \caption{A plot} \label{fig:a} \end{figure} tail',
    # required / optional / required argument lists (macro definitions,
    # boxes, ...)
    r'\newcommand{\foo}[1]{some body text} after',
    r'\begin{document} \parbox{3cm}[t]{boxed \emph{words} inside} rest \end{document}',
    r'\savebox{\bar}[2cm]{left \begin{quote} q \end{quote} right} done',
    r'{\makebox{a}[c]{centered}} and \framebox{b}[r]{\textit{it}} end',
]

CLOSER = re.compile(r'\\end\{[A-Za-z*]+\}|\}|\]')


def inserted_closer_end(output, j):
    """End index of a closer (`}`, `]`, `\\end{name}`) starting at output[j],
    or -1.  The name group of an inserted `\\end{name}` is brace-balanced (the
    name of a damaged `\\begin{name` can itself contain groups)."""
    if output[j] in '}]':
        return j + 1
    if output.startswith('\\end{', j):
        depth, k = 0, j + 4
        while k < len(output):
            if output[k] == '{':
                depth += 1
            elif output[k] == '}':
                depth -= 1
                if depth == 0:
                    return k + 1
            k += 1
    return -1


def parse(text, tolerance):
    try:
        soup = TexSoup(text, tolerance=tolerance)
        return True, (str(soup), repr(soup.expr._contents))
    except Exception as exc:  # noqa: BLE001 - any failure counts as "error"
        return False, '%s: %s' % (type(exc).__name__, str(exc).split('\n')[0])


def only_closers_inserted(source, output):
    """True iff `output` is `source` with only closers inserted."""
    @lru_cache(maxsize=None)
    def walk(i, j):
        if j == len(output):
            return i == len(source)
        if i < len(source) and source[i] == output[j] and walk(i + 1, j + 1):
            return True
        end = inserted_closer_end(output, j)
        return end > 0 and walk(i, end)
    return walk(0, 0)


def damaged_versions(doc):
    """Every single-closer deletion of doc."""
    for m in CLOSER.finditer(doc):
        # an \end{name} is removed as a whole; every other `}` / `]` singly
        yield m.group(0), m.start(), doc[:m.start()] + doc[m.end():]


def main():
    failures = []

    for doc in DOCS:
        ok0, res0 = parse(doc, 0)
        ok1, res1 = parse(doc, 1)
        if not ok0:
            failures.append('well-formed doc rejected by strict parser: %r (%s)'
                            % (doc, res0))
            continue
        if not ok1 or res0 != res1:
            failures.append('strict ok but tolerant differs on %r:\n  strict  : %r'
                            '\n  tolerant: %r' % (doc, res0, res1))

        for closer, pos, broken in damaged_versions(doc):
            what = 'lost %r at %d in %r' % (closer, pos, doc)
            ok0, res0 = parse(broken, 0)
            ok1, res1 = parse(broken, 1)
            if ok0:
                failures.append('%s: strict parsing reported no error' % what)
            if not ok1:
                failures.append('%s: tolerant parsing failed with %s'
                                % (what, res1))
            elif not only_closers_inserted(broken, res1[0]):
                failures.append('%s: tolerant output is not input + closers:\n'
                                '  input : %r\n  output: %r'
                                % (what, broken, res1[0]))

    if failures:
        print('PROPERTY C07 VIOLATED (%d finding(s)):' % len(failures))
        for f in failures:
            print(' -', f)
        return 1
    print('C07 holds on all checked documents and closer deletions')
    return 0


if __name__ == '__main__':
    sys.exit(main())
