"""C07 demo 2: tolerant mode must not alter the reading of input that the
strict parser accepts.

Property (first sentence of C07): whenever strict parsing (tolerance=0)
succeeds, tolerant parsing (tolerance=1) returns an identical tree and text.
It is quantified over *all* strings, not only over well-formed documents, so
the corpus below also contains strings with stray delimiters that the strict
parser accepts as plain text (TexSoup is a fault-tolerant parser: an unmatched
`}` or `]` outside an argument is kept as text).

Every string is built from a few contexts (top level, environment body,
nested environment, optional argument, item, bare group) crossed with a few
fillers (ordinary text, commands, stray closers).  Strings that the strict
parser rejects are skipped - the sentence says nothing about them.

usage: demo.py /path/to/TexSoup-checkout
exit 0: property holds, exit 1: property violated
"""
import sys

sys.path.insert(0, sys.argv[1])

from TexSoup import TexSoup  # noqa: E402


FILLERS = [
    r'plain words',
    r'\emph{x} and \cite[p. 3]{k}',
    r'{grouped} text',
    r'a ] b',            # stray closing bracket
    r'a } b',            # stray closing brace
    r'a } b } c',
    r'\emph{x} } \emph{y}',
    r'] }',
    r'%} comment' '\n' r' next line',
]

CONTEXTS = [
    '%s',
    'before %s after',
    r'\begin{quote} %s \end{quote}',
    r'\begin{quote}%s\end{quote} trailing \textbf{text}',
    r'\begin{document} \begin{center} %s \end{center} \end{document}',
    r'\begin{figure}[ht] %s \caption{c} \end{figure}',
    r'\section{T} \begin{abstract} one %s two \end{abstract} three',
    r'\foo[%s]{arg}',
    r'{\small %s}',
    r'\begin{itemize} \item first %s \end{itemize}',
    r'\begin{itemize} \item[k] a \item b \end{itemize} %s',
]


def parse(text, tolerance):
    try:
        soup = TexSoup(text, tolerance=tolerance)
        return True, (str(soup), repr(soup.expr._contents))
    except Exception as exc:  # noqa: BLE001
        return False, '%s: %s' % (type(exc).__name__, str(exc).split('\n')[0])


def main():
    failures = []
    checked = skipped = 0
    for ctx in CONTEXTS:
        for fill in FILLERS:
            text = ctx % fill
            ok0, strict = parse(text, 0)
            if not ok0:
                skipped += 1
                continue
            checked += 1
            ok1, tolerant = parse(text, 1)
            if not ok1:
                failures.append('strict parsing succeeds but tolerant parsing '
                                'fails on %r: %s' % (text, tolerant))
            elif strict != tolerant:
                failures.append(
                    'strict and tolerant parses differ on %r:\n'
                    '    strict   text: %r\n    tolerant text: %r\n'
                    '    strict   tree: %s\n    tolerant tree: %s'
                    % (text, strict[0], tolerant[0], strict[1], tolerant[1]))

    print('%d strict-parsable strings compared, %d rejected by strict parsing '
          '(skipped)' % (checked, skipped))
    if failures:
        print('PROPERTY C07 VIOLATED (%d finding(s)):' % len(failures))
        for f in failures:
            print(' -', f)
        return 1
    print('C07 (tolerant == strict wherever strict succeeds) holds')
    return 0


if __name__ == '__main__':
    sys.exit(main())
