"""C02 demo: a command (or \\begin{env}) owns every argument group that is
written directly behind it - kind, order and contents as written - however
many groups there are; none of them is split off as a sibling.

usage: demo.py <path of a TexSoup checkout>
exit 0: property holds, exit 1: violated (details printed)
"""
import sys

sys.path.insert(0, sys.argv[1])

from TexSoup import TexSoup                                   # noqa: E402
from TexSoup.data import (TexCmd, TexEnv, TexNamedEnv, TexText,  # noqa: E402
                          BraceGroup, BracketGroup)


def find(expr, pred):
    """First expression satisfying pred, depth first through arguments and
    contents."""
    if not isinstance(expr, (TexCmd, TexEnv)):
        return None
    if pred(expr):
        return expr
    for child in list(expr.args) + list(expr._contents):
        found = find(child, pred)
        if found is not None:
            return found
    return None


def parent_list_of(root, target):
    """The content list (of an expression or a group) that holds target."""
    if not isinstance(root, (TexCmd, TexEnv)):
        return None
    if any(c is target for c in root._contents):
        return root._contents
    for child in list(root.args) + list(root._contents):
        found = parent_list_of(child, target)
        if found is not None:
            return found
    return None


def groups_source(kinds):
    """kinds: string over 'o' (bracket) and 'r' (brace); the i-th group
    contains the text a<i>."""
    out, expected = [], []
    for i, k in enumerate(kinds):
        body = 'a%d' % i
        out.append('[%s]' % body if k == 'o' else '{%s}' % body)
        expected.append((BracketGroup if k == 'o' else BraceGroup, body))
    return ''.join(out), expected


def check_args(label, src, owner, expected, root, problems):
    got = [(type(a), ''.join(str(c) for c in a._contents))
           for a in owner.args]
    if got != expected:
        problems.append(
            '%s: %d argument groups written, the tree has %d: %s  [source %r]'
            % (label, len(expected), len(got),
               ''.join(str(a) for a in owner.args), src))
    # nothing that was written as an argument may show up as a sibling
    siblings = parent_list_of(root, owner)
    if siblings is not None:
        pos = [i for i, c in enumerate(siblings) if c is owner][0]
        tail = siblings[pos + 1:pos + 2]
        if tail and isinstance(tail[0], (BraceGroup, BracketGroup)) or \
                tail and isinstance(tail[0], TexText) and str(tail[0]) == '[':
            problems.append('%s: an argument group was split off as a '
                            'sibling: %r  [source %r]'
                            % (label, str(tail[0]), src))


def main():
    problems = []
    wrappers = [
        ('top level', '%s tail'),
        ('inside an item', r'\begin{itemize}\item x %s y\item z\end{itemize}'),
        ('inside math in an argument', r'\emph{p $ %s + 1 $ q}'),
    ]
    kinds_list = ['r' * n for n in (1, 2, 3, 5, 8, 9, 10, 12)] + \
                 ['o' * n + 'r' for n in (1, 2, 9, 10, 11)] + \
                 ['orrrrrrrrrr', 'rrrrrrrrrorr']

    for kinds in kinds_list:
        groups, expected = groups_source(kinds)
        for where, wrapper in wrappers:
            # a command
            src = wrapper % (r'\cmd' + groups)
            label = 'command with groups %s, %s' % (kinds, where)
            try:
                soup = TexSoup(src)
            except Exception as exc:
                problems.append('%s: %r raised %s: %s'
                                % (label, src, type(exc).__name__, exc))
                continue
            owner = find(soup.expr, lambda e: isinstance(e, TexCmd)
                         and e.name == 'cmd')
            if owner is None:
                problems.append('%s: no \\cmd in the tree of %r' % (label, src))
            else:
                check_args(label, src, owner, expected, soup.expr, problems)

        # an environment: the name group is \begin's first argument, the
        # written groups are the arguments of the environment
        src = r'before \begin{env}' + groups + r' body\end{env} after'
        label = 'environment with groups %s' % kinds
        try:
            soup = TexSoup(src)
        except Exception as exc:
            problems.append('%s: %r raised %s: %s'
                            % (label, src, type(exc).__name__, exc))
            continue
        env = find(soup.expr, lambda e: isinstance(e, TexNamedEnv)
                   and e.name == 'env')
        if env is None:
            problems.append('%s: no env in the tree of %r' % (label, src))
            continue
        got = [(type(a), ''.join(str(c) for c in a._contents))
               for a in env.args]
        body = ''.join(str(c) for c in env._contents)
        if got != expected or body != ' body':
            problems.append(
                '%s: %d argument groups written, the tree has %d; body is %r,'
                ' written body was %r  [source %r]'
                % (label, len(expected), len(got), body, ' body', src))

    if problems:
        print('C02 violated:')
        for p in problems:
            print('  -', p)
        return 1
    print('C02 holds on the probed argument runs')
    return 0


if __name__ == '__main__':
    sys.exit(main())
