"""C02 demo: an \\item owns the content up to the next \\item or the end of
its list, whatever the commands in that content are called.

usage: demo.py <path of a TexSoup checkout>
exit 0: property holds, exit 1: violated (details printed)
"""
import sys

sys.path.insert(0, sys.argv[1])

from TexSoup import TexSoup                      # noqa: E402
from TexSoup.data import TexCmd, TexEnv, TexText  # noqa: E402


def cmd_names(contents):
    """Names of the commands that are direct members of a content list."""
    return [str(c.name) for c in contents if isinstance(c, TexCmd)]


def check_list(env, expected, label, problems):
    """env: TexNamedEnv of a list; expected: [(body source, [direct command
    names in the body])] - one entry per \\item, in order."""
    members = [c for c in env._contents
               if not (isinstance(c, TexText) and str(c).isspace())]
    stray = [c for c in members
             if not (isinstance(c, TexCmd) and c.name == 'item')]
    if stray:
        problems.append('%s: list has members that are not items: %r'
                        % (label, [str(s) for s in stray]))
    items = [c for c in members if isinstance(c, TexCmd) and c.name == 'item']
    if len(items) != len(expected):
        problems.append('%s: %d items expected, %d found'
                        % (label, len(expected), len(items)))
    for k, (item, (body, names)) in enumerate(zip(items, expected)):
        got = ''.join(str(c) for c in item._contents)
        if got != body:
            problems.append('%s: item %d owns %r, written body was %r'
                            % (label, k, got, body))
        if cmd_names(item._contents) != names:
            problems.append('%s: item %d has commands %r, written were %r'
                            % (label, k, cmd_names(item._contents), names))


def find_env(expr, name):
    """First environment called `name`, depth first, through contents and
    argument groups."""
    if not isinstance(expr, (TexCmd, TexEnv)):
        return None
    if isinstance(expr, TexEnv) and expr.name == name:
        return expr
    for child in list(expr.args) + list(expr._contents):
        found = find_env(child, name)
        if found is not None:
            return found
    return None


def main():
    problems = []

    # (label, list name, wrapper, [(body, direct command names)])
    cases = [
        ('plain commands', 'itemize', '%s',
         [(r' a \emph{n} b', ['emph']), (r' c \textbf{d}', ['textbf'])]),
        ('itemsep inside an item', 'itemize', '%s',
         [(r' a\itemsep b', ['itemsep']), (r' c', [])]),
        ('endnote inside an item', 'enumerate', '%s',
         [(r' first\endnote{n} rest', ['endnote']),
          (r' second \itemindent more', ['itemindent'])]),
        ('endgroup after math, list inside a group', 'itemize', 'x {%s} y',
         [(r' $q$ \begingroup s\endgroup t', ['begingroup', 'endgroup']),
          (r' u', [])]),
        ('list inside an environment', 'description', r'\begin{center}%s\end{center}',
         [(r'[k] v \itemize w', ['itemize']), (r'[l] z', [])]),
    ]
    for label, name, wrapper, items in cases:
        src = wrapper % (r'\begin{%s}' % name
                         + ''.join(r'\item' + body for body, _ in items)
                         + r'\end{%s}' % name)
        try:
            soup = TexSoup(src)
        except Exception as exc:   # well-formed input must parse
            problems.append('%s: %r raised %s: %s'
                            % (label, src, type(exc).__name__, exc))
            continue
        env = find_env(soup.expr, name)
        if env is None:
            problems.append('%s: no %s environment in the tree of %r'
                            % (label, name, src))
            continue
        # optional argument of \item is an argument, not body
        expected = []
        for body, names in items:
            if body.startswith('['):
                body = body[body.index(']') + 1:]
            expected.append((body, names))
        check_list(env, expected, '%s %r' % (label, src), problems)

    if problems:
        print('C02 violated:')
        for p in problems:
            print('  -', p)
        return 1
    print('C02 holds on the probed list documents')
    return 0


if __name__ == '__main__':
    sys.exit(main())
