"""C05 demo 1: deleting a node must remove exactly that node's own span, also
when an identical node (here: a copy of it, inserted with the documented
``.copy()`` idiom, or the node re-used as replacement text) lives in another
container of the document.

usage: demo.py <path of a TexSoup checkout>
exit 0: property holds, exit 1: violated
"""
import sys

sys.path.insert(0, sys.argv[1])

from TexSoup import TexSoup  # noqa: E402

failures = []


def check(label, got, expected):
    if got != expected:
        failures.append('%s\n    expected: %r\n    got:      %r'
                        % (label, expected, got))


def pick(container, text, k=0):
    """k-th descendant-or-child of `container` whose text is `text`."""
    hits = [n for n in container.contents
            if not isinstance(n, str) and str(n) == text]
    return hits[k]


# 1. copy of a node from the body of one environment inserted into the body of
#    another one, then the ORIGINAL is deleted
src = r'\begin{a}u \x{1} v\end{a} mid \begin{b}w\end{b}'
soup = TexSoup(src)
target = pick(soup.a, r'\x{1}')
soup.b.insert(0, target.copy())
check('insert of the copy', str(soup),
      r'\begin{a}u \x{1} v\end{a} mid \begin{b}\x{1}w\end{b}')
target.delete()
check('delete original after its copy was inserted into another environment',
      str(soup), r'\begin{a}u  v\end{a} mid \begin{b}\x{1}w\end{b}')

# 2. same, but the inserted occurrence is the one deleted
soup = TexSoup(src)
target = pick(soup.a, r'\x{1}')
soup.b.insert(0, target.copy())
pick(soup.b, r'\x{1}').delete()
check('delete the inserted copy', str(soup), src)

# 3. original sits in an argument group, its copy goes into an item body
src = r'\begin{itemize}\item one \item two\end{itemize}\cmd{p\y q}{r}'
soup = TexSoup(src)
target = pick(soup.cmd, r'\y')
items = soup.find_all('item')
items[1].append(target.copy())
check('append of the copy', str(soup),
      r'\begin{itemize}\item one \item two\y\end{itemize}\cmd{p\y q}{r}')
target.delete()
check('delete original (in an argument) after its copy went into an \\item',
      str(soup),
      r'\begin{itemize}\item one \item two\y\end{itemize}\cmd{p q}{r}')

# 4. an existing node is used as replacement text inside a group (the idiom of
#    tests/test_api.py::test_replace_single), then the original is deleted
src = r'{a\old b} and \begin{e}c\new{2}d\end{e}'
soup = TexSoup(src)
group = soup.contents[0]
new = pick(soup.e, r'\new{2}')
pick(group, r'\old').replace_with(new)
check('replace with an existing node', str(soup),
      r'{a\new{2} b} and \begin{e}c\new{2}d\end{e}')
new.delete()
check('delete original after it was used as a replacement elsewhere',
      str(soup), r'{a\new{2} b} and \begin{e}cd\end{e}')

if failures:
    print('PROPERTY C05 VIOLATED')
    for f in failures:
        print(' - ' + f)
    sys.exit(1)
print('ok')
sys.exit(0)
