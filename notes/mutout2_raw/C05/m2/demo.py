"""C05 demo 2: replacing a node with a list of new nodes/strings, or inserting
such a list at an index, must splice the new text in at exactly that place, in
the order given, with every other character unchanged.  Here some of the new
nodes are whole freshly parsed soups (``TexSoup(r'...')``) with more or fewer
than one top-level element.

usage: demo.py <path of a TexSoup checkout>
exit 0: property holds, exit 1: violated
"""
import sys

sys.path.insert(0, sys.argv[1])

from TexSoup import TexSoup  # noqa: E402

failures = []


def check(label, got, expected):
    if got != expected:
        failures.append('%s\n    expected: %r\n    got:      %r'
                        % (label, expected, got))


def pick(container, text, k=0):
    hits = [n for n in container.contents
            if not isinstance(n, str) and str(n) == text]
    return hits[k]


def new(text):
    """a new node: the soup of a freshly parsed snippet"""
    node = TexSoup(text)
    assert str(node) == text
    return node


# controls: one-element soups, and a many-element soup in last place
soup = TexSoup(r'\begin{e}a \old b\end{e}')
pick(soup.e, r'\old').replace_with(new(r'\p{1}'), 'Z')
check('replace with (soup of one command, string)', str(soup),
      r'\begin{e}a \p{1}Z b\end{e}')

soup = TexSoup(r'\begin{e}a \old b\end{e}')
pick(soup.e, r'\old').replace_with('Z', new(r'\p{1} and \q'))
check('replace with (string, soup of three elements)', str(soup),
      r'\begin{e}a Z\p{1} and \q b\end{e}')

# 1. environment body: a soup with two commands followed by a string
soup = TexSoup(r'\begin{e}a \old b\end{e}')
pick(soup.e, r'\old').replace_with(new(r'\p\q'), 'Z')
check('replace in a body with (soup of two commands, string)', str(soup),
      r'\begin{e}a \p\qZ b\end{e}')

# 2. argument group: three replacements, the middle one a soup of three parts
soup = TexSoup(r'\cmd{x\old y}[opt]')
pick(soup.cmd, r'\old').replace_with('<', new(r'\p{1} and $m$'), '>')
check('replace in an argument with (string, soup of three elements, string)',
      str(soup), r'\cmd{x<\p{1} and $m$> y}[opt]')

# 3. item body: soup followed by another soup
soup = TexSoup(r'\begin{itemize}\item[k] one \old two\item z\end{itemize}')
item = soup.find_all('item')[0]
pick(item, r'\old').replace_with(new(r'{g}\p'), new(r'\q{2}'))
check('replace in an \\item with (soup of two elements, soup of one)',
      str(soup),
      r'\begin{itemize}\item[k] one {g}\p\q{2} two\item z\end{itemize}')

# 4. insert at an index: an empty soup followed by a string
soup = TexSoup(r'{\a\b\c}')
group = soup.contents[0]
group.insert(1, new(''), 'Z')
check('insert (empty soup, string) at index 1 of a group', str(soup),
      r'{\aZ\b\c}')

# 5. insert at index 0 of the document
soup = TexSoup(r'\a\b')
soup.insert(0, new(r'\p\q\r'), new(r'\s'))
check('insert (soup of three commands, soup of one) at index 0', str(soup),
      r'\p\q\r\s\a\b')

if failures:
    print('PROPERTY C05 VIOLATED')
    for f in failures:
        print(' - ' + f)
    sys.exit(1)
print('ok')
sys.exit(0)
