"""C20 demo 1: num_forward_until must not move the cursor (list + index model).

Runs short operation scripts on a Buffer and on a plain list with an integer
index and compares every returned value and the cursor after every step.
"""
import sys

sys.path.insert(0, sys.argv[1])

from TexSoup.utils import Buffer  # noqa: E402


class Model:
    def __init__(self, items):
        self.items, self.i = list(items), 0

    def forward(self, j):
        out = ''.join(self.items[self.i:self.i + j])
        self.i += j
        return out

    def backward(self, j):
        self.i -= j
        return ''.join(self.items[self.i:self.i + j])

    def next(self):
        self.i += 1
        return self.items[self.i - 1]

    def peek(self, j):
        k = self.i + j
        return self.items[k] if 0 <= k < len(self.items) else None

    def num_forward_until(self, cond):
        n = 0
        while self.i + n < len(self.items) and not cond(self.items[self.i + n]):
            n += 1
        return n


def run(items, script):
    """script: list of (op, arg). Returns a list of failures."""
    failures = []
    buf, model = Buffer(items), Model(items)
    trace = []
    for op, arg in script:
        trace.append((op, arg if not callable(arg) else '<cond>'))
        if op == 'next':
            got, want = next(buf), model.next()
        elif op == 'num_forward_until':
            got, want = buf.num_forward_until(arg), model.num_forward_until(arg)
        else:
            got, want = getattr(buf, op)(arg), getattr(model, op)(arg)
        if got != want:
            failures.append('%r: after %r returned %r, model %r'
                            % (items, trace, got, want))
            break
        if buf.position != model.i:
            failures.append('%r: after %r cursor is %d, model %d'
                            % (items, trace, buf.position, model.i))
            break
    return failures


def never(_):
    return False


def main():
    failures = []
    for items in ('abcdef', ['ab', 'c', 'de', 'f'], ['x', 'yz', 'x', 'yz', 'w']):
        n = len(items)
        last = items[-1]
        for j in range(2, n + 1):            # un-peeked multi-step forward
            for k in range(1, j + 1):        # step back into that stretch
                for cond in (never, lambda s, last=last: s == last):
                    script = [('forward', j), ('backward', k),
                              ('num_forward_until', cond),
                              ('peek', 0), ('next', None)]
                    failures += run(items, script)
        # same scans, but everything was looked at one item at a time first
        for k in range(n):
            script = [('next', None)] * k + [('num_forward_until', never),
                                             ('peek', 0)]
            failures += run(items, script)
    if failures:
        print('C20 violated: %d failing scripts, e.g.' % len(failures))
        for f in failures[:5]:
            print('  ' + f)
        return 1
    print('C20 holds on the scripts tried')
    return 0


if __name__ == '__main__':
    sys.exit(main())
