"""C20 demo 2: startswith agrees with a plain list + index and never moves
the cursor, for string-backed and token-backed buffers.

Model: buffer.startswith(s) at cursor i  <=>  ''.join(items[i:]).startswith(s)
(items are non-empty strings).
"""
import sys

sys.path.insert(0, sys.argv[1])

from TexSoup.utils import Buffer  # noqa: E402
from TexSoup.category import categorize  # noqa: E402
from TexSoup.tokens import tokenize  # noqa: E402


def sequences():
    yield 'str', lambda: Buffer('abcab'), list('abcab')
    for items in (['ab', 'c', 'de'], ['abc'], ['a', 'bcd', 'e', 'fg'],
                  ['xy', 'xy', 'x']):
        yield 'list', (lambda items=items: Buffer(items)), items
    for src in (r'\end{verbatim} tail', r'ab \item cd', r'$x^2$ and more'):
        toks = [str(t) for t in Buffer(tokenize(categorize(src)))]
        yield 'tokens', (lambda src=src: Buffer(tokenize(categorize(src)))), toks


def main():
    failures = []
    for kind, make, items in sequences():
        for i in range(len(items) + 1):
            rest = ''.join(items[i:])
            probes = [rest[:p] for p in range(len(rest) + 1)]
            probes += [rest[:p] + '\0' for p in range(len(rest) + 1)]
            probes += [rest + 'z']
            for look in (False, True):
                for s in probes:
                    buf = make()
                    if i:
                        buf.forward(i)
                    if look:                 # fill the look-ahead first
                        buf.peek((0, len(items)))
                    want = rest.startswith(s)
                    got = buf.startswith(s)
                    if got != want:
                        failures.append(
                            '%s %r at cursor %d: startswith(%r) -> %r, '
                            'model %r' % (kind, items, i, s, got, want))
                    if buf.position != i:
                        failures.append(
                            '%s %r at cursor %d: startswith(%r) moved the '
                            'cursor to %d' % (kind, items, i, s, buf.position))
    if failures:
        print('C20 violated: %d mismatches, e.g.' % len(failures))
        for f in failures[:6]:
            print('  ' + f)
        return 1
    print('C20 holds on the cases tried')
    return 0


if __name__ == '__main__':
    sys.exit(main())
