"""C17 demo: parses are isolated from each other and from edits.

Two checks, both taken from the statement of the property:

 1. parsing the same source twice yields equal trees that share no mutable
    state (no expression object, argument list or contents list is common to
    the two trees);
 2. edits made to the tree of one document never influence a later parse of
    another document (here: every command of document A gets one more
    argument appended, then document B is parsed again).

Usage: demo.py <path-to-TexSoup-checkout>
"""
import sys

sys.path.insert(0, sys.argv[1])

from TexSoup import TexSoup  # noqa: E402
from TexSoup.data import TexExpr, TexText, TexCmd, TexArgs  # noqa: E402


def dump(x):
    """Structural picture of a parse tree (no object identities)."""
    if isinstance(x, TexText):
        return ('text', str(x))
    if isinstance(x, TexExpr):
        return (type(x).__name__, str(x.name),
                tuple(dump(a) for a in x.args),
                tuple(dump(c) for c in x._contents))
    return ('str', str(x))


def walk(x):
    """All expressions of a tree, arguments included."""
    if isinstance(x, TexExpr):
        yield x
        if not isinstance(x, TexText):
            for a in x.args:
                yield from walk(a)
            for c in x._contents:
                yield from walk(c)


def mutable_parts(root):
    """id -> description of every mutable container reachable in a tree."""
    parts = {}
    for e in walk(root):
        label = '%s %r' % (type(e).__name__, str(e))
        parts[id(e)] = 'expression ' + label
        parts[id(e.args)] = 'argument list of ' + label
        parts[id(e.args.all)] = 'argument list (.all) of ' + label
        parts[id(e._contents)] = 'contents list of ' + label
    return parts


SOURCES = [
    r'\section{Sets} Let $x \in A \cup B$ and $y \notin A \cap B$.',
    '\\noindent The limit is $\\infty$.\n\n'
    '\\begin{itemize}\\item $a \\in \\textbf{R}$ \\item b\\end{itemize}',
    r'\begin{equation} n \to \infty, \quad \left( S \cup T \right) \end{equation}',
]

problems = []

# 1. same source twice: equal trees, nothing mutable in common
for src in SOURCES:
    one, two = TexSoup(src), TexSoup(src)
    if dump(one.expr) != dump(two.expr) or str(one) != str(two):
        problems.append('two parses of %r differ' % src)
    p1, p2 = mutable_parts(one.expr), mutable_parts(two.expr)
    for key in sorted(set(p1) & set(p2)):
        problems.append('two parses of %r share the %s' % (src, p1[key]))

# 2. edits in the tree of A must not show up in a later parse of B
for i, src_a in enumerate(SOURCES):
    for j, src_b in enumerate(SOURCES):
        if i == j:
            continue
        fresh = TexSoup(src_b)
        expected = dump(fresh.expr), str(fresh)
        a = TexSoup(src_a)
        for e in list(walk(a.expr)):
            if isinstance(e, TexCmd):
                e.args.append('{EDITED}')
        b = TexSoup(src_b)
        got = dump(b.expr), str(b)
        if got != expected:
            problems.append(
                'after editing the tree of %r, parsing %r gives %r instead '
                'of %r' % (src_a, src_b, got[1], expected[1]))
            break
    if problems:
        break

if problems:
    for p in problems[:12]:
        print(p)
    print('C17 VIOLATED (%d finding(s))' % len(problems))
    sys.exit(1)
print('C17 holds on the sources and histories tried')
sys.exit(0)
