"""C17 demo: a parse must not be influenced by earlier parses.

Each document B is parsed first in a pristine state, then again after some
other document A has been parsed in the same process.  The two trees of B
(structure, names, arguments, text) and their serialisations must be
identical.  Usage: demo.py <path-to-TexSoup-checkout>
"""
import sys

sys.path.insert(0, sys.argv[1])

from TexSoup import TexSoup  # noqa: E402
from TexSoup.data import TexExpr, TexText, TexArgs  # noqa: E402


def dump(x):
    """Structural picture of a parse tree (no object identities)."""
    if isinstance(x, TexText):
        return ('text', str(x))
    if isinstance(x, TexExpr):
        return (type(x).__name__, str(x.name),
                tuple(dump(a) for a in x.args),
                tuple(dump(c) for c in x._contents))
    return ('str', str(x))


def picture(src):
    soup = TexSoup(src)
    return dump(soup.expr), str(soup)


# (document parsed in between, document whose parse must not change)
HISTORIES = [
    # norms written with \left\| ... \right\|, then a set in \left\{ \right\}
    (r'$\left\| v \right\| \leq 1$',
     r'$\left\{ x \mid x > 0 \right\}$'),
    (r'$\bigg\lVert w \bigg\rVert$ and $\Bigg\lvert w \Bigg\rvert$',
     r'$\bigg\langle a, b \bigg\rangle + \Bigg\lfloor c \Bigg\rfloor$'),
    (r'$\left\lvert a \right\rvert$, $\left\lVert b \right\rVert$',
     r'$\left\langle a \right\rangle \left\lfloor b \right\rfloor'
     r' \left\lceil c \right\rceil$'),
    (r'$\big\lbrace a \big\rbrace \left\uparrow b \right\downarrow$',
     r'$\big\lbrack a \big\rbrack \left\ulcorner b \right\urcorner$'),
]

failures = []
for other, doc in HISTORIES:
    before = picture(doc)
    TexSoup(other)                      # an unrelated earlier parse
    after = picture(doc)
    if before != after:
        failures.append((other, doc, before, after))

if failures:
    for other, doc, before, after in failures:
        print('parse of %r changed after parsing %r' % (doc, other))
        print('   first :', before[0])
        print('   later :', after[0])
    print('C17 VIOLATED: an earlier parse influenced a later one')
    sys.exit(1)
print('C17 holds on the histories tried')
sys.exit(0)
