"""C18 demo 2: the serialisation of an argument list (and what the owning node
prints) is always the concatenation of its groups in list order, after any
sequence of list operations - also when the very same group object is stored
in the list more than once, as a Python list allows.

Each case replays operations on a node's argument list and on a plain Python
list holding the same group objects, and compares after every step the
outcome, the contents (by identity), str(args) and the node's output.

usage: demo.py /path/to/TexSoup-checkout
exit 0: property holds, exit 1: violated.
"""
import sys

sys.path.insert(0, sys.argv[1])

from TexSoup import TexSoup  # noqa: E402
from TexSoup.data import BraceGroup, BracketGroup  # noqa: E402


def outcome(obj, name, params):
    try:
        r = getattr(obj, name)(*params)
    except Exception as e:
        return ('raised', type(e).__name__)
    return ('returned', None if r is None else str(r))


def replay(source, ops):
    """ops: (method, params); a param ('arg', k) stands for the group that is
    at index k of the list at that moment, ('new', s) for a fresh group parsed
    from the string s (coerced by the argument list itself)."""
    node = TexSoup(source).cmd
    args = node.args
    model = list(args)              # same objects, plain Python list
    failures = []
    history = []
    for name, params in ops:
        real, mod = [], []
        for p in params:
            if isinstance(p, tuple) and p[0] == 'arg':
                real.append(model[p[1]])
                mod.append(model[p[1]])
            elif isinstance(p, tuple) and p[0] == 'new':
                g = (BraceGroup if p[1][0] == '{' else BracketGroup)(p[1][1:-1])
                real.append(g)
                mod.append(g)
            else:
                real.append(p)
                mod.append(p)
        got = outcome(args, name, real)
        want = outcome(model, name, mod)
        history.append((name, params))
        where = 'start %r after %r' % (source, history)
        expected = ''.join(str(g) for g in model)
        if got != want:
            failures.append('%s: outcome %r, Python list %r' % (where, got, want))
        if len(args) != len(model) or any(
                a is not m for a, m in zip(args, model)):
            failures.append('%s: contents %r, Python list %r'
                            % (where, list(map(str, args)),
                               list(map(str, model))))
        if str(args) != expected:
            failures.append('%s: str(args) is %r but the groups in list order '
                            'are %r' % (where, str(args), expected))
        if str(node) != '\\cmd' + expected:
            failures.append('%s: node prints %r, expected %r'
                            % (where, str(node), '\\cmd' + expected))
        if failures:
            break
    return failures


CASES = [
    # repeat the first argument at the end, then drop it again
    (r'\cmd{a}[b]', [('append', [('arg', 0)]), ('pop', [])]),
    # same object twice, then insert in front of its later occurrence
    (r'\cmd{a}', [('append', [('arg', 0)]), ('insert', [1, ('new', '[b]')])]),
    (r'\cmd{a}[b]{c}', [('insert', [3, ('arg', 0)]),
                        ('insert', [-1, ('new', '{x}')]),
                        ('reverse', []), ('pop', [0])]),
    # from an empty argument list
    (r'\cmd', [('append', [('new', '{a}')]), ('append', [('new', '[b]')]),
               ('append', [('arg', 0)]), ('pop', [2]),
               ('append', [('new', '{c}')])]),
    # controls: equal but distinct groups, no shared object
    (r'\cmd{a}[b]{a}', [('insert', [2, ('new', '{x}')]), ('pop', []),
                        ('append', [('new', '{a}')]), ('reverse', [])]),
]


def main():
    failures = []
    for source, ops in CASES:
        failures.extend(replay(source, ops))
    if failures:
        print('C18 VIOLATED: serialisation is not the groups in list order')
        for f in failures:
            print('  - ' + f)
        return 1
    print('C18 holds on all replayed sequences')
    return 0


if __name__ == '__main__':
    sys.exit(main())
