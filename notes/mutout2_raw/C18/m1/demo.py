"""C18 demo 1: argument lists must behave exactly like a Python list of groups.

Replays operation sequences (append / insert / remove / pop / reverse) on a
node's argument list and on a plain Python list model of the printed groups,
and compares, after every step: the outcome of the operation (returned group or
raised exception type), the list contents, the list's serialisation and what
the owning node prints.

usage: demo.py /path/to/TexSoup-checkout
exit 0: property holds, exit 1: violated.
"""
import sys

sys.path.insert(0, sys.argv[1])

from TexSoup import TexSoup  # noqa: E402


def outcome(obj, op):
    try:
        r = getattr(obj, op[0])(*op[1:])
    except Exception as e:  # compare only the kind of failure
        return ('raised', type(e).__name__)
    return ('returned', None if r is None else str(r))


def replay(source, ops):
    soup = TexSoup(source)
    node = soup.cmd
    args = node.args
    model = [str(g) for g in args]
    assert '\\cmd' + ''.join(model) == source
    failures = []
    for k, op in enumerate(ops):
        got = outcome(args, op)
        want = outcome(model, op)
        where = 'start %r, step %d %r (history %r)' % (source, k, op, ops[:k])
        if got != want:
            failures.append('%s: argument list %r, Python list %r'
                            % (where, got, want))
        if [str(g) for g in args] != model:
            failures.append('%s: contents %r, Python list %r'
                            % (where, [str(g) for g in args], model))
        if str(args) != ''.join(model):
            failures.append('%s: str(args) %r != %r'
                            % (where, str(args), ''.join(model)))
        if str(node) != '\\cmd' + ''.join(model):
            failures.append('%s: node prints %r, expected %r'
                            % (where, str(node), '\\cmd' + ''.join(model)))
        if failures:
            break
    return failures


CASES = [
    # duplicates in the list; insert an equal group between them, remove one
    # by value, then pop the survivor by position
    (r'\cmd{a}{a}[b]', [('insert', 1, '{a}'), ('remove', '{a}'), ('pop', 0)]),
    (r'\cmd{a}{a}[b]', [('insert', -2, '{a}'), ('remove', '{a}'),
                        ('pop', -3)]),
    (r'\cmd{a}[b]{a}', [('insert', 2, '[b]'), ('remove', '[b]'), ('pop', 1)]),
    (r'\cmd{a}{c}{a}[b]', [('insert', 2, '{c}'), ('remove', '{c}'),
                           ('pop', 1), ('remove', '[b]')]),
    # same thing built up from an empty argument list
    (r'\cmd', [('append', '{a}'), ('append', '{a}'), ('append', '[b]'),
               ('insert', 1, '{a}'), ('remove', '{a}'), ('pop', 0),
               ('remove', '[b]'), ('pop',)]),
    # a few controls without duplicates
    (r'\cmd{a}[b]{c}', [('insert', 1, '{x}'), ('remove', '{x}'), ('pop', 0),
                        ('reverse',), ('pop',)]),
]


def main():
    failures = []
    for source, ops in CASES:
        failures.extend(replay(source, ops))
    if failures:
        print('C18 VIOLATED: argument list diverges from the Python list model')
        for f in failures:
            print('  - ' + f)
        return 1
    print('C18 holds on all replayed sequences')
    return 0


if __name__ == '__main__':
    sys.exit(main())
