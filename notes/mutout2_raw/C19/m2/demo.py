"""C19 demo: categorize(s) gives every character its own index, and the
tokens of tokenize(categorize(s)) partition s with correct offsets.

usage: demo.py <path-to-TexSoup-checkout>
exit 0 = property holds on the probed inputs, exit 1 = violated.
"""
import itertools
import sys

sys.path.insert(0, sys.argv[1])

from TexSoup.category import categorize  # noqa: E402
from TexSoup.tokens import tokenize  # noqa: E402
from TexSoup.utils import CC  # noqa: E402

DROPPABLE = '\x00\x7f'


def violation(s):
    """Return None if the tokens partition s, else a description."""
    toks = list(itertools.islice(tokenize(categorize(s)), 4 * len(s) + 8))
    shown = [(str(t), t.position) for t in toks]
    cursor = 0
    for t in toks:
        txt, p = str(t), t.position
        if not txt:
            return 'empty token at %r; tokens=%r' % (p, shown)
        if not isinstance(p, int) or p < cursor or p > len(s):
            return 'token %r at offset %r overlaps / is out of order ' \
                   '(input consumed up to %d); tokens=%r' % (
                       txt, p, cursor, shown)
        gap = s[cursor:p]
        if any(ch not in DROPPABLE for ch in gap):
            return 'characters %r were dropped before token %r; ' \
                   'tokens=%r' % (gap, txt, shown)
        if s[p:p + len(txt)] != txt:
            return 'token %r does not start at its recorded offset %r; ' \
                   'tokens=%r' % (txt, p, shown)
        cursor = p + len(txt)
    tail = s[cursor:]
    if any(ch not in DROPPABLE for ch in tail):
        return 'characters %r were dropped at the end; tokens=%r' % (
            tail, shown)
    return None


def categorise_violation(s):
    """Every character gets exactly one category and its own index."""
    chars = list(categorize(s))
    if len(chars) != len(s):
        return '%d characters were categorised into %d items: %r' % (
            len(s), len(chars), [(str(c), c.position) for c in chars])
    for i, c in enumerate(chars):
        if str(c) != s[i] or c.position != i or not isinstance(
                c.category, CC):
            return 'item %d is %r at index %r with category %r' % (
                i, str(c), c.position, c.category)
    return None


def main():
    # line ends of all three conventions between ordinary constructs
    eols = ('\n', '\r', '\r\n')
    pieces = ('a', ' ', '{', '}', '%c', '\\x', '$', '[', '\x00') + eols
    inputs = set()
    for n in (1, 2, 3, 4):
        for tup in itertools.product(pieces, repeat=n):
            inputs.add(''.join(tup))
    inputs.update([
        '\\section{A}\r\n\r\nSome text. % note\r\n\\item x\r\n',
        '\\begin{a}\r\n  b\r\n\\end{a}\r\n',
        'x\r\ny\r\n',
    ])
    bad = 0
    shown = {'categorise': 0, 'tokenise': 0}
    for s in sorted(inputs, key=lambda t: (len(t), t)):
        for kind, msg in (('categorise', categorise_violation(s)),
                          ('tokenise', violation(s))):
            if msg:
                bad += 1
                shown[kind] += 1
                if shown[kind] <= 3:
                    print('VIOLATION (%s) for input %r: %s' % (kind, s, msg))
    if bad:
        print('%d violations on %d inputs' % (bad, len(inputs)))
        return 1
    print('partition property holds on %d inputs' % len(inputs))
    return 0


if __name__ == '__main__':
    sys.exit(main())
