"""C19 demo: the tokens of tokenize(categorize(s)) must partition s.

usage: demo.py <path-to-TexSoup-checkout>
exit 0 = property holds on the probed inputs, exit 1 = violated.
"""
import itertools
import sys

sys.path.insert(0, sys.argv[1])

from TexSoup.category import categorize  # noqa: E402
from TexSoup.tokens import tokenize  # noqa: E402

DROPPABLE = '\x00\x7f'


def violation(s):
    """Return None if the tokens partition s, else a description."""
    toks = list(itertools.islice(tokenize(categorize(s)), 4 * len(s) + 8))
    shown = [(str(t), t.position) for t in toks]
    cursor = 0
    for t in toks:
        txt, p = str(t), t.position
        if not txt:
            return 'empty token at %r; tokens=%r' % (p, shown)
        if not isinstance(p, int) or p < cursor or p > len(s):
            return 'token %r at offset %r overlaps / is out of order ' \
                   '(input consumed up to %d); tokens=%r' % (
                       txt, p, cursor, shown)
        gap = s[cursor:p]
        if any(ch not in DROPPABLE for ch in gap):
            return 'characters %r were dropped before token %r; ' \
                   'tokens=%r' % (gap, txt, shown)
        if s[p:p + len(txt)] != txt:
            return 'token %r does not start at its recorded offset %r; ' \
                   'tokens=%r' % (txt, p, shown)
        cursor = p + len(txt)
    tail = s[cursor:]
    if any(ch not in DROPPABLE for ch in tail):
        return 'characters %r were dropped at the end; tokens=%r' % (
            tail, shown)
    return None


def main():
    # command names that contain stars, in a few surroundings
    letters = ('a', 'bc')
    pieces = ('*', 'a', 'bc', '{', ' ', '')
    inputs = set()
    for name in letters:
        for tail in itertools.product(pieces, repeat=4):
            inputs.add('\\' + name + ''.join(tail))
            inputs.add('x \\' + name + ''.join(tail) + '{y}')
    inputs.update([r'\section*{t}', r'\a*b*c', r'\vspace*b*{1cm}',
                   r'$\alpha*x*y$', r'\\*a*b'])
    bad = 0
    for s in sorted(inputs):
        msg = violation(s)
        if msg:
            bad += 1
            if bad <= 5:
                print('VIOLATION for input %r: %s' % (s, msg))
    if bad:
        print('%d of %d inputs violate the partition property'
              % (bad, len(inputs)))
        return 1
    print('partition property holds on %d inputs' % len(inputs))
    return 0


if __name__ == '__main__':
    sys.exit(main())
