"""C10 demo 2: nothing inside a comment is found by search.

Every search entry point (find_all / find / count, by command name and by
full expression such as r'\\ref{k}') must report the live nodes only, and must
report the same thing whatever the payload of a comment is - in particular when
the payload spells out exactly the expression that is searched for.

usage: demo.py <path-of-TexSoup-checkout>      exit 0 = holds, 1 = violated
"""
import sys

sys.path.insert(0, sys.argv[1])

from TexSoup import TexSoup  # noqa: E402

# (name, prefix, suffix): the source is  prefix + '%' + payload + suffix ;
# every suffix holds exactly one live \ref{k} and one live \cite[p]{k}
LIVE = '\\ref{k} and \\cite[p]{k}'
CONTEXTS = [
    ('top level',        'a ',                          '\nb ' + LIVE),
    ('brace group',      '{a ',                         '\nb}' + LIVE),
    ('brace argument',   '\\textbf{a ',                 '\nb}' + LIVE),
    ('bracket argument', '\\section[a ',                '\nb]{t}' + LIVE),
    ('inline math',      '$a ',                         '\nb$' + LIVE),
    ('display math',     '\\[a ',                       '\nb\\]' + LIVE),
    ('environment',      '\\begin{itemize}\n\\item a ', '\nb\n\\end{itemize}' + LIVE),
    ('end of input',     LIVE + ' a ',                  ''),
]

PAYLOADS = ['plain', '}', r'\ref{k}', r' see \ref{k}, \ref{k}', r'\cite[p]{k}',
            r'\ref{k}\cite[p]{k}}', r'\item \ref{k}', r'\end{itemize}\ref{k}']

QUERIES = ['ref', 'cite', r'\ref{k}', r'\cite[p]{k}']

problems = []

for name, prefix, suffix in CONTEXTS:
    for payload in PAYLOADS:
        src = prefix + '%' + payload + suffix
        where = '%s, payload %r, source %r' % (name, payload, src)
        try:
            soup = TexSoup(src)
        except Exception as e:  # noqa
            problems.append('%s -> does not parse: %s: %s'
                            % (where, type(e).__name__, e))
            continue
        for q in QUERIES:
            found = [str(n) for n in soup.find_all(q)]
            first = soup.find(q)
            n = soup.count(q)
            expected = [r'\ref{k}'] if 'ref' in q else [r'\cite[p]{k}']
            if found != expected:
                problems.append('%s -> find_all(%r) = %r, expected %r'
                                % (where, q, found, expected))
            if first is None or str(first) != expected[0]:
                problems.append('%s -> find(%r) = %r, expected %r'
                                % (where, q, first, expected[0]))
            if n != 1:
                problems.append('%s -> count(%r) = %d, but exactly one live '
                                'node matches (the rest is comment payload)'
                                % (where, q, n))

if problems:
    print('C10 VIOLATED (%d findings); first ones:' % len(problems))
    for p in problems[:8]:
        print('  -', p)
    sys.exit(1)
print('C10 holds: no search entry point looks inside a comment')
sys.exit(0)
