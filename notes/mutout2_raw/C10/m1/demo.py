"""C10 demo 1: a comment that starts directly behind an escaped percent sign.

`\\%` (one backslash) is an escaped percent sign; the unescaped % that follows
it opens a comment.  That comment must be ONE text leaf running to the end of
its line, its payload must not close the surrounding group / math / argument,
and the tree around it must be the same whatever the payload is.

usage: demo.py <path-of-TexSoup-checkout>      exit 0 = holds, 1 = violated
"""
import sys

sys.path.insert(0, sys.argv[1])

from TexSoup import TexSoup  # noqa: E402
from TexSoup.data import TexExpr, TexText  # noqa: E402

PAYLOADS = ['plain', '}', ']', '$', r'\end{itemize}', r'\item x', '{[$',
            r'\ref{k}', '%%', '']

# (name, prefix, suffix): the source is  prefix + BS*'\\' + '%' + '%' + payload + suffix
CONTEXTS = [
    ('top level',        'a ',                          '\nb \\ref{live}'),
    ('brace group',      '{a ',                         '\nb}\\ref{live}'),
    ('brace argument',   '\\textbf{a ',                 '\nb}\\ref{live}'),
    ('bracket argument', '\\section[a ',                '\nb]{t}\\ref{live}'),
    ('inline math',      '$a ',                         '\nb$\\ref{live}'),
    ('display math',     '\\[a ',                       '\nb\\]\\ref{live}'),
    ('environment',      '\\begin{itemize}\n\\item a ', '\nb\n\\end{itemize}\\ref{live}'),
    ('end of input',     '{x}\\ref{live} a ',           ''),
]

problems = []


def shape(x):
    """Structure of a tree with every comment leaf replaced by a marker."""
    if isinstance(x, TexText) or not isinstance(x, TexExpr):
        s = str(x)
        return '<comment>' if s.startswith('%') else ('text', s)
    return (type(x).__name__, x.name,
            tuple(shape(g) for g in x.args),
            tuple(shape(c) for c in x._contents))


def leaves(x, out):
    if isinstance(x, TexText) or not isinstance(x, TexExpr):
        out.append(str(x))
        return out
    for g in x.args:
        leaves(g, out)
    for c in x._contents:
        leaves(c, out)
    return out


def parse(src):
    try:
        return TexSoup(src), None
    except Exception as e:  # noqa
        return None, '%s: %s' % (type(e).__name__, e)


for backslashes in (1, 3):
    for name, prefix, suffix in CONTEXTS:
        reference = None
        for payload in PAYLOADS:
            comment = '%' + payload
            src = prefix + '\\' * backslashes + '%' + comment + suffix
            where = '%s, %d backslash(es), payload %r, source %r' % (
                name, backslashes, payload, src)
            soup, err = parse(src)
            if err:
                problems.append('%s -> does not parse: %s' % (where, err))
                continue
            lv = leaves(soup.expr, [])
            if lv.count(comment) != 1:
                problems.append('%s -> the comment %r is not one text leaf '
                                '(leaves: %r)' % (where, comment, lv))
                continue
            if '\\%' not in lv:
                problems.append('%s -> no escaped percent leaf (leaves: %r)'
                                % (where, lv))
                continue
            # nothing in the payload is found by search; live node still is
            refs = [str(n) for n in soup.find_all('ref')]
            if refs != ['\\ref{live}']:
                problems.append('%s -> find_all(ref) gives %r' % (where, refs))
            sh = shape(soup.expr)
            if reference is None:
                reference = sh
            elif sh != reference:
                problems.append('%s -> tree around the comment depends on the '
                                'payload' % where)

if problems:
    print('C10 VIOLATED (%d findings); first ones:' % len(problems))
    for p in problems[:8]:
        print('  -', p)
    sys.exit(1)
print('C10 holds for comments directly behind an escaped percent sign')
sys.exit(0)
