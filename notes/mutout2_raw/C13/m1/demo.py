"""C13 demo 1: recorded source positions must be true offsets.

usage: demo.py <path-to-TexSoup-checkout>
exit 0: property holds on the sample documents, exit 1: violated.
"""
import sys

sys.path.insert(0, sys.argv[1])

from TexSoup import TexSoup                                    # noqa: E402
from TexSoup.data import (TexExpr, TexText, TexNamedEnv, TexCmd,  # noqa: E402
                          TexEnv)
from TexSoup.utils import Token                                # noqa: E402


def walk(expr, out):
    """Collect (kind, recorded position, text the source must show there)."""
    if isinstance(expr, TexText):
        if isinstance(expr._text, Token):
            out.append(('text token', expr._text.position, str(expr._text)))
        return
    if isinstance(expr, TexNamedEnv):
        out.append(('environment', expr.position, '\\begin'))
    elif isinstance(expr, TexCmd):
        out.append(('command', expr.position, '\\' + str(expr.name)))
    elif isinstance(expr, TexEnv) and expr.name != '[tex]':
        out.append(('group/math region', expr.position, expr.begin))
    for arg in expr.args:
        walk(arg, out)
    for content in expr._contents:
        if isinstance(content, TexExpr):
            walk(content, out)


DOCS = [
    # math regions in the middle of a document
    'Let $x$ be given, then $$x^2$$ and \\(y\\) and \\[z\\].\n',
    '\\section{A $b$}\nText $$c$$ more.\n',
    # a document whose very first character opens a math region
    '$x$ is a number.\n',
    '$$a+b$$\nis displayed.\n',
    '$\\frac{a}{b}$\\begin{itemize}\n\\item $q$\n\\end{itemize}\n',
    '\\(x\\) and \\[y\\] start with a backslash.\n',
]


def main():
    failures = []
    for src in DOCS:
        soup = TexSoup(src)
        found = []
        walk(soup.expr, found)
        for kind, position, expected in found:
            if not isinstance(position, int) or position < 0 or \
                    not src.startswith(expected, position):
                failures.append(
                    '%r: %s %r recorded at %r, but the source has %r there'
                    % (src, kind, expected, position,
                       src[position:position + len(expected)]
                       if isinstance(position, int) else None))
    if failures:
        print('C13 VIOLATED: recorded positions are not source offsets')
        for line in failures:
            print('  ' + line)
        return 1
    print('C13 holds on %d sample documents' % len(DOCS))
    return 0


if __name__ == '__main__':
    sys.exit(main())
