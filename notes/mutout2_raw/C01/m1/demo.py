#!/usr/bin/env python
"""Property C01: parse -> serialise round trip is lossless on well-formed
documents (and the text of every node is the slice of the source it was
parsed from).

Usage: demo.py /path/to/TexSoup/checkout
Exit 0 if the property holds on every document below, 1 otherwise.

The documents put a verbatim-like environment (built-in name or a name given
through ``skip_envs``) whose body is not LaTeX into an argument group, at
different places of a command's / environment's argument list.
"""
import sys

sys.path.insert(0, sys.argv[1])

from TexSoup import TexSoup                      # noqa: E402
from TexSoup.data import TexExpr, TexText        # noqa: E402

# bodies of verbatim-like environments: raw text, certainly not LaTeX
BODIES = [
    " if (a[i] > 0) { x = $1;\n",
    "\nprintf(\"100%\\n\");  # {\n",
    "\\cmd {x} \\other [y]\n",
    "\n  $ make && echo ${HOME} \n",
]

# (template, skip_envs); @ENV@ is replaced by the environment
TEMPLATES = [
    # verbatim directly in the text / in the only argument / in an item
    ("before @ENV@ after\n", ()),
    ("\\fbox{@ENV@} tail\n", ()),
    ("\\begin{itemize}\n\\item see @ENV@\n\\item next\n\\end{itemize}\n", ()),
    # brace argument behind an optional argument
    ("\\parbox[t]{@ENV@} tail\n", ()),
    # brace argument behind a bracket argument behind a brace argument
    ("\\mybox{title}[2]{@ENV@} tail\n", ()),
    ("\\mybox[a]{title}[2]{intro @ENV@ outro}{more} tail\n", ()),
    # the same shape on an environment: \begin{name}[opt]{arg}
    ("\\begin{frame}[fragile]{Listing: @ENV@}\nbody\n\\end{frame}\n", ()),
    ("\\begin{itemize}\n\\item $x$ \\begin{block}[c]{@ENV@}\ntext\n"
     "\\end{block}\n\\end{itemize}\n", ()),
]


def environments():
    for body in BODIES:
        yield "\\begin{verbatim}%s\\end{verbatim}" % body, ()
        yield "\\begin{lstlisting}%s\\end{lstlisting}" % body, ()
        yield "\\begin{code}%s\\end{code}" % body, ('code',)


def walk(expr):
    """All expressions of the tree: contents and arguments, recursively."""
    yield expr
    if isinstance(expr, TexText):
        return
    for arg in expr.args:
        if isinstance(arg, TexExpr):
            yield from walk(arg)
    for child in expr._contents:
        if isinstance(child, TexExpr):
            yield from walk(child)


def check(src, skip_envs):
    problems = []
    try:
        soup = TexSoup(src, skip_envs=skip_envs)
    except Exception as e:   # parsing a well-formed document must succeed
        return ['parsing failed: %s: %s' % (type(e).__name__, e)]
    out = str(soup)
    if out != src:
        problems.append('round trip differs: %r' % out)
    for expr in walk(soup.expr):
        if isinstance(expr, TexText):
            pos, text = getattr(expr._text, 'position', None), str(expr)
        else:
            pos, text = expr.position, str(expr)
        if expr is soup.expr or pos is None or pos < 0:
            continue
        if src[pos:pos + len(text)] != text:
            problems.append('node at %d is %r, source slice is %r'
                            % (pos, text, src[pos:pos + len(text)]))
    return problems


def main():
    failures = 0
    total = 0
    for template, extra in TEMPLATES:
        for env, skip in environments():
            src = template.replace('@ENV@', env)
            total += 1
            problems = check(src, tuple(extra) + tuple(skip))
            if problems:
                failures += 1
                if failures <= 8:
                    print('VIOLATION for document %r (skip_envs=%r):'
                          % (src, tuple(extra) + tuple(skip)))
                    for p in problems[:2]:
                        print('    ' + p[:300])
    if failures:
        print('%d of %d documents violate the round-trip property'
              % (failures, total))
        return 1
    print('round trip exact for all %d documents' % total)
    return 0


if __name__ == '__main__':
    sys.exit(main())
