#!/usr/bin/env python
"""Property C01: parse -> serialise round trip is lossless on well-formed
documents (and the text of every node is the slice of the source it was
parsed from).

Usage: demo.py /path/to/TexSoup/checkout
Exit 0 if the property holds on every document below, 1 otherwise.

The documents differ in how they END: with text, a closing brace, an
environment, math, a comment, or a command, each followed by nothing, by a
blank run or by a line break.
"""
import sys

sys.path.insert(0, sys.argv[1])

from TexSoup import TexSoup                      # noqa: E402
from TexSoup.data import TexExpr, TexText        # noqa: E402

PREFIXES = [
    "",
    "\\section{Intro}\nSome text with $x^2$ and a %comment\nline.\n",
    "\\begin{itemize}\n\\item one\n\\item[b] two $y$\n\\end{itemize}\n",
]

# last construct of the document
LAST = [
    "plain text",
    "\\textbf{bold}",
    "\\begin{center}x\\end{center}",
    "$a+b$",
    "% closing remark",
    "{\\small note}",
    "\\clearpage",
    "\\bigskip",
    "\\item",
    "\\tableofcontents",
    "\\includegraphics[width=3cm]",
    "\\cite{knuth}[p.~3]",
    "\\alpha",
]

# what comes behind the last construct
TRAILERS = ["", "\n", " ", " \t", "  \n", "\t\n  ", "\n\n"]


def walk(expr):
    """All expressions of the tree: contents and arguments, recursively."""
    yield expr
    if isinstance(expr, TexText):
        return
    for arg in expr.args:
        if isinstance(arg, TexExpr):
            yield from walk(arg)
    for child in expr._contents:
        if isinstance(child, TexExpr):
            yield from walk(child)


def check(src):
    problems = []
    try:
        soup = TexSoup(src)
    except Exception as e:   # parsing a well-formed document must succeed
        return ['parsing failed: %s: %s' % (type(e).__name__, e)]
    out = str(soup)
    if out != src:
        problems.append('round trip gives %r' % out)
    for expr in walk(soup.expr):
        if isinstance(expr, TexText):
            pos, text = getattr(expr._text, 'position', None), str(expr)
        else:
            pos, text = expr.position, str(expr)
        if expr is soup.expr or pos is None or pos < 0:
            continue
        if src[pos:pos + len(text)] != text:
            problems.append('node at %d is %r, source slice is %r'
                            % (pos, text, src[pos:pos + len(text)]))
    return problems


def main():
    failures = 0
    total = 0
    for prefix in PREFIXES:
        for last in LAST:
            for trailer in TRAILERS:
                src = prefix + last + trailer
                total += 1
                problems = check(src)
                if problems:
                    failures += 1
                    if failures <= 12:
                        print('VIOLATION for document %r:' % src)
                        for p in problems[:2]:
                            print('    ' + p)
    if failures:
        print('%d of %d documents violate the round-trip property'
              % (failures, total))
        return 1
    print('round trip exact for all %d documents' % total)
    return 0


if __name__ == '__main__':
    sys.exit(main())
