r"""C12 demo 2: a math region is one math node of the right kind with exactly
the enclosed source in every context - here: inside the replacement text of
\newcommand / \renewcommand / \providecommand, with bodies that contain brace
groups (commands with brace arguments, plain groups).

usage: demo.py <path of a TexSoup checkout>
exit 0: property holds, exit 1: violated
"""
import sys

sys.path.insert(0, sys.argv[1])

from TexSoup import TexSoup  # noqa: E402
from TexSoup.data import (TexExpr, TexMathModeEnv, TexDisplayMathModeEnv,  # noqa: E402
                          TexMathEnv, TexDisplayMathEnv, TexCmd)

SIMPLE = (TexMathModeEnv, TexDisplayMathModeEnv, TexMathEnv, TexDisplayMathEnv)


def walk(expr):
    yield expr
    for arg in getattr(expr, 'args', ()):
        for sub in walk(arg):
            yield sub
    for content in expr._contents:
        if isinstance(content, TexExpr):
            for sub in walk(content):
                yield sub


# math regions: (class, source, commands inside that must stay searchable)
REGIONS = [
    (TexMathModeEnv, r'$\mathbb{R}$', ['mathbb']),
    (TexMathEnv, r'\(\frac{1}{2} ( \)', ['frac']),
    (TexDisplayMathEnv, r'\[ x \in [0,#1) \cup {\infty} \]',
     ['in', 'cup', 'infty']),
    (TexDisplayMathModeEnv, r'$$\left[ \sqrt{n} \right)$$', ['sqrt']),
    (TexMathModeEnv, r'$a \$ {b ]} \$$', []),
    # no brace group in the body
    (TexMathModeEnv, r'$a [ \alpha + b$', ['alpha']),
]

# contexts: %s is replaced by the region(s)
CONTEXTS = [
    r'\newcommand{\foo}{%s}',
    r'\renewcommand{\foo}[1]{%s}',
    r'\providecommand{\foo}{see %s now}',
    r'\newcommand{\foo}{\textbf{%s}}',
    r'x \newcommand{\foo}{%s} y',
    # controls: the same regions elsewhere
    r'\textbf{%s}',
    r'{%s}',
    r'\newcommand{\foo}{{%s}}',
]


def check(source, expected, failures):
    try:
        soup = TexSoup(source)
    except Exception as e:  # noqa
        failures.append('%r: parse failed with %s: %s'
                        % (source, type(e).__name__, e))
        return
    found = [e for e in walk(soup.expr) if isinstance(e, SIMPLE)]
    got = [(type(e).__name__, str(e)) for e in found]
    want = [(cls.__name__, region) for cls, region, _ in expected]
    if got != want:
        failures.append('%r: math nodes %r, expected %r' % (source, got, want))
        return
    for node, (cls, region, commands) in zip(found, expected):
        body = ''.join(str(c) for c in node._contents)
        if node.begin + body + node.end != region:
            failures.append('%r: body of %r is %r' % (source, region, body))
        for name in commands:
            inside = [e for e in walk(node)
                      if isinstance(e, TexCmd) and e.name == name]
            if not inside or soup.find(name) is None:
                failures.append('%r: \\%s inside %r not searchable'
                                % (source, name, region))


def main():
    failures = []
    count = 0
    for context in CONTEXTS:
        for region in REGIONS:
            check(context % region[1], [region], failures)
            count += 1
    # adjacent regions of different kinds inside one definition
    pair = [REGIONS[3], REGIONS[0]]     # $$..$$ directly followed by $..$
    check(r'\newcommand{\foo}{%s%s}' % (pair[0][1], pair[1][1]), pair,
          failures)
    pair = [REGIONS[1], REGIONS[2]]     # \(..\) directly followed by \[..\]
    check(r'\renewcommand{\foo}{%s%s}' % (pair[0][1], pair[1][1]), pair,
          failures)
    count += 2
    if failures:
        print('C12 VIOLATED (%d of %d documents)' % (
            len(set(f.split(':')[0] for f in failures)), count))
        for f in failures:
            print(' -', f)
        return 1
    print('C12 holds on all %d documents' % count)
    return 0


if __name__ == '__main__':
    sys.exit(main())
