r"""C12 demo 1: sizing commands keep their delimiter as plain text - also when
an ordinary command with a similar name (\leftarrow, \rightarrow, \biggl ...)
occurs earlier in the same document / process.

usage: demo.py <path of a TexSoup checkout>
exit 0: property holds, exit 1: violated
"""
import sys

sys.path.insert(0, sys.argv[1])

from TexSoup import TexSoup  # noqa: E402
from TexSoup.data import (TexExpr, TexMathModeEnv, TexDisplayMathModeEnv,  # noqa: E402
                          TexMathEnv, TexDisplayMathEnv, TexNamedEnv, TexCmd)

MATH_NAMED = ('equation', 'align*', 'gather')


def walk(expr):
    yield expr
    for arg in getattr(expr, 'args', ()):
        for sub in walk(arg):
            yield sub
    for content in expr._contents:
        if isinstance(content, TexExpr):
            for sub in walk(content):
                yield sub


def is_math(expr):
    if isinstance(expr, (TexMathModeEnv, TexDisplayMathModeEnv, TexMathEnv,
                         TexDisplayMathEnv)):
        return True
    return isinstance(expr, TexNamedEnv) and expr.name in MATH_NAMED


# (document, [(class of the math node, its exact source), ...],
#  [names of commands inside math that must be found])
CASES = [
    # an arrow, then an interval written with \left[ .. \right)
    (r'Let $f \leftarrow g$ on $\left[ 0, 1 \right)$ and $h$.',
     [(TexMathModeEnv, r'$f \leftarrow g$'),
      (TexMathModeEnv, r'$\left[ 0, 1 \right)$'),
      (TexMathModeEnv, r'$h$')],
     ['leftarrow']),
    (r'\[ a \rightarrow b \] so \( \left( x \right] \) holds',
     [(TexDisplayMathEnv, r'\[ a \rightarrow b \]'),
      (TexMathEnv, r'\( \left( x \right] \)')],
     ['rightarrow']),
    (r'\begin{equation} x \leftrightarrow y \end{equation}'
     r'$$ \left[ \alpha \right. $$',
     [(TexNamedEnv, r'\begin{equation} x \leftrightarrow y \end{equation}'),
      (TexDisplayMathModeEnv, r'$$ \left[ \alpha \right. $$')],
     ['leftrightarrow', 'alpha']),
    (r'$\biggl\Vert x \biggr\Vert$ and \begin{align*}\bigg[ \beta \Bigg)'
     r'\end{align*}',
     [(TexMathModeEnv, r'$\biggl\Vert x \biggr\Vert$'),
      (TexNamedEnv, r'\begin{align*}\bigg[ \beta \Bigg)\end{align*}')],
     ['beta']),
    # every prefix with an unbalanced square bracket, after the look-alikes
    (r'$\leftarrow \rightarrow \biggl \Biggr$ '
     r'$\left[ \right[ \big[ \Big[ \bigg[ \Bigg[ \gamma$',
     [(TexMathModeEnv, r'$\leftarrow \rightarrow \biggl \Biggr$'),
      (TexMathModeEnv,
       r'$\left[ \right[ \big[ \Big[ \bigg[ \Bigg[ \gamma$')],
     ['gamma']),
]


def main():
    failures = []
    for source, expected, commands in CASES:
        try:
            soup = TexSoup(source)
        except Exception as e:  # noqa
            failures.append('%r: parse failed with %s: %s'
                            % (source, type(e).__name__, e))
            continue
        if str(soup) != source:
            failures.append('%r: serialised as %r' % (source, str(soup)))
        found = [(type(e), str(e)) for e in walk(soup.expr) if is_math(e)]
        if found != expected:
            failures.append('%r: math nodes %r, expected %r' % (
                source, [(c.__name__, s) for c, s in found],
                [(c.__name__, s) for c, s in expected]))
            continue
        math_nodes = [e for e in walk(soup.expr) if is_math(e)]
        for name in commands:
            hits = [e for m in math_nodes for e in walk(m)
                    if isinstance(e, TexCmd) and e.name == name]
            if len(hits) != 1 or soup.find(name) is None:
                failures.append('%r: command \\%s inside math not found '
                                'exactly once' % (source, name))
        # the delimiter of a sizing command is part of that command and never
        # opens an argument
        for m in math_nodes:
            for e in walk(m):
                if isinstance(e, TexCmd) and e.name in (
                        'left', 'right', 'big', 'Big', 'bigg', 'Bigg'):
                    failures.append('%r: sizing command split from its '
                                    'delimiter: %r' % (source, e))
    if failures:
        print('C12 VIOLATED')
        for f in failures:
            print(' -', f)
        return 1
    print('C12 holds on all %d documents' % len(CASES))
    return 0


if __name__ == '__main__':
    sys.exit(main())
