"""C14 demo: re-ordering a node's argument list changes exactly the argument
part of the serialised document, is visible to searches and survives
re-parsing -- whichever list operation performs the re-ordering.

usage: demo.py <path-to-TexSoup-checkout>
exit 0: property holds, exit 1: violated (details printed)
"""
import sys

sys.path.insert(0, sys.argv[1])
from TexSoup import TexSoup  # noqa: E402

DOC = r'''\section{Intro} Some text with \% escapes \\ and more % a comment
\begin{itemize}
\item first $x \frac{num}{den} + \binom{n}{k}$ done
\item[lab] second \pair{zeta}{alpha}[mid] tail \(\tfrac{u}{v}\)
\end{itemize}
\begin{tabular}{cc}[t] a & b \end{tabular}
\newcommand{\foo}[2]{#1 and #2}
\[ \triple{c}{a}{b} \]
'''


def op_assign_reversed(node):
    node.args = node.args[::-1]


def op_assign_rotated_slices(node):
    args = node.args
    rotated = args[1:]
    rotated.extend(args[:1])
    node.args = rotated


def op_inplace_reverse(node):
    node.args.reverse()


def op_inplace_rotate(node):
    args = node.args
    args.insert(0, args.pop())


def op_inplace_swap_ends(node):
    args = node.args
    args[0], args[-1] = args[-1], args[0]


def op_inplace_sort(node):
    node.args.sort(key=str)


def op_inplace_slice_assign(node):
    args = node.args
    args[:] = list(args)[::-1]


# each operation together with the permutation it is meant to perform
OPS = [
    (op_assign_reversed, lambda l: l[::-1]),
    (op_assign_rotated_slices, lambda l: l[1:] + l[:1]),
    (op_inplace_reverse, lambda l: l[::-1]),
    (op_inplace_rotate, lambda l: l[-1:] + l[:-1]),
    (op_inplace_swap_ends, lambda l: l[-1:] + l[1:-1] + l[:1]),
    (op_inplace_sort, lambda l: sorted(l)),
    (op_inplace_slice_assign, lambda l: l[::-1]),
]


def named_nodes(soup):
    """All command / environment nodes, in document (pre-)order."""
    nodes = []
    stack = list(soup.children)
    while stack:
        node = stack.pop(0)
        nodes.append(node)
        stack = list(node.children) + stack
    return nodes


def main():
    failures = []
    base = TexSoup(DOC)
    if str(base) != DOC:
        print('demo document does not round-trip; cannot judge')
        return 1

    keys = []
    counts = {}
    for node in named_nodes(base):
        name = str(node.name)
        if name in ('BraceGroup', 'BracketGroup'):
            continue
        idx = counts.get(name, 0)
        counts[name] = idx + 1
        if len(node.args) >= 2:
            keys.append((name, idx))
    assert len(keys) >= 6, keys

    for name, idx in keys:
        for op, perm in OPS:
            soup = TexSoup(DOC)
            node = soup.find_all(name)[idx]
            old_node = str(node)
            old_args = [str(a) for a in list(node.args)]
            assert DOC.count(old_node) == 1
            new_args = perm(old_args)
            new_node = old_node.replace(''.join(old_args), ''.join(new_args), 1)
            expected = DOC.replace(old_node, new_node, 1)

            op(node)
            label = '%s on %s#%d' % (op.__name__, name, idx)

            got = str(soup)
            if got != expected:
                failures.append(
                    '%s: serialisation\n   expected %r\n   got      %r'
                    % (label, new_node, str(soup.find_all(name)[idx])))
            seen = [str(a) for a in list(soup.find_all(name)[idx].args)]
            if seen != new_args:
                failures.append('%s: search shows args %r, expected %r'
                                % (label, seen, new_args))
            again = TexSoup(got).find_all(name)[idx]
            reparsed = [str(a) for a in list(again.args)]
            if reparsed != new_args:
                failures.append('%s: re-parse shows args %r, expected %r'
                                % (label, reparsed, new_args))

    if failures:
        print('C14 VIOLATED (%d findings)' % len(failures))
        for f in failures[:12]:
            print(' -', f)
        return 1
    print('C14 holds: %d targets x %d re-ordering operations' %
          (len(keys), len(OPS)))
    return 0


if __name__ == '__main__':
    sys.exit(main())
