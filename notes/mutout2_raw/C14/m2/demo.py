"""C14 demo: assigning the string of a text-only environment replaces exactly
the body of that environment in the serialised document (delimiters,
arguments and everything outside stay as they are); the new string is what
later look-ups and a re-parse of the new text report.

usage: demo.py <path-to-TexSoup-checkout>
exit 0: property holds, exit 1: violated (details printed)
"""
import sys

sys.path.insert(0, sys.argv[1])
from TexSoup import TexSoup  # noqa: E402

DOC = r'''\section{Intro} Lead text \% here \\ more % note
\begin{quote}

A quoted paragraph.
\end{quote}
\begin{center}centred words\end{center}
\begin{itemize}
\item one \begin{small} (aside) remark\end{small} and $ (a+b)c$ end
\item two \begin{equation} _i + 1\end{equation} and \(y-z\)
\item[three] \textbf{\begin{flushright}
right text
\end{flushright}}
\end{itemize}
\begin{verbatim}raw \text{x}\end{verbatim}
\[ x^2 \]
\begin{tabular} & b \\ c & d \end{tabular}
'''

NEW_STRINGS = ['replaced', 'two words']


def named_nodes(soup):
    """All command / environment / group nodes, in document (pre-)order."""
    nodes = []
    stack = list(soup.children)
    while stack:
        node = stack.pop(0)
        nodes.append(node)
        stack = list(node.children) + stack
    return nodes


def is_env(node):
    return hasattr(node.expr, 'begin') and hasattr(node.expr, 'end') \
        and str(node.name) not in ('BraceGroup', 'BracketGroup')


def get_string(node):
    try:
        return node.string
    except AssertionError as exc:
        return exc


def text_only_envs(soup):
    """Positions (in pre-order) of environments for which .string is valid."""
    out = []
    for i, node in enumerate(named_nodes(soup)):
        if is_env(node) and isinstance(get_string(node), str):
            out.append(i)
    return out


def main():
    failures = []
    base = TexSoup(DOC)
    if str(base) != DOC:
        print('demo document does not round-trip; cannot judge')
        return 1
    positions = text_only_envs(base)
    assert len(positions) >= 9, positions

    checked = 0
    for pos in positions:
        for new in NEW_STRINGS:
            soup = TexSoup(DOC)
            node = named_nodes(soup)[pos]
            old_node = str(node)
            assert DOC.count(old_node) == 1, old_node
            begin, end = str(node.expr.begin), str(node.expr.end)
            new_node = begin + ''.join(str(a) for a in list(node.args)) \
                + new + end
            expected = DOC.replace(old_node, new_node, 1)
            label = '%r := %r' % (old_node, new)

            node.string = new
            checked += 1

            got = str(soup)
            if got != expected:
                failures.append('%s: serialised as %r, expected %r'
                                % (label, str(named_nodes(soup)[pos]),
                                   new_node))
            seen = get_string(named_nodes(soup)[pos])
            if not (isinstance(seen, str) and str(seen) == new):
                failures.append('%s: look-up afterwards reports string %r'
                                % (label, seen))
            try:
                again = get_string(named_nodes(TexSoup(got))[pos])
            except Exception as exc:  # re-parse failed altogether
                again = exc
            if not (isinstance(again, str) and str(again) == new):
                failures.append('%s: re-parse reports string %r'
                                % (label, again))

    if failures:
        print('C14 VIOLATED (%d findings)' % len(failures))
        for f in failures[:12]:
            print(' -', f)
        return 1
    print('C14 holds: %d string assignments on %d text-only environments'
          % (checked, len(positions)))
    return 0


if __name__ == '__main__':
    sys.exit(main())
