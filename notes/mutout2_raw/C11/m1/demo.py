"""C11 demo 1: verbatim-like bodies stay opaque for built-in names AND for
user-supplied names, also when both kinds occur in the same document / the
same call (the skip_envs option is in effect while a built-in verbatim-like
environment is read).

usage: demo.py /path/to/TexSoup-checkout
exit 0: property holds, exit 1: property violated.
"""
import sys

sys.path.insert(0, sys.argv[1])

from TexSoup import TexSoup  # noqa: E402
from TexSoup.data import TexExpr, TexNamedEnv, TexText  # noqa: E402

failures = []

# hostile bodies: do not start with a brace/bracket, do not end with a
# backslash, no % on the line of the closing \end
BODIES = [
    'x { $ [ \\textbf{aaa \\end{itemize} ',
    '\nfor (i = 0; i < n; i++) { a[i] = $1;\n',
    'a \\begin{itemize} \\item ] } \\( \\[ $$\n% a comment {\nb ',
]
BUILTIN = ('verbatim', 'lstlisting', 'Verbatim', 'verbatimtab', 'listing')
USER = ('mycode', 'rawtex')


def find_envs(expr, name, acc):
    for child in expr.all:
        if isinstance(child, TexNamedEnv) and child.name == name:
            acc.append(child)
        if isinstance(child, TexExpr) and not isinstance(child, TexText):
            find_envs(child, name, acc)
    return acc


def check(label, doc, expected, **kwargs):
    """`expected` is a list of (env name, body) in document order."""
    try:
        soup = TexSoup(doc, **kwargs)
        rendered = str(soup)
    except Exception as exc:  # opaque bodies can never cause a parse error
        failures.append('%s: parse error %s: %s\n    doc=%r kwargs=%r' % (
            label, type(exc).__name__, str(exc).splitlines()[0], doc, kwargs))
        return
    if rendered != doc:
        failures.append('%s: not reproduced as written\n    doc=%r\n    got=%r'
                        % (label, doc, rendered))
    for name in set(n for n, _ in expected):
        bodies = [b for n, b in expected if n == name]
        envs = find_envs(soup.expr, name, [])
        if len(envs) != len(bodies):
            failures.append('%s: expected %d %s environment(s), found %d'
                            % (label, len(bodies), name, len(envs)))
            continue
        for env, body in zip(envs, bodies):
            contents = list(env._contents)
            if len(contents) != 1 or not isinstance(contents[0], str) \
                    or str(contents[0]) != body:
                failures.append(
                    '%s: body of %s is not one uninterpreted text\n'
                    '    expected=%r\n    got=%r' % (label, name, [body],
                                                     contents))
    # nothing inside an opaque body is searchable
    for probe in ('textbf', 'item', 'itemize'):
        if soup.find(probe) is not None:
            failures.append('%s: \\%s inside an opaque body is searchable'
                            % (label, probe))


def env(name, body):
    return '\\begin{%s}%s\\end{%s}' % (name, body, name)


for body in BODIES:
    # 1. built-in name alone, user name alone (with the option)
    for b in BUILTIN:
        check('builtin alone', 'pre ' + env(b, body) + ' post', [(b, body)])
    for u in USER:
        check('user alone', 'pre ' + env(u, body) + ' post', [(u, body)],
              skip_envs=(u,))
    # 2. a built-in environment in a call that also names user environments
    for b in BUILTIN:
        for u in USER:
            check('builtin while option is set (option env unused)',
                  'pre ' + env(b, body) + ' post', [(b, body)],
                  skip_envs=(u,))
            check('builtin and user in one document',
                  env(u, body) + '\ntext\n' + env(b, body) + ' post',
                  [(u, body), (b, body)], skip_envs=USER)
            check('builtin nested in named environments, option set',
                  '\\begin{document}\\begin{center}\n' + env(b, body) +
                  '\n' + env(u, body) + '\\end{center}\\end{document}',
                  [(b, body), (u, body)], skip_envs=(u,))
            check('same, tolerant parse',
                  '\\begin{document}\n' + env(b, body) + env(u, body) +
                  '\\end{document}', [(b, body), (u, body)],
                  skip_envs=(u,), tolerance=1)

if failures:
    print('C11 VIOLATED (%d findings), first ones:' % len(failures))
    for f in failures[:6]:
        print(' -', f)
    sys.exit(1)
print('C11 holds on all cases')
sys.exit(0)
