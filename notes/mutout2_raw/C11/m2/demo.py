"""C11 demo 2: the body of a verbatim-like environment runs up to the FIRST
`\\end{name}` of that very environment; `\\begin`/`\\end` of OTHER
environments inside the body are plain text - also when the other name merely
extends the skipped one (verbatim / verbatim* / verbatimtab, listing /
listings, code / codebox).

usage: demo.py /path/to/TexSoup-checkout
exit 0: property holds, exit 1: property violated.
"""
import sys

sys.path.insert(0, sys.argv[1])

from TexSoup import TexSoup  # noqa: E402
from TexSoup.data import TexExpr, TexNamedEnv, TexText  # noqa: E402

failures = []

BUILTIN = ('verbatim', 'lstlisting', 'Verbatim', 'verbatimtab', 'listing')
USER = ('code', 'raw*')
# names of other environments mentioned inside the body
SUFFIXES = ('*', 'tab', 's', 'box')
UNRELATED = ('itemize', 'document', 'equation')


def find_envs(expr, name, acc):
    for child in expr.all:
        if isinstance(child, TexNamedEnv) and child.name == name:
            acc.append(child)
        if isinstance(child, TexExpr) and not isinstance(child, TexText):
            find_envs(child, name, acc)
    return acc


def check(label, doc, name, body, **kwargs):
    try:
        soup = TexSoup(doc, **kwargs)
        rendered = str(soup)
    except Exception as exc:  # opaque bodies can never cause a parse error
        failures.append('%s: parse error %s: %s\n    doc=%r kwargs=%r' % (
            label, type(exc).__name__, str(exc).splitlines()[0], doc, kwargs))
        return
    if rendered != doc:
        failures.append('%s: not reproduced as written\n    doc=%r\n    got=%r'
                        % (label, doc, rendered))
    envs = find_envs(soup.expr, name, [])
    if len(envs) != 1:
        failures.append('%s: expected one %s environment, found %d\n    doc=%r'
                        % (label, name, len(envs), doc))
        return
    contents = list(envs[0]._contents)
    if len(contents) != 1 or not isinstance(contents[0], str) \
            or str(contents[0]) != body:
        failures.append('%s: body of %s is not the text up to the first '
                        '\\end{%s}\n    expected=%r\n    got=%r'
                        % (label, name, name, [body], contents))
    # nothing of the body may be searchable
    for probe in ('textbf', 'item'):
        if soup.find(probe) is not None:
            failures.append('%s: \\%s inside an opaque body is searchable'
                            % (label, probe))


def bodies(name, other):
    # no leading brace/bracket, no trailing backslash, no % on the last line
    yield 'close with \\end{%s} not with } \\textbf{x\n' % other
    yield '\n\\begin{%s}\n  { $ [ \\item\n\\end{%s}\n' % (other, other)
    yield 'x \\end{%s} $ \\begin{%s} ] ' % (other, other)


def run(name, **kwargs):
    others = [name + s for s in SUFFIXES] + list(UNRELATED)
    for other in others:
        if other == name:
            continue
        for body in bodies(name, other):
            env = '\\begin{%s}%s\\end{%s}' % (name, body, name)
            check('top level, body mentions %s' % other,
                  'pre ' + env + ' post', name, body, **kwargs)
            check('nested, body mentions %s' % other,
                  '\\begin{document}\\begin{center}\n' + env +
                  '\n\\end{center} tail\\end{document}', name, body, **kwargs)


for b in BUILTIN:
    run(b)
for u in USER:
    run(u, skip_envs=(u,))
    run(u, skip_envs=(u,), tolerance=1)

if failures:
    print('C11 VIOLATED (%d findings), first ones:' % len(failures))
    for f in failures[:6]:
        print(' -', f)
    sys.exit(1)
print('C11 holds on all cases')
sys.exit(0)
