#!/usr/bin/env python
"""C04 demo: the navigation views of every node agree with each other.

usage: demo.py <path of a TexSoup checkout>
exit 0 = property holds on the documents below, exit 1 = violated.
"""
import sys

sys.path.insert(0, sys.argv[1])
from TexSoup import TexSoup                       # noqa: E402
from TexSoup.data import TexNode                  # noqa: E402


def blank(x):
    return isinstance(x, str) and str(x).isspace()


def key(x):
    """identity of a view element: expression identity, or text + position"""
    if isinstance(x, TexNode):
        return ('node', id(x.expr))
    return ('text', str(x), getattr(x, 'position', None))


def check(src, **options):
    errs = []
    root = TexSoup(src, **options)

    def short(n):
        return repr(str(n))[:50]

    def same(view, exprs, what, owner):
        """`view` (TexNodes / strings) must mirror `exprs` element by element"""
        if len(view) != len(exprs):
            errs.append('%s of %s: %d elements, expected %d: %r' % (
                what, short(owner), len(view), len(exprs), view))
            return
        for got, exp in zip(view, exprs):
            if isinstance(got, TexNode):
                if got.expr is not exp:
                    errs.append('%s of %s: wrong node %s' % (
                        what, short(owner), short(got)))
                if got.parent is not owner:
                    errs.append('%s of %s: parent of %s is not that node' % (
                        what, short(owner), short(got)))
            elif not isinstance(exp, str) or str(got) != str(exp):
                errs.append('%s of %s: wrong text %r' % (
                    what, short(owner), got))

    def closure(node):
        out = list(node.contents)
        for c in node.contents:
            if isinstance(c, TexNode):
                out.extend(closure(c))
        return out

    def leaves(node):
        out = []
        for c in node.contents:
            if isinstance(c, TexNode):
                out.extend(leaves(c))
            else:
                out.append(c)
        return out

    def visit(node):
        complete = list(node.expr.all)
        expected = [e for e in complete if not blank(e)]
        contents = list(node.contents)
        same(contents, expected, 'contents', node)
        same(list(node.children),
             [e for e in expected if not isinstance(e, str)],
             'children', node)
        same(list(iter(node)), expected, 'iteration', node)
        for i in range(len(expected)):
            same([node[i]], [expected[i]], 'index %d' % i, node)
            j = i - len(expected)
            same([node[j]], [expected[i]], 'index %d' % j, node)

        desc = list(node.descendants)
        want = closure(node)
        if sorted(map(key, desc)) != sorted(map(key, want)):
            errs.append('descendants of %s are not the closure of contents '
                        '(%d vs %d elements)' % (short(node), len(desc),
                                                 len(want)))
        for d in desc:
            if isinstance(d, TexNode):
                top, steps = d, 0
                while top.parent is not None and steps < 10000:
                    top, steps = top.parent, steps + 1
                if top is not root:
                    errs.append('parent walk from %s (a descendant of %s) '
                                'does not end at the root' % (short(d),
                                                              short(node)))
        text = list(node.text)
        if [str(t) for t in text] != [str(t) for t in leaves(node)]:
            errs.append('text of %s: %r, expected %r' % (
                short(node), text, leaves(node)))
        if any(blank(t) for t in text):
            errs.append('text of %s has a blank leaf' % short(node))
        for c in contents:
            if isinstance(c, TexNode):
                visit(c)

    if ''.join(str(e) for e in root.expr.all) != src:
        errs.append('complete content list of the root does not concatenate '
                    'to the document')
    visit(root)
    return errs


DOCS = [
    # plain structure: sections, lists, math, groups, comments, verbatim
    r'''\documentclass{article}
\begin{document}
\section{Hello \textit{world}.}
\begin{itemize}
\item red $x+\frac{1}{2}$ lemon \% x \\ y
\item[lbl] life {\bf grp} \\ %c
  \begin{enumerate}\item a \item b
  \end{enumerate}
\end{itemize}
$$ a \[ b \] $$ \( c \)
\begin{verbatim}
 \x { $
\end{verbatim}
\begin{equation} E = mc^2 \end{equation}
\begin{tabular}{c c} a & b \\ c & d \end{tabular}
\end{document}
''',
    # \newcommand-style definitions, braced and unbraced macro names
    r'''\newcommand{\foo}[2]{#1 \textbf{#2}}
\renewcommand{\baz}{x \emph{y} z}
\def\bar{baz \emph{qux}}
\begin{document}
\def\inner{\textit{deep} text}
\begin{itemize}
\item \def\local{v} uses \local
\end{itemize}
\end{document}
''',
]


def main():
    failed = False
    for n, doc in enumerate(DOCS):
        errs = check(doc)
        for e in errs:
            failed = True
            print('document %d: %s' % (n, e))
    if failed:
        print('C04 VIOLATED')
        return 1
    print('C04 holds on %d documents' % len(DOCS))
    return 0


if __name__ == '__main__':
    sys.exit(main())
