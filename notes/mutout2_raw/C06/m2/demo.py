"""C06 demo: parsing must end with a tree or a diagnostic error.

Inputs: small well-formed documents in which an environment is closed by the
wrong \\end (one edit away from well-formed: a changed / deleted character in
the name group, or a deleted name group), where the text right behind that
\\end contains a percent sign (a comment, or an escaped \\%).  Both tolerance
modes are exercised.

Allowed outcomes (the property): a tree, EOFError, TypeError for a malformed
argument, AssertionError.  Anything else (ValueError, IndexError,
AttributeError, RuntimeError, a TypeError that is not the malformed-argument
diagnostic, a hang) is a violation.
"""
import signal
import sys

sys.path.insert(0, sys.argv[1])
from TexSoup import TexSoup  # noqa: E402


class Hang(Exception):
    pass


def _alarm(*_):
    raise Hang()


signal.signal(signal.SIGALRM, _alarm)


def outcome(s, tolerance):
    """None if the property holds for this input, else a description."""
    signal.alarm(20)
    try:
        TexSoup(s, tolerance=tolerance)
    except EOFError:
        return None
    except AssertionError:
        return None
    except TypeError as e:
        if 'Malformed argument' in str(e):
            return None
        return 'TypeError that is not the malformed-argument diagnostic: %s' % e
    except Hang:
        return 'no termination within 20s'
    except BaseException as e:  # internal exception leaked
        return 'leaked %s: %s' % (type(e).__name__, e)
    finally:
        signal.alarm(0)
    return None


bodies = ['x', '\\item a\\item b', '$y$ z', '']
wrong_ends = ['\\end{b}', '\\end{}', '\\end', '\\end {ab}', '\\end{a }']
tails = ['', '%', '% note', '\\%', '\\% of it', ' % c\nmore', '%}\n',
         '{50\\%}', '[%\n]']
inputs = []
for body in bodies:
    for end in wrong_ends:
        for tail in tails:
            inputs.append('\\begin{a}' + body + end + tail)
            inputs.append('pre \\begin{a}' + body + end + tail + '\\end{a}')
# a percent inside the name group of the wrong \end
inputs.append('\\begin{a}x\\end{b%\n}')
inputs.append('\\begin{a}x\\end{\\%}')

bad = []
for s in inputs:
    for tol in (0, 1):
        r = outcome(s, tol)
        if r:
            bad.append((s, tol, r))

if bad:
    print('C06 violated on %d of %d runs, e.g.:' % (len(bad), 2 * len(inputs)))
    for s, tol, r in bad[:8]:
        print('  input %r tolerance=%d -> %s' % (s, tol, r))
    sys.exit(1)
print('C06 holds on %d runs' % (2 * len(inputs)))
sys.exit(0)
