"""C06 demo: parsing must terminate with a tree or a diagnostic error.

Inputs: short documents in which a command with a fixed argument signature
(\\textbf, \\label, \\section, \\def) has received all of its arguments
and is directly followed by more bracket / brace text, e.g.
\\textbf{Theorem}{Smith}, \\label{eq}{x} or \\textbf{T}[Smith].  Such text is ordinary
LaTeX (a plain group behind the command).  Both tolerance modes.

Allowed outcomes (the property): a tree, EOFError, TypeError for a malformed
argument, AssertionError.  Anything else - in particular not terminating - is
a violation.
"""
import signal
import sys

sys.path.insert(0, sys.argv[1])
from TexSoup import TexSoup  # noqa: E402


class Hang(Exception):
    pass


def _alarm(*_):
    raise Hang()


signal.signal(signal.SIGALRM, _alarm)


def outcome(s, tolerance):
    """None if the property holds for this input, else a description."""
    signal.alarm(LIMIT)
    try:
        TexSoup(s, tolerance=tolerance)
    except EOFError:
        return None
    except AssertionError:
        return None
    except TypeError as e:
        if 'Malformed argument' in str(e):
            return None
        return 'TypeError that is not the malformed-argument diagnostic: %s' % e
    except Hang:
        return 'no termination within %ds' % LIMIT
    except BaseException as e:  # internal exception leaked
        return 'leaked %s: %s' % (type(e).__name__, e)
    finally:
        signal.alarm(0)
    return None



LIMIT = 10
cmds = ['\\textbf{Theorem}', '\\label{eq:1}', '\\section{Intro}',
        '\\section[short]{long}', '\\def\\x{y}', '\\textbf x',
        '\\emph{a}', '\\cite{k}', '\\section*{S}']
tails = ['', ' text', '[Smith]', '[', '[a][b]', '{b}', '{', ' [a]', '\n[a]',
         '[a]{b}', ']', '[$x$]', '[\\item a]']
wraps = ['%s', 'A %s B', '\\begin{a}%s\\end{a}', '{%s}', '$%s$',
         '\\begin{itemize}\\item %s\\end{itemize}']
inputs = [w % (c + t) for w in wraps for c in cmds for t in tails]

bad = []
for s in inputs:
    for tol in (0, 1):
        r = outcome(s, tol)
        if r:
            bad.append((s, tol, r))
            if len(bad) >= 6:   # every hang costs LIMIT seconds: stop early
                break
    if len(bad) >= 6:
        break

if bad:
    print('C06 violated, e.g.:')
    for s, tol, r in bad:
        print('  input %r tolerance=%d -> %s' % (s, tol, r))
    sys.exit(1)
print('C06 holds on %d runs' % (2 * len(inputs)))
sys.exit(0)
