#!/usr/bin/env python
"""C15 demo 1: a short edit history (append / replace_with / insert of copied
nodes that themselves contain commands, followed by an edit inside the newly
added material) must keep the serialised text equal to a reference model and
keep search results, descendants, parent links and the text view consistent.

usage: demo.py <path-of-TexSoup-checkout>     exit 0 = holds, exit 1 = violated
"""
import sys

sys.path.insert(0, sys.argv[1])
from TexSoup import TexSoup            # noqa: E402
from TexSoup.data import TexNode       # noqa: E402

problems = []


def fail(step, msg):
    problems.append('[%s] %s' % (step, msg))


def walk(node):
    """Depth-first walk over the tree using nothing but `.contents`."""
    for c in node.contents:
        yield c
        if isinstance(c, TexNode):
            for d in walk(c):
                yield d


def check(step, soup, expected_text, names):
    # 1. serialised text equals the reference model's text
    if str(soup) != expected_text:
        fail(step, 'text %r != model %r' % (str(soup), expected_text))
    walked = list(walk(soup))
    desc = list(soup.descendants)
    # 2. descendants == what a plain recursive walk of contents sees
    key = lambda x: (isinstance(x, TexNode), str(x))
    if sorted(map(key, walked)) != sorted(map(key, desc)):
        fail(step, 'descendants %r differ from recursive contents walk %r'
             % (desc, walked))
    # 3. search results agree with the walk and with the serialised text
    for name in names:
        found = soup.find_all(name)
        in_walk = [n for n in walked
                   if isinstance(n, TexNode) and n.name == name]
        in_text = str(soup).count('\\' + name) \
            + str(soup).count('\\begin{%s}' % name)
        if not (len(found) == len(in_walk) == in_text):
            fail(step, 'find_all(%r) gives %d, contents walk %d, text %d'
                 % (name, len(found), len(in_walk), in_text))
    # 4. parent links: every node reachable has a parent that lists it
    for n in [soup] + [d for d in desc if isinstance(d, TexNode)]:
        for c in n.contents:
            if not isinstance(c, TexNode):
                continue
            if c.parent is None or c.parent.expr is not n.expr:
                fail(step, 'parent of %r is %r, expected %r'
                     % (c, c.parent, n.name))
        kids = [k for k in n.children]
        exprs = [c for c in n.contents if isinstance(c, TexNode)]
        if [str(k) for k in kids] != [str(c) for c in exprs]:
            fail(step, 'children %r of %r differ from node contents %r'
                 % (kids, n.name, exprs))
    # 5. text view == strings met by the walk, in order
    strings = [str(s) for s in walked if not isinstance(s, TexNode)]
    if [str(t) for t in soup.text] != strings:
        fail(step, 'text view %r != strings in tree %r'
             % (list(soup.text), strings))


NAMES = ['itemize', 'item', 'section', 'textbf', 'emph', 'textit', 'ref']


def fresh(src, name):
    """A freshly created node: copy of a node parsed elsewhere."""
    return getattr(TexSoup(src), name).copy()


try:
    soup = TexSoup(r'\begin{itemize}\item A\item B\end{itemize}\section{S}\ref{k}')
    check('parse', soup,
          r'\begin{itemize}\item A\item B\end{itemize}\section{S}\ref{k}',
          NAMES)

    # step 1: insert a fresh node at the front of the environment
    soup.itemize.insert(0, fresh(r'\textit{\ref{i}}', 'textit'))
    check('insert', soup,
          r'\begin{itemize}\textit{\ref{i}}\item A\item B\end{itemize}'
          r'\section{S}\ref{k}', NAMES)

    # step 2: append a fresh node (with a nested command) and a plain string
    soup.itemize.append(fresh(r'\textbf{\emph{x}}', 'textbf'), 'tail')
    check('append', soup,
          r'\begin{itemize}\textit{\ref{i}}\item A\item B\textbf{\emph{x}}tail'
          r'\end{itemize}\section{S}\ref{k}', NAMES)

    # step 3: replace an untouched node by a fresh one with a nested command
    soup.section.replace_with(fresh(r'\textit{\emph{y}}', 'textit'))
    check('replace_with', soup,
          r'\begin{itemize}\textit{\ref{i}}\item A\item B\textbf{\emph{x}}tail'
          r'\end{itemize}\textit{\emph{y}}\ref{k}', NAMES)

    # step 4: edit inside previously added material
    emphs = soup.find_all('emph')
    if len(emphs) != 2:
        fail('edit-inside', 'expected to reach 2 \\emph, got %r' % emphs)
    for e in emphs:
        e.name = 'textbf'
    check('edit-inside', soup,
          r'\begin{itemize}\textit{\ref{i}}\item A\item B\textbf{\textbf{x}}tail'
          r'\end{itemize}\textit{\textbf{y}}\ref{k}', NAMES)

    # step 5: delete material added in step 2, reached through its parent
    added = [c for c in soup.itemize.children if c.name == 'textbf']
    if len(added) != 1:
        fail('delete-added', 'appended node not among children: %r'
             % soup.itemize.children)
    for a in added:
        a.delete()
    check('delete-added', soup,
          r'\begin{itemize}\textit{\ref{i}}\item A\item Btail'
          r'\end{itemize}\textit{\textbf{y}}\ref{k}', NAMES)
except Exception as exc:   # an edit the model accepts must not blow up
    import traceback
    traceback.print_exc()
    fail('exception', repr(exc))

if problems:
    print('PROPERTY C15 VIOLATED:')
    for p in problems:
        print('  ' + p)
    sys.exit(1)
print('C15 holds on this checkout for the demo history')
sys.exit(0)
