#!/usr/bin/env python
r"""C15 demo 2: replacing a node by SEVERAL new items must put them in the
given order at the place of the replaced node, wherever that node lives
(environment body, \item body, or inside an argument group of a command or
environment). The serialised text is compared with a reference model (plain
list splice); search results and the text view are cross-checked as well.

usage: demo.py <path-of-TexSoup-checkout>     exit 0 = holds, exit 1 = violated
"""
import re
import sys

sys.path.insert(0, sys.argv[1])
from TexSoup import TexSoup            # noqa: E402
from TexSoup.data import TexNode       # noqa: E402

problems = []


def fail(step, msg):
    problems.append('[%s] %s' % (step, msg))


def walk(node):
    for c in node.contents:
        yield c
        if isinstance(c, TexNode):
            for d in walk(c):
                yield d


def check(step, soup, expected_text, names):
    if str(soup) != expected_text:
        fail(step, 'text %r != model %r' % (str(soup), expected_text))
    walked = list(walk(soup))
    for name in names:
        found = soup.find_all(name)
        in_text = len(re.findall(r'\\' + name + r'(?![A-Za-z])', expected_text))
        if len(found) != in_text:
            fail(step, 'find_all(%r) gives %d, model has %d'
                 % (name, len(found), in_text))
    strings = [str(s) for s in walked if not isinstance(s, TexNode)]
    if [str(t) for t in soup.text] != strings:
        fail(step, 'text view %r != strings in tree %r'
             % (list(soup.text), strings))


def fresh(src, name):
    """A freshly created node: copy of a node parsed elsewhere."""
    return getattr(TexSoup(src), name).copy()


NAMES = ['sec', 'ref', 'emph', 'textbf', 'textit', 'cite']

# (label, source, name of the node to replace, model text after the edit);
# the replacement is always:  \textbf{1} , 'and' , \textit{2}
CASES = [
    ('env body',
     r'\begin{quote}a\ref{k}b\end{quote}',
     r'\begin{quote}a\textbf{1}and\textit{2}b\end{quote}'),
    ('top level',
     r'x\ref{k}y',
     r'x\textbf{1}and\textit{2}y'),
    ('item body',
     r'\begin{itemize}\item a\ref{k}b\end{itemize}',
     r'\begin{itemize}\item a\textbf{1}and\textit{2}b\end{itemize}'),
    ('command argument',
     r'\sec{a\ref{k}b}',
     r'\sec{a\textbf{1}and\textit{2}b}'),
    ('second argument of a command',
     r'\sec[o]{\ref{k}}',
     r'\sec[o]{\textbf{1}and\textit{2}}'),
    ('environment argument',
     r'\begin{quote}{a\ref{k}}body\end{quote}',
     r'\begin{quote}{a\textbf{1}and\textit{2}}body\end{quote}'),
]

for label, src, model in CASES:
    try:
        soup = TexSoup(src)
        check(label + ': parse', soup, src, NAMES)
        soup.find('ref').replace_with(
            fresh(r'\textbf{1}', 'textbf'), 'and', fresh(r'\textit{2}', 'textit'))
        check(label + ': replace_with(3 items)', soup, model, NAMES)
        # history: go on editing the new material, then replace once more
        soup.find('textit').string = 'z'
        model2 = model.replace(r'\textit{2}', r'\textit{z}')
        check(label + ': set string', soup, model2, NAMES)
        soup.find('textbf').replace_with(
            'p', fresh(r'\emph{q}', 'emph'))
        model3 = model2.replace(r'\textbf{1}', r'p\emph{q}')
        check(label + ': replace_with(2 items)', soup, model3, NAMES)
    except Exception as exc:
        import traceback
        traceback.print_exc()
        fail(label, 'exception %r' % exc)

if problems:
    print('PROPERTY C15 VIOLATED:')
    for p in problems:
        print('  ' + p)
    sys.exit(1)
print('C15 holds on this checkout for the demo histories')
sys.exit(0)
