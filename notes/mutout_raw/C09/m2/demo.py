"""Property C09: for EVERY command name outside the fixed-signature table
(`TexSoup.reader.SIGNATURES`), the arguments are exactly the maximal run of
bracket groups followed by brace groups after the name (neighbours separated
only by blanks with at most one line break); a detaching separator ends the
run.

The names tried here are ordinary names and names that are close to, but not
in, the table (starred / prefixed / suffixed / re-capitalised table names).

Usage: demo.py <path-to-TexSoup-checkout>
Exit 0 if the property holds on all generated inputs, 1 otherwise.
"""
import itertools
import sys

sys.path.insert(0, sys.argv[1])

from TexSoup import TexSoup  # noqa: E402
from TexSoup.reader import SIGNATURES  # noqa: E402

TABLE = sorted(str(k) for k in SIGNATURES)

NAMES = ['foo', 'foo*', 'mycmd', 'x']
for key in TABLE:
    NAMES += [key + '*', key + 'x', 'my' + key, key.capitalize()]
# keep only names that really are outside the table (and that the tokenizer
# reads as one command name: letters with an optional star)
NAMES = [n for n in dict.fromkeys(NAMES) if n not in SIGNATURES]

ATTACHING = ['', ' ', '\n', ' \n\t']
DETACHING = ['\n\n', ',', '%c\n']
CONTEXTS = {'top': '%s', 'brace group': '{%s}', 'inline math': '$%s$'}


def cases():
    for n_opt, n_req in itertools.product(range(3), range(4)):
        groups = ['[o%d]' % i for i in range(n_opt)] + \
                 ['{r%d}' % i for i in range(n_req)]
        if not groups:
            continue
        for sep in ATTACHING:
            yield groups, [sep] * len(groups), len(groups)
        for pos, sep in itertools.product(range(len(groups)), DETACHING):
            seps = [''] * len(groups)
            seps[pos] = sep
            yield groups, seps, pos


def find(expr, name):
    """First command called `name` in the expression tree (document order)."""
    for child in expr.all:
        if getattr(child, 'name', None) == name and hasattr(child, 'args') \
                and type(child).__name__ == 'TexCmd':
            return child
        if type(child).__name__ != 'TexText':
            hit = find(child, name)
            if hit is not None:
                return hit
    return None


def main():
    failures = []
    checked = 0
    for name, (ctx_name, ctx), (groups, seps, expected) in itertools.product(
            NAMES, CONTEXTS.items(), cases()):
        snippet = '\\' + name + ''.join(
            s + g for s, g in zip(seps, groups)) + '.'
        source = ctx % snippet
        checked += 1
        try:
            cmd = find(TexSoup(source).expr, name)
            got = [str(arg) for arg in cmd.args]
        except Exception as e:
            failures.append((ctx_name, source, 'raised %r' % e))
            continue
        want = groups[:expected]
        if got != want:
            failures.append(
                (ctx_name, source, 'attached %r, expected %r' % (got, want)))

    if failures:
        print('C09 VIOLATED in %d of %d inputs; first few:' % (
            len(failures), checked))
        for ctx_name, source, what in failures[:8]:
            print('  [%s] %r: %s' % (ctx_name, source, what))
        return 1
    print('C09 holds on %d inputs (%d names)' % (checked, len(NAMES)))
    return 0


if __name__ == '__main__':
    sys.exit(main())
