"""Property C09: a command's arguments are exactly the maximal run of bracket
groups followed by brace groups after its name; neighbours may be separated
only by blanks containing at most one line break; anything else (blank line,
punctuation, comment) ends the run.  This must hold in every enclosing
context (top level, inside a group, inside another command's argument, inside
math, inside an environment, ...).

Usage: demo.py <path-to-TexSoup-checkout>
Exit 0 if the property holds on all generated inputs, 1 otherwise.
"""
import itertools
import sys

sys.path.insert(0, sys.argv[1])

from TexSoup import TexSoup  # noqa: E402

NAME = 'foo'
ATTACHING = ['', ' ', '\t', '\n', ' \n\t']
DETACHING = ['\n\n', ',', '%c\n']

CONTEXTS = {
    'top': '%s',
    'brace group': '{%s}',
    'argument of another command': '\\outer{%s}',
    'optional argument of another command': '\\outer[%s]{z}',
    'center environment': '\\begin{center}%s\\end{center}',
    'inline math $': '$%s$',
    'inline math \\(': '\\(%s\\)',
    'display math $$': '$$%s$$',
    'display math \\[': '\\[%s\\]',
    'equation environment': '\\begin{equation}%s\\end{equation}',
}


def cases():
    """(groups, separators, expected number of attached groups)."""
    for n_opt, n_req in itertools.product(range(3), range(3)):
        groups = ['[o%d]' % i for i in range(n_opt)] + \
                 ['{r%d}' % i for i in range(n_req)]
        if not groups:
            continue
        # every attaching separator at every position, others empty
        for pos, sep in itertools.product(range(len(groups)), ATTACHING):
            seps = [''] * len(groups)
            seps[pos] = sep
            yield groups, seps, len(groups)
        # the same attaching separator everywhere
        for sep in ATTACHING:
            yield groups, [sep] * len(groups), len(groups)
        # one detaching separator at every position
        for pos, sep in itertools.product(range(len(groups)), DETACHING):
            seps = [' '] * len(groups)
            seps[pos] = sep
            yield groups, seps, pos


def main():
    failures = []
    checked = 0
    for (ctx_name, ctx), (groups, seps, expected) in itertools.product(
            CONTEXTS.items(), cases()):
        snippet = '\\' + NAME + ''.join(
            s + g for s, g in zip(seps, groups)) + '.'
        source = ctx % snippet
        checked += 1
        try:
            soup = TexSoup(source)
            cmd = soup.find(NAME)
            got = [str(arg) for arg in cmd.args]
        except Exception as e:  # parsing must not fail on these inputs
            failures.append((ctx_name, source, 'raised %r' % e))
            continue
        want = groups[:expected]
        if got != want:
            failures.append(
                (ctx_name, source, 'attached %r, expected %r' % (got, want)))

    if failures:
        print('C09 VIOLATED in %d of %d inputs; first few:' % (
            len(failures), checked))
        for ctx_name, source, what in failures[:8]:
            print('  [%s] %r: %s' % (ctx_name, source, what))
        return 1
    print('C09 holds on %d inputs' % checked)
    return 0


if __name__ == '__main__':
    sys.exit(main())
