#!/usr/bin/env python
"""C08 demo: serialisation conserves the characters of any parseable input.

Usage: demo.py /path/to/TexSoup-checkout
Exits 0 if every probed input that parses (strict mode) is re-serialised with
exactly its own characters in order (only whitespace runs directly before an
opening '{' or '[' may disappear); exits 1 and prints the offenders otherwise.
"""
import sys

sys.path.insert(0, sys.argv[1])
from TexSoup import TexSoup  # noqa: E402

WS = ' \t\n\r'


def conserved(src, out):
    """True iff `out` is `src` minus whitespace runs standing directly before
    an opening brace or bracket."""
    i = j = 0
    n, m = len(src), len(out)
    while i < n:
        if j < m and src[i] == out[j]:
            i += 1
            j += 1
            continue
        k = i
        while k < n and src[k] in WS:
            k += 1
        if i < k < n and src[k] in '{[':
            i = k
            continue
        return False
    return j == m


# what may directly follow the closing \end{...} of an environment
TAILS = ['', 'z', ' z', '{y}z', '[y]z', '[y]', ' [y]z', '\n[y]z', '[y]{z}w',
         '{y}[z]w', '[]', '[y][z]', ']', '}', '[y}z]']
BODIES = ['x', '', ' x ', '\\item a\\item b', '$x$', '{x}', '[x]']
ENVS = [('\\begin{e}', '\\end{e}'), ('\\begin{e}[o]{r}', '\\end{e}'),
        ('\\begin{itemize}', '\\end{itemize}'),
        ('\\begin{equation}', '\\end{equation}'),
        ('\\begin{e}', '\\end {e}'), ('\\begin{e}', '\\end\n{e}')]
WRAPS = ['%s', '{%s}', 'a %s b', '\\textbf{%s}', '\\begin{o}%s\\end{o}']

inputs = []
for b, e in ENVS:
    for body in BODIES:
        for tail in TAILS:
            for w in WRAPS:
                inputs.append(w % (b + body + e + tail))

bad = []
parsed = 0
for s in inputs:
    try:
        out = str(TexSoup(s))
    except Exception:
        continue        # outside the domain: the property is about parseable input
    parsed += 1
    if not conserved(s, out):
        bad.append((s, out))

if bad:
    print('C08 VIOLATED on %d of %d parseable inputs; first few:' % (len(bad), parsed))
    for s, out in bad[:8]:
        print('  input : %r\n  output: %r' % (s, out))
    sys.exit(1)
print('C08 holds on %d parseable inputs' % parsed)
sys.exit(0)
