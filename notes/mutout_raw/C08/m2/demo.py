#!/usr/bin/env python
"""C08 demo: serialisation conserves the characters of any parseable input.

Usage: demo.py /path/to/TexSoup-checkout
Exits 0 if every probed input that parses (strict mode) is re-serialised with
exactly its own characters in order (only whitespace runs directly before an
opening '{' or '[' may disappear); exits 1 and prints the offenders otherwise.
"""
import itertools
import sys

sys.path.insert(0, sys.argv[1])
from TexSoup import TexSoup  # noqa: E402

WS = ' \t\n\r'


def conserved(src, out):
    """True iff `out` is `src` minus whitespace runs standing directly before
    an opening brace or bracket."""
    i = j = 0
    n, m = len(src), len(out)
    while i < n:
        if j < m and src[i] == out[j]:
            i += 1
            j += 1
            continue
        k = i
        while k < n and src[k] in WS:
            k += 1
        if i < k < n and src[k] in '{[':
            i = k
            continue
        return False
    return j == m


# every string of up to 4 pieces over a small token-kind alphabet that starts
# with \item, bare and inside a list, plus a few longer realistic shapes
PIECES = ['\\item', '[', ']', '{', '}', 'a', '1', ' ', '\n', '$', '\\b']
WRAPS = ['%s', '\\begin{itemize}%s\\end{itemize}']

inputs = []
for n in range(0, 4):
    for tail in itertools.product(PIECES, repeat=n):
        body = '\\item' + ''.join(tail)
        for w in WRAPS:
            inputs.append(w % body)

inputs += [
    '\\item[a]b', '\\item[a] b', '\\item[1.]text\\item[2.] more', '\\item{a}b',
    '\\begin{description}\\item[key]value\\item[k2] v2\\end{description}',
    '\\begin{itemize}\n\\item one\n\\item[x]two\n\\end{itemize}\n',
    '{\\item[a]b}', '\\item [a]b c', '\\item[a][b]c', '\\item\\textbf{a}b',
]

bad = []
parsed = 0
for s in inputs:
    try:
        out = str(TexSoup(s))
    except Exception:
        continue        # outside the domain: the property is about parseable input
    parsed += 1
    if not conserved(s, out):
        bad.append((s, out))

if bad:
    print('C08 VIOLATED on %d of %d parseable inputs; first few:' % (len(bad), parsed))
    for s, out in bad[:8]:
        print('  input : %r\n  output: %r' % (s, out))
    sys.exit(1)
print('C08 holds on %d parseable inputs' % parsed)
sys.exit(0)
