#!/usr/bin/env python
"""C16 demo: serialised output must be a fixed point of the parser.

usage: demo.py /path/to/TexSoup-checkout
exit 0: property holds on the probed inputs, exit 1: violated (details printed)
"""
import sys

sys.path.insert(0, sys.argv[1])

from TexSoup import TexSoup                      # noqa: E402
from TexSoup.data import TexExpr, TexText        # noqa: E402


def shape(e):
    """names, arguments and contents of a (sub)tree, recursively"""
    if isinstance(e, TexText):
        return ('text', str(e))
    if isinstance(e, TexExpr):
        return (type(e).__name__, str(e.name),
                tuple(shape(a) for a in e.args),
                tuple(shape(c) for c in e._contents))
    return ('text', str(e))


# \item directly followed (no blank, no [label]) by text that does not start
# with a letter: a digit, punctuation, a parenthesis, an escaped symbol or a
# comment.  All inputs parse in strict mode, have no NUL/DEL, no \def/\textbf/
# \section/\label without braces and no sizing prefix.
INPUTS = [
    # plain sanity
    '\\begin{itemize}\n\\item one\n\\item two\n\\end{itemize}',
    '\\begin{enumerate}\n  \\item[a)] first \\item {\\bf x} y\n\\end{enumerate}',
    '\\item $x$ and \\item\n\nnext',
    '\\item\\textbf{bold} and \\item$x$',
    # \item glued to a non-letter text
    '\\begin{enumerate}\\item1. first\\item2. second\\end{enumerate}',
    '\\begin{itemize}\n\\item(a) text\n\\item-- dash\n\\end{itemize}',
    '\\begin{itemize}\\item\\% percent\\item\\\\\\end{itemize}',
    '\\begin{itemize}\n\\item% no text yet\n\\item~x\n\\end{itemize}',
    '{\\item]x}',
]


def main():
    failures = []
    for src in INPUTS:
        try:
            soup1 = TexSoup(src)            # strict mode is the default
        except Exception as exc:            # not in the domain of the property
            print('skipped (does not parse in strict mode): %r: %r' % (src, exc))
            continue
        out1 = str(soup1)
        try:
            soup2 = TexSoup(out1)
        except Exception as exc:
            failures.append('input %r\n  serialised %r\n  re-parse FAILED: %r'
                            % (src, out1, exc))
            continue
        out2 = str(soup2)
        if out2 != out1:
            failures.append('input %r\n  save 1: %r\n  save 2: %r\n  '
                            'load-save-load-save drifts' % (src, out1, out2))
        elif shape(soup1.expr) != shape(soup2.expr):
            failures.append('input %r\n  serialised %r\n  tree 1: %r\n  '
                            'tree 2: %r\n  re-parsed tree has another shape'
                            % (src, out1, shape(soup1.expr), shape(soup2.expr)))
    if failures:
        print('C16 VIOLATED:')
        for f in failures:
            print(' -', f)
        return 1
    print('C16 holds on %d inputs' % len(INPUTS))
    return 0


if __name__ == '__main__':
    sys.exit(main())
