#!/usr/bin/env python
"""C16 demo: serialised output must be a fixed point of the parser.

usage: demo.py /path/to/TexSoup-checkout
exit 0: property holds on the probed inputs, exit 1: violated (details printed)
"""
import sys

sys.path.insert(0, sys.argv[1])

from TexSoup import TexSoup                      # noqa: E402
from TexSoup.data import TexExpr, TexText        # noqa: E402


def shape(e):
    """names, arguments and contents of a (sub)tree, recursively"""
    if isinstance(e, TexText):
        return ('text', str(e))
    if isinstance(e, TexExpr):
        return (type(e).__name__, str(e.name),
                tuple(shape(a) for a in e.args),
                tuple(shape(c) for c in e._contents))
    return ('text', str(e))


# Zero-argument commands (\noindent, \in, \cup, \infty ...) followed by a
# paragraph break / a CRLF line end, i.e. by two consecutive blank tokens.
# All inputs parse in strict mode, have no NUL/DEL, no \def/\textbf/\section/
# \label without braces and no sizing prefix.
INPUTS = [
    # plain sanity
    '\\noindent Some text.',
    '\\noindent \\textbf{Bold} start',
    '$a \\in B$, $x \\cup [0, \\infty)$',
    '\\foo \n\n{x}',
    # zero-argument command, then a blank line, then a non-letter
    '\\noindent\n\n\\textbf{Bold} paragraph',
    'Text\n\n\\noindent \n\n{\\itshape x} more',
    '\\begin{itemize}\n\\item $a \\in$\n\n\\item $b \\notin$ \n\n\\end{itemize}',
    '$$\\lim_{n \\to \\infty}\n\n$$',
    # the same with Windows line ends
    '\\noindent\r\n\\textbf{Bold}\r\n',
    # trailing blank lines at the end of the input
    'Done. \\noindent\n\n',
]


def main():
    failures = []
    for src in INPUTS:
        try:
            soup1 = TexSoup(src)            # strict mode is the default
        except Exception as exc:            # not in the domain of the property
            print('skipped (does not parse in strict mode): %r: %r' % (src, exc))
            continue
        out1 = str(soup1)
        try:
            soup2 = TexSoup(out1)
        except Exception as exc:
            failures.append('input %r\n  serialised %r\n  re-parse FAILED: %r'
                            % (src, out1, exc))
            continue
        out2 = str(soup2)
        if out2 != out1:
            failures.append('input %r\n  save 1: %r\n  save 2: %r\n  '
                            'load-save-load-save drifts' % (src, out1, out2))
        elif shape(soup1.expr) != shape(soup2.expr):
            failures.append('input %r\n  serialised %r\n  tree 1: %r\n  '
                            'tree 2: %r\n  re-parsed tree has another shape'
                            % (src, out1, shape(soup1.expr), shape(soup2.expr)))
    if failures:
        print('C16 VIOLATED:')
        for f in failures:
            print(' -', f)
        return 1
    print('C16 holds on %d inputs' % len(INPUTS))
    return 0


if __name__ == '__main__':
    sys.exit(main())
