"""C04 demo 2: whitespace-only text leaves in the navigation views.

Property clauses checked: "`contents` is the node's complete content list
(`expr.all`) without whitespace-only text, `children` is `contents` without
text, iteration and indexing follow `contents`, ... `text` lists the
non-blank text leaves in document order".

usage: demo.py <path of a TexSoup checkout>; exit 0 = holds, 1 = violated
"""
import sys
sys.path.insert(0, sys.argv[1])

from TexSoup import TexSoup          # noqa: E402
from TexSoup.data import TexNode     # noqa: E402

DOCS = [
    # ordinary bodies
    'intro\n\\begin{verbatim}\n  \\foo{ } $ %\n\\end{verbatim}\nafter',
    '\\begin{lstlisting}[language=C]\nint x;\n\\end{lstlisting}',
    # blank leaves next to / inside arguments, groups, items and math
    'a \\textbf{ } b \\textit{ \\emph{x} } c { } d',
    '\\begin{itemize}\n  \\item one\n\n  \\item[ ] $ x $ two\n\\end{itemize}\n',
    '\\begin{thm}[ name ]{ }\n  \\[ a \\]\n\\end{thm}',
    # verbatim-like environments whose body is blank
    'x\n\\begin{verbatim}\n\\end{verbatim}\ny',
    '\\begin{document}\ncode:\n\\begin{lstlisting}[language=C]\n'
    '   \n\\end{lstlisting}\n\\textbf{and} \\begin{Verbatim}  \\end{Verbatim}\n'
    '\\end{document}',
]


def is_blank(s):
    return len(s) > 0 and s.isspace()


def key(x):
    if isinstance(x, TexNode):
        return ('node', id(x.expr))
    return ('text', str(x))


def leaves(expr):
    """Non-blank text leaves below an expression, in document order."""
    for e in expr.all:
        if isinstance(e, str):
            if not is_blank(str(e)):
                yield str(e)
        else:
            yield from leaves(e)


def check(src, errors):
    root = TexSoup(src)
    whole = ''.join(str(e) for e in root.expr.all)
    if whole != src:
        errors.append('%r: the complete content list of the root '
                      'concatenates to %r' % (src, whole))

    def visit(node):
        everything = list(node.expr.all)
        want = [('text', str(e)) if isinstance(e, str) else ('node', id(e))
                for e in everything
                if not (isinstance(e, str) and is_blank(str(e)))]
        contents = node.contents
        if [key(c) for c in contents] != want:
            errors.append(
                '%r: contents of %r is %r, but expr.all without '
                'whitespace-only text is %r'
                % (src, str(node), contents,
                   [e for e in everything
                    if not (isinstance(e, str) and is_blank(str(e)))]))
        if [key(c) for c in node.children] != \
                [key(c) for c in contents if isinstance(c, TexNode)]:
            errors.append('%r: children of %r is not contents without text'
                          % (src, str(node)))
        if [key(c) for c in node] != [key(c) for c in contents] or \
                [key(node[i]) for i in range(len(contents))] != \
                [key(c) for c in contents]:
            errors.append('%r: iteration/indexing of %r does not follow '
                          'contents' % (src, str(node)))
        text = [str(t) for t in node.text]
        if text != list(leaves(node.expr)):
            errors.append(
                '%r: text of %r is %r, but the non-blank text leaves in '
                'document order are %r'
                % (src, str(node), text, list(leaves(node.expr))))
        for c in contents:
            if isinstance(c, TexNode):
                visit(c)

    visit(root)


def main():
    errors = []
    for src in DOCS:
        check(src, errors)
    if errors:
        print('C04 VIOLATED (%d findings), first ones:' % len(errors))
        for e in errors[:6]:
            print('  -', e)
        return 1
    print('C04 holds on the demo documents')
    return 0


if __name__ == '__main__':
    sys.exit(main())
