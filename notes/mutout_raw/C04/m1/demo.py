"""C04 demo 1: parents of nodes reached through the navigation views.

Property clause checked: "The parent of every node reached through any of
these views is the node it was reached from, so walking parents from any
descendant ends at the root" (together with: descendants is the transitive
closure of contents, every node once).

usage: demo.py <path of a TexSoup checkout>; exit 0 = holds, 1 = violated
"""
import sys
sys.path.insert(0, sys.argv[1])

from TexSoup import TexSoup          # noqa: E402
from TexSoup.data import TexNode     # noqa: E402

DOCS = [
    # depth 1 only
    r'\section{Intro} some \textbf{bold} text',
    # depth 2: a command inside an argument of a command
    r'\section{Hello \textit{world}.} tail',
    # depth 3/4: environments, items, groups and math
    '\\begin{document}\n\\section{A}\n\\begin{itemize}\n'
    '\\item one \\emph{deep {deeper $m^2$}}\n\\item two\n'
    '\\end{itemize}\n\\end{document}\n',
    r'\newcommand{\foo}[2]{#1 \textbf{#2 \textit{x}}} \[ \frac{\alpha}{2} \]',
]


def closure(node):
    """Transitive closure of `contents`, each entry with the node it was
    reached from."""
    for c in node.contents:
        yield c, node
        if isinstance(c, TexNode):
            yield from closure(c)


def check(src, errors):
    root = TexSoup(src)
    assert root.parent is None

    def visit(node):
        # one step: contents / children / iteration / indexing
        for view, items in (('contents', node.contents),
                            ('children', node.children),
                            ('iteration', list(node)),
                            ('indexing', [node[i] for i in
                                          range(len(node.contents))])):
            for c in items:
                if isinstance(c, TexNode) and c.parent is not node:
                    errors.append(
                        '%r: %r reached through %s of %r has parent %r'
                        % (src, str(c), view, str(node), c.parent))

        # descendants: same members as the closure of contents ...
        desc = list(node.descendants)
        want = sorted(id(c.expr) if isinstance(c, TexNode) else id(c)
                      for c, _ in closure(node))
        got = sorted(id(d.expr) if isinstance(d, TexNode) else id(d)
                     for d in desc)
        if want != got:
            errors.append('%r: descendants of %r are not the closure of '
                          'contents: %r' % (src, str(node), desc))
        # ... and from each of them the parents lead, through `node`,
        # to the root of the document
        for d in desc:
            if not isinstance(d, TexNode):
                continue
            chain, p = [], d
            while p.parent is not None and len(chain) < 10000:
                p = p.parent
                chain.append(p)
            if not chain or p.expr is not root.expr:
                errors.append(
                    '%r: walking parents from %r (a descendant of %r) ends '
                    'at %r instead of the root; chain = %r'
                    % (src, str(d), str(node), str(p),
                       [str(q) for q in chain]))
            elif not any(q.expr is node.expr for q in chain):
                errors.append(
                    '%r: the parents of %r never reach %r, whose descendant '
                    'it is' % (src, str(d), str(node)))
            elif d.parent.expr is not None and not any(
                    isinstance(c, TexNode) and c.expr is d.expr
                    for c in d.parent.contents):
                errors.append('%r: %r is not among the contents of its '
                              'parent %r' % (src, str(d), str(d.parent)))

        for c in node.contents:
            if isinstance(c, TexNode):
                visit(c)

    visit(root)


def main():
    errors = []
    for src in DOCS:
        check(src, errors)
    if errors:
        print('C04 VIOLATED (%d findings), first ones:' % len(errors))
        for e in errors[:5]:
            print('  -', e)
        return 1
    print('C04 holds on the demo documents')
    return 0


if __name__ == '__main__':
    sys.exit(main())
