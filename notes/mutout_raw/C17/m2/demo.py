"""C17 demo: the parse result is a function of the source and the options
of THAT call alone; earlier parses never influence a later parse.

History probed: parse document A with default options, parse some other
document B with a non-default option value (skip_envs), parse A again with
default options.  Both parses of A were given the same characters and the
same options, so they must yield identical trees and text.

usage: demo.py <path-to-TexSoup-checkout>
exit 0: property holds, exit 1: violated.
"""
import sys

sys.path.insert(0, sys.argv[1])

from TexSoup import TexSoup            # noqa: E402
from TexSoup.data import TexExpr       # noqa: E402


def shape(expr):
    """Structural snapshot of a tree (types, names, text)."""
    if not isinstance(expr, TexExpr):
        return ('str', str(expr))
    return (type(expr).__name__, str(expr.name),
            tuple(shape(a) for a in expr.args.all),
            tuple(shape(c) for c in expr._contents))


def snapshot(src, **options):
    soup = TexSoup(src, **options)
    return str(soup), shape(soup.expr), len(list(soup.descendants))


DOC_A = [
    r'\begin{note}a \textbf{b} and $x$\end{note} tail',
    r'\begin{proof}\section{S} \item z\end{proof}',
    r'plain \emph{text} only',
]
# (other document, options of that other parse)
OTHER = [
    (r'\begin{note} \textbf{unbalanced \end{note}', dict(skip_envs=('note',))),
    (r'\begin{proof} raw { \end{proof}', dict(skip_envs=('proof', 'remark'))),
    (r'nothing special', dict(tolerance=1)),
]

failures = []

for doc in DOC_A:
    for other_src, other_opts in OTHER:
        before = snapshot(doc)
        TexSoup(other_src, **other_opts)        # unrelated parse in between
        after = snapshot(doc)
        if before != after:
            failures.append(
                'parse of %r (default options) changed after parsing %r with '
                '%r:\n     before: %r\n     after:  %r'
                % (doc, other_src, other_opts, before[1], after[1]))

if failures:
    print('C17 VIOLATED')
    for f in failures:
        print(' -', f)
    sys.exit(1)
print('C17 holds on the probed histories')
sys.exit(0)
