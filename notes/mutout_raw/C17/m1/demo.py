"""C17 demo: parses are isolated.

Parsing the same source twice must yield equal trees that share no mutable
state, and editing the tree of an earlier parse must never influence a later
parse of the same characters.

usage: demo.py <path-to-TexSoup-checkout>
exit 0: property holds, exit 1: violated.
"""
import sys

sys.path.insert(0, sys.argv[1])

from TexSoup import TexSoup            # noqa: E402
from TexSoup.data import TexExpr, TexGroup  # noqa: E402

SOURCES = [
    r'\textbf{bold} and $x^2$ text',
    r'\section{Intro} some \emph{words}',
    r'\begin{itemize}\item one \item two\end{itemize}',
    # commands with a known signature whose required argument is NOT
    # brace-delimited (the parser synthesises the group itself)
    r'\textbf x',
    r'see \label key',
    r'\section[short] Title',
    r'\def\foo x',
]


def walk(expr):
    """Yield every mutable object (expression / list) reachable from expr."""
    if not isinstance(expr, TexExpr):
        return          # plain str / Token leaves are immutable text
    yield expr
    yield expr._contents
    yield expr.args
    yield expr.args.all
    for arg in expr.args.all:
        yield from walk(arg)
    for content in expr._contents:
        yield from walk(content)


def shape(expr):
    """Structural snapshot of a tree (types, names, text)."""
    if not isinstance(expr, TexExpr):
        return ('str', str(expr))
    return (type(expr).__name__, str(expr.name),
            tuple(shape(a) for a in expr.args.all),
            tuple(shape(c) for c in expr._contents))


failures = []

for src in SOURCES:
    first = TexSoup(src)
    second = TexSoup(src)
    text_before, shape_before = str(second), shape(second.expr)

    # 1. equal trees
    if str(first) != str(second) or shape(first.expr) != shape_before:
        failures.append('%r: two parses differ: %r vs %r'
                        % (src, first.expr, second.expr))

    # 2. no shared mutable state
    ids_first = {id(o): o for o in walk(first.expr)}
    shared = [o for o in walk(second.expr) if id(o) in ids_first]
    if shared:
        failures.append('%r: two parses share mutable objects: %r'
                        % (src, shared))

    # 3. edit the first tree only (rewrite the text of every group in it)
    for obj in list(walk(first.expr)):
        if isinstance(obj, TexGroup):
            obj.string = 'EDITED'

    if str(second) != text_before or shape(second.expr) != shape_before:
        failures.append('%r: editing the first tree changed the second: '
                        '%r -> %r' % (src, text_before, str(second)))

    # 4. a later parse of the same characters is unaffected by that edit
    third = TexSoup(src)
    if str(third) != text_before or shape(third.expr) != shape_before:
        failures.append('%r: a later parse was influenced by an edit to an '
                        'earlier tree: expected %r, got %r'
                        % (src, text_before, str(third)))

if failures:
    print('C17 VIOLATED')
    for f in failures:
        print(' -', f)
    sys.exit(1)
print('C17 holds on the probed histories')
sys.exit(0)
