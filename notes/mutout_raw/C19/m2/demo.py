"""C19 demo: tokens must partition the input (no empty token, texts
concatenate to the input apart from dropped NUL/DEL, each token records the
offset where its text starts).

Exhaustively checks all strings up to length 3 over a small alphabet that
contains NUL and DEL (the ignored characters) next to one representative
of the categories that end a text token (escape, group, bracket, math
switch, comment sign) and of plain text (letter, spacer).

usage: demo.py <path-to-TexSoup-checkout>
"""
import itertools
import sys

sys.path.insert(0, sys.argv[1])

from TexSoup.category import categorize  # noqa: E402
from TexSoup.tokens import tokenize  # noqa: E402

DROPPABLE = '\x00\x7f'


def check(s):
    """Return None if the tokens of ``s`` partition it, else a message."""
    # a partition of s into non-empty pieces has at most len(s) pieces;
    # bound the iteration so a stream of empty tokens cannot hang the demo
    toks = list(itertools.islice(tokenize(categorize(s)), len(s) + 2))
    listing = [(t.text, t.position) for t in toks]
    pos = 0
    for t in toks:
        if len(t.text) == 0:
            return 'empty token in %r' % (listing,)
        while pos < len(s) and s[pos] in DROPPABLE \
                and not s.startswith(t.text, pos):
            pos += 1
        if not s.startswith(t.text, pos):
            return 'token %r does not continue the input at offset %d: %r' % (
                t.text, pos, listing)
        if t.position != pos:
            return 'token %r records offset %r, but starts at %d: %r' % (
                t.text, t.position, pos, listing)
        pos += len(t.text)
    if s[pos:].strip(DROPPABLE):
        return 'input tail %r not covered: %r' % (s[pos:], listing)
    return None


def main():
    alphabet = ['\x00', '\x7f', '\\', '{', ']', '$', '%', 'a', ' ']
    for n in range(0, 4):
        for tup in itertools.product(alphabet, repeat=n):
            s = ''.join(tup)
            try:
                problem = check(s)
            except Exception as e:  # tokenising must not fail either
                problem = 'exception %r' % (e,)
            if problem:
                print('C19 violated for input %r: %s' % (s, problem))
                return 1
    print('C19 holds on all checked inputs')
    return 0


if __name__ == '__main__':
    sys.exit(main())
