"""C03 demo: searching by name returns every command/environment of that name
occurring in the tree, each once -- also when two sibling expressions happen
to have the same text.

usage: demo.py <path-to-TexSoup-checkout>
exit 0: property holds, exit 1: violated
"""
import re
import sys

sys.path.insert(0, sys.argv[1])
from TexSoup import TexSoup  # noqa: E402

# every "\name" in these documents is a real command / environment of the
# documented grammar, so the number of textual occurrences is the ground truth
DOCS = [
    # two textually identical items, each holding a nested command
    r'\begin{itemize}\item \emph{a}\item \emph{a}\end{itemize}',
    # identical sibling commands with a command in their argument
    r'\textbf{\emph{x}} and \textbf{\emph{x}}',
    # identical math regions
    r'$\alpha$ + $\alpha$ + $\beta$',
    # identical brace groups inside an environment body
    r'\begin{center}x {\bf \it a} {\bf \it a}\end{center}',
    # identical environments, deeper down
    r'\section{S \begin{equation}\frac{\alpha}{\beta}\end{equation} '
    r'\begin{equation}\frac{\alpha}{\beta}\end{equation}}',
    # control: all siblings differ
    r'\textbf{\emph{x}} and \textbf{\emph{y}} $\alpha$ $\beta$',
]

failures = []


def expected_count(doc, name):
    if name in ('begin', 'end'):
        return None
    n = len(re.findall(r'\\%s(?![a-zA-Z*])' % re.escape(name), doc))
    n += len(re.findall(r'\\begin\{%s\}' % re.escape(name), doc))
    return n


for doc in DOCS:
    soup = TexSoup(doc)
    names = set(re.findall(r'\\([a-zA-Z]+)', doc)) - {'begin', 'end'}
    names |= set(re.findall(r'\\begin\{([a-zA-Z]+)\}', doc))
    names.add('absentname')
    for name in sorted(names):
        found = soup.find_all(name)
        want = expected_count(doc, name)
        if len(found) != want:
            failures.append('%r: find_all(%r) returned %d node(s) %r, '
                            'document has %d' % (doc, name, len(found),
                                                 found, want))
        if any(node.name != name for node in found):
            failures.append('%r: find_all(%r) returned a node of another name'
                            % (doc, name))
        if len(set(map(id, (n.expr for n in found)))) != len(found):
            failures.append('%r: find_all(%r) returned a node twice'
                            % (doc, name))
        if soup.count(name) != len(found):
            failures.append('%r: count(%r) != len(find_all)' % (doc, name))
        first = soup.find(name)
        if (first is None) != (not found) or \
                (found and first.expr is not found[0].expr):
            failures.append('%r: find(%r) is not find_all[0]' % (doc, name))

if failures:
    print('C03 VIOLATED')
    for f in failures:
        print(' -', f)
    sys.exit(1)
print('C03 holds on the demo documents')
sys.exit(0)
