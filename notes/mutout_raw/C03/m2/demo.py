r"""C03 demo: a full-expression query (one that spells out arguments, such as
\ref{x} or \item[a]) matches exactly the commands whose text equals the query;
a query that is the opening of an environment matches exactly the
environments with that opening.

usage: demo.py <path-to-TexSoup-checkout>
exit 0: property holds, exit 1: violated
"""
import sys

sys.path.insert(0, sys.argv[1])
from TexSoup import TexSoup  # noqa: E402

DOC = (r'\section{Intro} see \ref{x} and \ref{y} and \ref{x}'
       r'\begin{description}'
       r'\item[a] first \textbf{entry}'
       r'\item[b]'
       r'\item[a]'
       r'\item[b] other \ref{x}'
       r'\end{description}'
       r'\begin{equation}\ref{x}\end{equation}'
       r'\begin{tabular}{c} 1 \end{tabular}')

QUERIES = [
    r'\ref{x}', r'\ref{y}', r'\ref{z}', r'\section{Intro}', r'\textbf{entry}',
    r'\item[a]', r'\item[b]', r'\item[c]',
    r'\item[a] first \textbf{entry}', r'\item[b] other \ref{x}',
    r'\begin{equation}', r'\begin{tabular}{c}', r'\begin{description}',
    r'\begin{figure}',
]

failures = []
soup = TexSoup(DOC)


def all_nodes(node):
    """Every command / environment node reachable from `node`, through the
    library's own enumeration (contents + children), identity-deduplicated."""
    out = []
    for d in node.descendants:
        if hasattr(d, 'expr') and not any(d.expr is o.expr for o in out):
            out.append(d)
    return out


def opening(node):
    begin = getattr(node.expr, 'begin', None)
    if begin is None:
        return None
    return begin + str(node.args)


nodes = all_nodes(soup)
for root in [soup] + nodes:
    below = all_nodes(root)
    for query in QUERIES:
        if query.startswith(r'\begin'):
            want = [n for n in below if opening(n) == query]
        else:
            want = [n for n in below if str(n) == query]
        got = root.find_all(query)
        got_ids = [id(n.expr) for n in got]
        want_ids = [id(n.expr) for n in want]
        if got_ids != want_ids:
            failures.append(
                'root %r: find_all(%r) returned %r, but the nodes whose text '
                '(opening) equals the query are %r'
                % (str(root)[:30], query, got, want))
        if root.count(query) != len(got):
            failures.append('root %r: count(%r) != len(find_all)'
                            % (str(root)[:30], query))
        first = root.find(query)
        if (first is None) != (not got) or \
                (got and first.expr is not got[0].expr):
            failures.append('root %r: find(%r) is not find_all[0]'
                            % (str(root)[:30], query))

if failures:
    print('C03 VIOLATED')
    for f in failures[:12]:
        print(' -', f)
    if len(failures) > 12:
        print(' ... and %d more' % (len(failures) - 12))
    sys.exit(1)
print('C03 holds on the demo document')
sys.exit(0)
