"""Property C05: structural edits are local to the targeted node.

Targets here are the *text* nodes of a container (the nodes `.all` hands out
for text runs, cf. tests/test_api.py::test_delete_token).  Every text node of
the root, of a brace group and of an environment body is deleted (and,
separately, replaced by two strings) in a fresh parse; the serialised result
must equal the original text with exactly that text run removed / substituted.

The documents contain text runs that are identical to an earlier sibling run.

usage: demo.py <path-to-TexSoup-checkout>      exit 0 = holds, 1 = violated
"""
import sys

sys.path.insert(0, sys.argv[1])

from TexSoup import TexSoup                    # noqa: E402
from TexSoup.data import TexNode, TexText      # noqa: E402

DOCS = [
    # identical text runs at top level
    r'\alpha and \beta and \gamma and \delta',
    # ... inside a brace group
    r'x {\a, \b, \c, \d} y',
    # ... inside the body of an environment (separators of a row)
    '\\begin{center}\\one & \\two & \\three\\end{center}',
    # no identical runs at all (control)
    r'p \a q \b r',
]


def walk(node, path=()):
    """yield (path, node) for the node itself and every descendant node"""
    yield path, node
    for k, child in enumerate(node.contents):
        if isinstance(child, TexNode):
            yield from walk(child, path + (k,))


def locate(soup, path):
    node = soup
    for k in path:
        node = list(node.contents)[k]
    return node


def pieces_of(container):
    """the container's content nodes as handed out by `.all`, or None"""
    try:
        return list(container.all)
    except AssertionError:      # `.all` is not available for this container
        return None


def main():
    failures = []
    probes = 0
    for src in DOCS:
        soup = TexSoup(src)
        if str(soup) != src:
            print('skipping (no round trip): %r' % src)
            continue
        for path, container in walk(soup):
            nodes = pieces_of(container)
            if not nodes or container.expr.args:
                continue
            pieces = [str(n) for n in nodes]
            body = ''.join(pieces)
            text = str(container)
            if path == ():
                start = 0
            else:
                start = container.position
                if start is None or start < 0 or \
                        src[start:start + len(text)] != text:
                    continue
            # where the body of the container sits inside the document
            end_marker = '' if path == () else \
                (getattr(container.expr, 'end', '') or '')
            if not text.endswith(body + end_marker):
                continue
            body_at = start + len(text) - len(end_marker) - len(body)
            for k, n in enumerate(nodes):
                if not isinstance(n.expr, TexText):
                    continue
                at = body_at + len(''.join(pieces[:k]))
                assert src[at:at + len(pieces[k])] == pieces[k]
                for what in ('delete', 'replace_with'):
                    probes += 1
                    fresh = TexSoup(src)
                    target = list(locate(fresh, path).all)[k]
                    new = '' if what == 'delete' else 'RS'
                    expected = src[:at] + new + src[at + len(pieces[k]):]
                    try:
                        if what == 'delete':
                            target.delete()
                        else:
                            target.replace_with('R', 'S')
                        got = str(fresh)
                    except Exception as exc:
                        got = '<%s: %s>' % (type(exc).__name__, exc)
                    if got != expected:
                        failures.append(
                            (src, what, pieces[k], at, expected, got))
    for src, what, piece, at, expected, got in failures:
        print('C05 VIOLATED: %s of the text node %r at offset %d' %
              (what, piece, at))
        print('   document: %r' % src)
        print('   expected: %r' % expected)
        print('   got     : %r' % got)
    if failures:
        return 1
    if not probes:
        print('no probes could be run')
        return 1
    print('C05 holds on all %d probes' % probes)
    return 0


if __name__ == '__main__':
    sys.exit(main())
