"""Property C05: structural edits are local to the targeted node.

For every command / environment / group node of a few small documents the
node is deleted (and, separately, replaced by two strings) in a fresh parse,
and the serialised result is compared with the original text in which exactly
that node's own span has been removed / substituted.

The documents contain a node whose textual twin sits in an (earlier) argument
of the same parent, while the target itself sits in a later argument or in the
body of that parent.

usage: demo.py <path-to-TexSoup-checkout>      exit 0 = holds, 1 = violated
"""
import sys

sys.path.insert(0, sys.argv[1])

from TexSoup import TexSoup          # noqa: E402
from TexSoup.data import TexNode     # noqa: E402

DOCS = [
    # twin in the environment argument, target in the body
    r'\begin{foo}{\x}a\x b\end{foo} tail',
    # twins spread over three arguments of one command
    r'pre \cmd{p\x}[q\x r]{\x s} post',
    # \item: twin in the optional argument, target in the item body
    '\\begin{itemize}\n  \\item[\\x] a \\x b\n  \\item c\n\\end{itemize}',
    # same thing one level down, inside a brace group inside an argument
    r'\outer{{\x}}{u {\x} v}',
    # math twins
    r'\begin{thm}[$n$] for $n$ and $n$ \end{thm}',
]


def walk(node, path=()):
    """yield (path, node) for every non-root node reachable via contents"""
    for k, child in enumerate(node.contents):
        if isinstance(child, TexNode):
            yield path + (k,), child
            yield from walk(child, path + (k,))


def locate(soup, path):
    node = soup
    for k in path:
        node = list(node.contents)[k]
    return node


def main():
    failures = []
    for src in DOCS:
        soup = TexSoup(src)
        if str(soup) != src:
            print('skipping (no round trip): %r' % src)
            continue
        targets = []
        for path, node in walk(soup):
            pos, text = node.position, str(node)
            # the span of the node in the source must be known exactly
            if pos is None or pos < 0 or src[pos:pos + len(text)] != text:
                continue
            targets.append((path, pos, len(text)))
        for path, pos, length in targets:
            for what in ('delete', 'replace_with'):
                fresh = TexSoup(src)
                node = locate(fresh, path)
                if what == 'delete':
                    expected = src[:pos] + src[pos + length:]
                else:
                    expected = src[:pos] + 'RS' + src[pos + length:]
                try:
                    if what == 'delete':
                        node.delete()
                    else:
                        node.replace_with('R', 'S')
                    got = str(fresh)
                except Exception as exc:   # an edit that blows up is no edit
                    got = '<%s: %s>' % (type(exc).__name__, exc)
                if got != expected:
                    failures.append((src, what, path, pos, expected, got))
    for src, what, path, pos, expected, got in failures:
        print('C05 VIOLATED: %s of the node at offset %d (path %s)' %
              (what, pos, list(path)))
        print('   document: %r' % src)
        print('   expected: %r' % expected)
        print('   got     : %r' % got)
    if failures:
        return 1
    print('C05 holds on all probes')
    return 0


if __name__ == '__main__':
    sys.exit(main())
