"""C14 demo 1: assigning / reordering / slicing a node's argument list changes
exactly the argument part of the serialised document, is visible to searches,
and survives re-parsing.

usage: demo.py <path-of-TexSoup-checkout>
"""
import sys
sys.path.insert(0, sys.argv[1])
from TexSoup import TexSoup  # noqa: E402

PRE = 'Intro \\textbf{keep} text\n\\begin{itemize}\n\\item one '
POST = ' tail\n\\item two\n\\end{itemize}\nOutro $x+y$ % done\n'
GROUPS = ['[opt]', '{first}', '{second}']

failures = []


def check(label, edit, expected_groups):
    """Apply `edit` to the \\target node and compare with the expectation."""
    soup = TexSoup(PRE + '\\target' + ''.join(GROUPS) + POST)
    node = soup.find('target')
    edit(node)
    expected = PRE + '\\target' + ''.join(expected_groups) + POST
    got = str(soup)
    if got != expected:
        failures.append('%s: serialisation\n   expected %r\n   got      %r'
                        % (label, expected, got))
        return
    # visible to a subsequent search
    found = soup.find('target')
    if found is None or [str(a) for a in found.args] != expected_groups:
        failures.append('%s: search sees args %r, expected %r' % (
            label, None if found is None else [str(a) for a in found.args],
            expected_groups))
    # re-parsing shows the same change
    again = TexSoup(got)
    re_node = again.find('target')
    if str(again) != got or re_node is None or \
            [str(a) for a in re_node.args] != expected_groups:
        failures.append('%s: re-parse shows %r, expected %r' % (
            label, None if re_node is None else [str(a) for a in re_node.args],
            expected_groups))


def assign_slice(sl):
    def edit(node):
        node.args = node.args[sl]
    return edit


def assign_same(node):
    # identity permutation: hand the node its own argument list back
    node.args = node.args


def reverse_then_assign(node):
    args = node.args
    args.reverse()
    node.args = args


def rotate_then_assign(node):
    args = node.args
    args.append(args.pop(0))
    node.args = args


check('slice [:2]', assign_slice(slice(None, 2)), GROUPS[:2])
check('slice [1:]', assign_slice(slice(1, None)), GROUPS[1:])
check('slice [::-1]', assign_slice(slice(None, None, -1)), GROUPS[::-1])
check('slice [::2]', assign_slice(slice(None, None, 2)), GROUPS[::2])
check('identity assignment', assign_same, GROUPS)
check('reverse in place, assign', reverse_then_assign, GROUPS[::-1])
check('rotate in place, assign', rotate_then_assign, GROUPS[1:] + GROUPS[:1])

if failures:
    print('C14 VIOLATED')
    for f in failures:
        print(' -', f)
    sys.exit(1)
print('C14 holds for the checked argument-list edits')
sys.exit(0)
