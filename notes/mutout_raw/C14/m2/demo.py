"""C14 demo 2: renaming a command or environment changes exactly the name in
the serialised document (both \\begin and \\end for an environment) and nothing
else; the new name is visible to searches and survives re-parsing.

usage: demo.py <path-of-TexSoup-checkout>
"""
import sys
sys.path.insert(0, sys.argv[1])
from TexSoup import TexSoup  # noqa: E402

DOC = (
    '\\section{Intro} Some \\textbf{bold} text and $a+b$.\n'
    '\\begin{itemize}\n'
    '\\item[x] first \\emph{entry} here\n'
    '\\item second\n'
    '\\end{itemize}\n'
    '\\begin{equation}1+1\\end{equation}\n'
    '\\newcommand{\\foo}[1]{#1} % trailing comment\n'
)

# (old name, is environment, text of the name occurrence(s) in DOC)
TARGETS = [
    ('section', False), ('textbf', False), ('emph', False),
    ('item', False), ('newcommand', False),
    ('itemize', True), ('equation', True),
]
NEW = 'renamed'

failures = []

for old, is_env in TARGETS:
    soup = TexSoup(DOC)
    assert str(soup) == DOC
    node = soup.find(old)
    before_args = [str(a) for a in node.args]
    node.name = NEW

    if is_env:
        expected = DOC.replace('\\begin{%s}' % old, '\\begin{%s}' % NEW, 1) \
                      .replace('\\end{%s}' % old, '\\end{%s}' % NEW, 1)
    else:
        expected = DOC.replace('\\' + old, '\\' + NEW, 1)
    got = str(soup)
    if got != expected:
        failures.append('rename %s: serialisation\n   expected %r\n   got      %r'
                        % (old, expected, got))
        continue

    # visible to a subsequent search
    found = soup.find(NEW)
    if found is None or found.name != NEW or \
            [str(a) for a in found.args] != before_args:
        failures.append('rename %s: search for %r gives %r' % (old, NEW, found))

    # re-parsing the new text shows the same change
    again = TexSoup(got)
    re_found = again.find(NEW)
    if str(again) != got or re_found is None or re_found.name != NEW or \
            [str(a) for a in re_found.args] != before_args:
        failures.append('rename %s: re-parse gives %r' % (old, re_found))

if failures:
    print('C14 VIOLATED')
    for f in failures:
        print(' -', f)
    sys.exit(1)
print('C14 holds for the checked renames')
sys.exit(0)
