"""C18 demo 1: TexArgs.insert must place the group exactly where list.insert
would, for every index (including negative and out-of-range ones), and the
serialisation / owning node print must be the concatenation in list order.

usage: demo.py /path/to/TexSoup-checkout
exit 0: property holds; exit 1: violated.
"""
import sys

sys.path.insert(0, sys.argv[1])

from TexSoup.data import TexCmd, BraceGroup, BracketGroup  # noqa: E402


def fresh_pool():
    return [BraceGroup('a'), BracketGroup('b'), BraceGroup('c'),
            BracketGroup('d')]


def check_state(cmd, model, history):
    got = [str(g) for g in cmd.args]
    want = [str(g) for g in model]
    if got != want:
        return 'after %s: list is %r, a Python list would be %r' % (
            history, got, want)
    if len(cmd.args) != len(model):
        return 'after %s: len %d != %d' % (
            history, len(cmd.args), len(model))
    ser = ''.join(want)
    if str(cmd.args) != ser:
        return 'after %s: str(args) is %r, expected %r' % (
            history, str(cmd.args), ser)
    if str(cmd) != '\\cmd' + ser:
        return 'after %s: node prints %r, expected %r' % (
            history, str(cmd), '\\cmd' + ser)
    return None


def main():
    failures = []
    for n in range(0, 4):
        for idx in range(-2 * n - 3, n + 4):
            for as_string in (False, True):
                pool = fresh_pool()
                cmd = TexCmd('cmd')
                model = []
                history = []
                for g in pool[:n]:
                    cmd.args.append(g)
                    model.append(g)
                    history.append('append(%s)' % g)
                new = BraceGroup('x')
                arg = '{x}' if as_string else new
                history.append('insert(%d, %r)' % (idx, str(arg)))
                try:
                    cmd.args.insert(idx, arg)
                except Exception as e:  # list.insert never raises here
                    failures.append('after %s: raised %r' % (history, e))
                    continue
                model.insert(idx, new)
                err = check_state(cmd, model, history)
                if err:
                    failures.append(err)
    if failures:
        print('C18 VIOLATED (%d cases); first ones:' % len(failures))
        for f in failures[:5]:
            print('  ' + f)
        return 1
    print('C18 holds on the insert-index sweep')
    return 0


if __name__ == '__main__':
    sys.exit(main())
