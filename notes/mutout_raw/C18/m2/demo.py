"""C18 demo 2: TexArgs.pop(i) must remove exactly the element at index i (as
list.pop does) and return it, also when the list holds duplicate groups, and
the serialisation / owning node print must stay the concatenation in order.

usage: demo.py /path/to/TexSoup-checkout
exit 0: property holds; exit 1: violated.
"""
import itertools
import sys

sys.path.insert(0, sys.argv[1])

from TexSoup.data import TexCmd, BraceGroup, BracketGroup  # noqa: E402

MAKERS = {
    'a': lambda: BraceGroup('a'),
    'b': lambda: BracketGroup('b'),
    'c': lambda: BraceGroup('c'),
}


def check_state(cmd, model, history):
    got = [str(g) for g in cmd.args]
    want = [str(g) for g in model]
    if got != want:
        return 'after %s: list is %r, a Python list would be %r' % (
            history, got, want)
    ser = ''.join(want)
    if str(cmd.args) != ser:
        return 'after %s: str(args) is %r, expected %r' % (
            history, str(cmd.args), ser)
    if str(cmd) != '\\cmd' + ser:
        return 'after %s: node prints %r, expected %r' % (
            history, str(cmd), '\\cmd' + ser)
    return None


def main():
    failures = []
    for n in range(1, 5):
        for shape in itertools.product('abc', repeat=n):
            # shared=True: a duplicate is the very same object appended twice
            # shared=False: duplicates are distinct but equal groups
            for shared in (False, True):
                for idx in list(range(-n, n)) + [None]:
                    cache = {}
                    cmd = TexCmd('cmd')
                    model = []
                    history = []
                    for key in shape:
                        if shared:
                            g = cache.setdefault(key, MAKERS[key]())
                        else:
                            g = MAKERS[key]()
                        cmd.args.append(g)
                        model.append(g)
                        history.append('append(%s)' % g)
                    if idx is None:
                        history.append('pop()')
                        want_ret = model.pop()
                    else:
                        history.append('pop(%d)' % idx)
                        want_ret = model.pop(idx)
                    try:
                        ret = cmd.args.pop() if idx is None \
                            else cmd.args.pop(idx)
                    except Exception as e:
                        failures.append('after %s: raised %r' % (history, e))
                        continue
                    if str(ret) != str(want_ret):
                        failures.append('after %s: returned %s, expected %s'
                                        % (history, ret, want_ret))
                        continue
                    err = check_state(cmd, model, history)
                    if err:
                        failures.append(err)
    if failures:
        print('C18 VIOLATED (%d cases); first ones:' % len(failures))
        for f in failures[:5]:
            print('  ' + f)
        return 1
    print('C18 holds on the pop sweep with duplicates')
    return 0


if __name__ == '__main__':
    sys.exit(main())
