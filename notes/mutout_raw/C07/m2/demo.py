r"""Demo for property C07 (tolerant mode is a conservative extension that only
inserts closers).

Usage: demo.py <path-to-TexSoup-checkout>

Checks the first clause of the property:

    Whenever strict parsing (tolerance=0) succeeds, tolerant parsing
    (tolerance=1) returns an identical tree and identical text.

The inputs are built by putting a command in front of several kinds of
"argument-like" material (brace group, bracket group, bare control sequence)
followed by several kinds of continuation, at top level, inside running text,
inside a brace group and inside an environment.

Exit status 0 if the clause holds on every input, 1 (with a report) otherwise.
"""
import itertools
import sys

sys.path.insert(0, sys.argv[1])

from TexSoup import TexSoup  # noqa: E402


HEADS = ['\\textbf', '\\section', '\\label', '\\emph', '\\foo']
FIRST = ['{a}', '[o]', '\\bar', '\\bar{b}', '']
REST = ['', ' tail', '{c}', '[k]', '[k]{c}', '[k] tail', '{c}[k]', '[k', '{c']
WRAP = ['%s', 'pre %s post', '{%s}', '\\begin{env}%s\\end{env}']

INPUTS = [w % (h + f + r)
          for h, f, r, w in itertools.product(HEADS, FIRST, REST, WRAP)]


def dump(expr):
    """Structural dump of a parsed expression (type, name, args, contents)."""
    if isinstance(expr, str):
        return ('text', str(expr))
    return (type(expr).__name__, str(getattr(expr, 'name', '')),
            [dump(a) for a in getattr(expr, 'args', [])],
            [dump(c) for c in expr.all])


def parse(src, tolerance):
    try:
        soup = TexSoup(src, tolerance=tolerance)
        return True, (str(soup), repr(soup.expr), dump(soup.expr))
    except Exception as exc:
        return False, '%s: %s' % (type(exc).__name__, str(exc).split('\n')[0])


failures = []
n_strict_ok = 0
for src in INPUTS:
    ok0, r0 = parse(src, 0)
    if not ok0:
        continue  # the clause only speaks about inputs strict mode accepts
    n_strict_ok += 1
    ok1, r1 = parse(src, 1)
    if not ok1:
        failures.append((src, 'strict parsing succeeded but tolerant parsing '
                         'raised ' + r1))
    elif r0 != r1:
        failures.append((src, 'strict text/tree %r\n    differs from tolerant '
                         'text/tree %r' % (r0[:2], r1[:2])))

if failures:
    print('C07 VIOLATED on %d of %d strictly parsable inputs; first few:'
          % (len(failures), n_strict_ok))
    for src, why in failures[:5]:
        print('- input %r\n    %s' % (src, why))
    sys.exit(1)
print('C07 (conservative-extension clause) holds on all %d strictly parsable '
      'inputs' % n_strict_ok)
sys.exit(0)
