r"""Demo for property C07 (tolerant mode is a conservative extension that only
inserts closers).

Usage: demo.py <path-to-TexSoup-checkout>

Takes a few well-formed documents (no math, verbatim or list regions) and
checks, for every single-closer deletion and for every truncation point:

  (a) if strict parsing succeeds, tolerant parsing gives the same tree/text;
  (b) for a single-closer deletion: strict parsing raises, tolerant succeeds;
  (c) if tolerant parsing succeeds, its text is the input plus inserted
      closing delimiters (`}`, `]`, `\end{name}`) only.

Exit status 0 if everything holds, 1 (with a report) otherwise.
"""
import re
import sys

sys.path.insert(0, sys.argv[1])

from TexSoup import TexSoup  # noqa: E402


DOCS = [
    '\\begin{document}\n'
    'Hello \\textbf{bold \\emph{both}} and \\cite[p. 3]{knuth} here.\n'
    '\\begin{center}\n'
    'Centered \\textit{text}\n'
    '\\end{center}\n'
    'Bye.\n'
    '\\end{document}\n',

    # same kind of document, but the file does not end with a newline
    '\\begin{document}\n'
    '\\section[short]{Long title}\n'
    'Some \\textbf{words} here.\n'
    '\\begin{quote}\n'
    'Quoted \\emph{text}.\n'
    '\\end{quote}\n'
    '\\end{document}',
]

# every `}`, every `]` and (overlapping with those) every `\end{name}`
CLOSER = re.compile(r'(?=(\}|\]|\\end\{[^{}\\\[\]]*\}))')
BEGIN_NAME = re.compile(r'\\begin\{[^{}]*\}$')


def inserted_closers_at(out, j):
    """Lengths of the closing delimiters that could start at out[j]."""
    if out[j] in '}]':
        yield 1
    if out.startswith('\\end{', j):
        # `\end{name}`; the name is whatever (brace-balanced) text the parser
        # used as the environment name
        depth = 0
        for k in range(j + 4, len(out)):
            if out[k] == '{':
                depth += 1
            elif out[k] == '}':
                depth -= 1
                if depth == 0:
                    yield k + 1 - j
                    break


def only_closers_inserted(src, out):
    """True iff `out` is `src` with only `}`, `]`, `\\end{name}` inserted."""
    seen, todo = set(), [(0, 0)]
    while todo:
        i, j = todo.pop()
        if (i, j) in seen:
            continue
        seen.add((i, j))
        if j == len(out):
            if i == len(src):
                return True
            continue
        if i < len(src) and src[i] == out[j]:
            todo.append((i + 1, j + 1))
        for n in inserted_closers_at(out, j):
            todo.append((i, j + n))
    return False


def parse(src, tolerance):
    try:
        soup = TexSoup(src, tolerance=tolerance)
        return True, (str(soup), repr(soup.expr))
    except Exception as exc:  # any error counts as "reports an error"
        return False, '%s: %s' % (type(exc).__name__, str(exc).split('\n')[0])


failures = []


def check(kind, src):
    ok0, r0 = parse(src, 0)
    ok1, r1 = parse(src, 1)
    if ok0:
        # (a) conservative extension
        if not ok1:
            failures.append((kind, src, '(a) strict ok, tolerant raised ' + r1))
            return
        if r0 != r1:
            failures.append((kind, src, '(a) strict %r != tolerant %r'
                             % (r0, r1)))
    if kind == 'deletion':
        # (b) strict reports an error, tolerant succeeds
        if ok0:
            failures.append((kind, src, '(b) strict parsing did not raise'))
        if not ok1:
            failures.append((kind, src, '(b) tolerant parsing raised ' + r1))
    if ok1:
        # (c) only closers inserted
        if not only_closers_inserted(src, r1[0]):
            failures.append((kind, src, '(c) tolerant output %r is not the '
                             'input plus closers' % r1[0]))


for doc in DOCS:
    ok, res = parse(doc, 0)
    assert ok, 'demo document should be well-formed: %s' % (res,)
    check('intact', doc)
    for m in CLOSER.finditer(doc):
        start, end = m.span(1)
        if BEGIN_NAME.search(doc[:end]):
            # losing the brace of `\begin{name}` turns the rest of the file
            # into the environment *name*; not the situation this demo is about
            continue
        check('deletion', doc[:start] + doc[end:])
    for cut in range(len(doc)):
        check('truncation', doc[:cut])

if failures:
    print('C07 VIOLATED (%d cases); first few:' % len(failures))
    for kind, src, why in failures[:5]:
        print('- %s of input %r\n    %s' % (kind, src, why))
    sys.exit(1)
print('C07 holds on all checked deletions / truncations')
sys.exit(0)
