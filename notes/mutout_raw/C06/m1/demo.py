"""Property C06 (parsing is total) -- demonstration 1.

Usage: demo.py <path-to-TexSoup-checkout>

Feeds inputs in which a command with a known signature (\\textbf, \\section,
\\label, \\def) still misses a required argument and is followed by nothing but
whitespace up to the end of the input, in both tolerance modes.  Parsing must
return a tree or raise EOFError / TypeError / AssertionError; anything else
(or a hang) is a violation.  Exit status 0 = property holds, 1 = violated.
"""
import signal
import sys

sys.path.insert(0, sys.argv[1])
from TexSoup import TexSoup  # noqa: E402

DIAGNOSTIC = (EOFError, TypeError, AssertionError)
TIMEOUT = 10  # seconds per input


class Hang(BaseException):
    pass


def _alarm(signum, frame):
    raise Hang()


def outcome(source, tolerance):
    """None if the property holds on this input, else a description."""
    signal.signal(signal.SIGALRM, _alarm)
    signal.alarm(TIMEOUT)
    try:
        TexSoup(source, tolerance=tolerance)
    except DIAGNOSTIC:
        return None
    except Hang:
        return 'did not terminate within %ds' % TIMEOUT
    except BaseException as e:  # leaked internal exception
        return 'leaked %s: %s' % (type(e).__name__, e)
    finally:
        signal.alarm(0)
    return None


def inputs():
    # a well-formed document; every prefix of it is in the property's domain
    doc = ('\\section {Intro}\n\\label {sec}\nSome \\textbf {bold} text.\n'
           '\\def \\x {y}\n')
    for i in range(len(doc) + 1):
        yield doc[:i]
    # short strings over the token alphabet
    spacers = ['', ' ', '\n', ' \n', '\t', ' \n ']
    for head in ['', 'a', '{}', '$x$', '\\begin{a}\\end{a}']:
        for cmd in ['\\textbf', '\\section', '\\section[o]', '\\label',
                    '\\def', '\\def\\x', '\\def\\x{y}', '\\textbf{b}', '\\emph']:
            for sp in spacers:
                yield head + cmd + sp


def main():
    failures = []
    seen = set()
    for source in inputs():
        if source in seen:
            continue
        seen.add(source)
        for tolerance in (0, 1):
            problem = outcome(source, tolerance)
            if problem:
                failures.append((source, tolerance, problem))
    if failures:
        print('C06 VIOLATED on %d (input, tolerance) pairs, e.g.:' % len(failures))
        for source, tolerance, problem in failures[:8]:
            print('  TexSoup(%r, tolerance=%d) -> %s' % (source, tolerance, problem))
        return 1
    print('C06 holds on all %d inputs (x2 tolerance modes)' % len(seen))
    return 0


if __name__ == '__main__':
    sys.exit(main())
