"""Property C06 (parsing is total) -- demonstration 2.

Usage: demo.py <path-to-TexSoup-checkout>

Feeds every prefix of well-formed documents that contain verbatim-like
environments (verbatim, lstlisting, Verbatim, listing), plus a few short
unclosed-verbatim strings, in both tolerance modes.  Parsing must return a tree
or raise EOFError / TypeError / AssertionError; anything else (or a hang) is a
violation.  Exit status 0 = property holds, 1 = violated.
"""
import signal
import sys

sys.path.insert(0, sys.argv[1])
from TexSoup import TexSoup  # noqa: E402

DIAGNOSTIC = (EOFError, TypeError, AssertionError)
TIMEOUT = 10  # seconds per input


class Hang(BaseException):
    pass


def _alarm(signum, frame):
    raise Hang()


def outcome(source, tolerance):
    """None if the property holds on this input, else a description."""
    signal.signal(signal.SIGALRM, _alarm)
    signal.alarm(TIMEOUT)
    try:
        TexSoup(source, tolerance=tolerance)
    except DIAGNOSTIC:
        return None
    except Hang:
        return 'did not terminate within %ds' % TIMEOUT
    except BaseException as e:  # leaked internal exception
        return 'leaked %s: %s' % (type(e).__name__, e)
    finally:
        signal.alarm(0)
    return None


def inputs():
    # well-formed documents; every prefix of them is in the property's domain
    docs = [
        'a\\begin{verbatim}\n$ \\x{ %\n\\end{verbatim} b\n',
        '\\begin{lstlisting}[language=C]\nint x;\n\\end{lstlisting}',
        '\\begin{itemize}\\item \\begin{Verbatim}{\\end{Verbatim}\\end{itemize}',
    ]
    for doc in docs:
        for i in range(len(doc) + 1):
            yield doc[:i]
    # short unclosed verbatim-like environments
    for name in ['verbatim', 'lstlisting', 'listing', 'Verbatim', 'verbatimtab']:
        for body in ['', ' ', '\n', 'x', '\\', '\\end', '\\end{', '\\end{' + name,
                     '\\end{' + name + '}', '{', '$', '%']:
            yield '\\begin{%s}%s' % (name, body)
            yield '\\begin{%s}[o]%s' % (name, body)
            yield '$\\begin{%s}%s' % (name, body)
        yield '\\begin{%s' % name


def main():
    failures = []
    seen = set()
    for source in inputs():
        if source in seen:
            continue
        seen.add(source)
        for tolerance in (0, 1):
            problem = outcome(source, tolerance)
            if problem:
                failures.append((source, tolerance, problem))
    if failures:
        print('C06 VIOLATED on %d (input, tolerance) pairs, e.g.:' % len(failures))
        for source, tolerance, problem in failures[:8]:
            print('  TexSoup(%r, tolerance=%d) -> %s' % (source, tolerance, problem))
        return 1
    print('C06 holds on all %d inputs (x2 tolerance modes)' % len(seen))
    return 0


if __name__ == '__main__':
    sys.exit(main())
