"""C20 demo: hasNext(n) / peek on a Buffer must agree with a plain list and
an integer index, for string-backed and token-backed buffers, and must never
move the cursor.

For every short underlying sequence, every reachable cursor position
(reached by next, or by overshooting with forward and coming back with
backward) and every n, compares hasNext(n), peek(n - 1) and peek((0, n))
with the list model.

usage: demo.py <path-to-TexSoup-checkout>
exit 0 = property holds, exit 1 = violated
"""
import sys

sys.path.insert(0, sys.argv[1])

from TexSoup.utils import Buffer, Token  # noqa: E402


def string_backed(items):
    return Buffer(''.join(items))


def token_backed(items):
    return Buffer(iter([Token(t, p) for p, t in enumerate(items)]))


def walk_next(buf, pos, total):
    for _ in range(pos):
        next(buf)


def walk_forward_backward(buf, pos, total):
    buf.forward(total)
    buf.backward(total - pos)


def check(kind, make, items):
    total = len(items)
    for walk in (walk_next, walk_forward_backward):
        for pos in range(total + 1):
            for n in range(1, total + 3):
                buf = make(items)
                walk(buf, pos, total)
                where = '%s buffer over %r, cursor %d (via %s)' % (
                    kind, items, pos, walk.__name__)
                if buf.position != pos:
                    return '%s: cursor is at %d' % (where, buf.position)

                got = buf.hasNext(n)
                want = pos + n <= total
                if bool(got) != want:
                    return '%s: hasNext(%d) is %r, list model says %r' % (
                        where, n, got, want)
                if buf.position != pos:
                    return '%s: hasNext(%d) moved the cursor to %d' % (
                        where, n, buf.position)

                got = buf.peek(n - 1)
                want = items[pos + n - 1] if pos + n - 1 < total else None
                if (got is None) != (want is None) or (
                        want is not None and str(got) != want):
                    return '%s: peek(%d) is %r, list model says %r' % (
                        where, n - 1, got, want)

                got = buf.peek((0, n))
                want = ''.join(items[pos:pos + n])
                if str(got) != want:
                    return '%s: peek((0, %d)) is %r, list model says %r' % (
                        where, n, got, want)
                if buf.position != pos:
                    return '%s: peeking moved the cursor to %d' % (
                        where, buf.position)
    return None


def main():
    chars = [[], ['a'], ['a', 'b'], ['a', 'b', 'c'], ['a', 'b', 'c', 'd']]
    tokens = [[], ['\\'], ['\\', 'item'], ['\\', 'textbf', '{'],
              ['{', 'hello', '}'], ['\\', 'begin', '{', 'itemize', '}']]
    for items in chars:
        problem = check('string-backed', string_backed, items)
        if problem:
            print('C20 VIOLATED:', problem)
            return 1
    for items in chars + tokens:
        problem = check('token-backed', token_backed, items)
        if problem:
            print('C20 VIOLATED:', problem)
            return 1
    print('C20 holds on the explored configurations')
    return 0


if __name__ == '__main__':
    sys.exit(main())
