"""C20 demo: the Buffer must behave like a plain list with an integer index.

Explores short operation sequences (next / forward / backward / peek /
hasNext) breadth-first against a list+index model, on a string-backed and a
token-backed buffer.  Reading past the end must report exhaustion
(StopIteration) and must leave the cursor where it was.

usage: demo.py <path-to-TexSoup-checkout>
exit 0 = property holds, exit 1 = violated
"""
import itertools
import sys

sys.path.insert(0, sys.argv[1])

from TexSoup.utils import Buffer, Token  # noqa: E402


class Model:
    def __init__(self, items):
        self.items = list(items)
        self.i = 0

    def next(self):
        if self.i >= len(self.items):
            return 'StopIteration'
        self.i += 1
        return self.items[self.i - 1]

    def forward(self):
        if self.i + 1 > len(self.items):
            return 'skip'                       # out of range: not in domain
        self.i += 1
        return ''.join(self.items[self.i - 1:self.i])

    def backward(self):
        if self.i - 1 < 0:
            return 'skip'                       # out of range: not in domain
        self.i -= 1
        return ''.join(self.items[self.i:self.i + 1])

    def peek(self):
        return self.items[self.i] if self.i < len(self.items) else None

    def peekback(self):
        if self.i - 1 < 0:
            return 'skip'
        return self.items[self.i - 1]

    def hasNext(self):
        return self.i < len(self.items)


def real_apply(buf, op):
    if op == 'next':
        try:
            return next(buf)
        except StopIteration:
            return 'StopIteration'
    if op == 'forward':
        return buf.forward(1)
    if op == 'backward':
        return buf.backward(1)
    if op == 'peek':
        return buf.peek()
    if op == 'peekback':
        return buf.peek(-1)
    if op == 'hasNext':
        return buf.hasNext()
    raise AssertionError(op)


OPS = ['next', 'forward', 'backward', 'peek', 'peekback', 'hasNext']


def same(a, b):
    if a is None or b is None or isinstance(a, bool) or isinstance(b, bool):
        return a is b
    return str(a) == str(b)


def check(make, items, depth):
    for n in range(1, depth + 1):
        for seq in itertools.product(OPS, repeat=n):
            buf, model, trace = make(), Model(items), []
            for op in seq:
                expected = getattr(model, op)()
                if expected == 'skip':
                    break
                got = real_apply(buf, op)
                trace.append(op)
                if not same(got, expected):
                    return '%s on %r: %s returned %r, list model says %r' % (
                        trace, items, op, got, expected)
                if buf.position != model.i:
                    return ('%s on %r: cursor is at %d after %s, list model '
                            'says %d' % (trace, items, buf.position, op,
                                         model.i))
    return None


def main():
    configs = []
    for s in ['', 'a', 'ab']:
        configs.append((lambda s=s: Buffer(s), list(s), 'string-backed'))
    toks = ['\\', 'ab', '{']
    for k in range(3):
        sub = toks[:k]
        configs.append((
            lambda sub=sub: Buffer(iter(
                [Token(t, p) for p, t in enumerate(sub)])),
            sub, 'token-backed'))
    for make, items, kind in configs:
        problem = check(make, items, depth=len(items) + 3)
        if problem:
            print('C20 VIOLATED (%s buffer): %s' % (kind, problem))
            return 1
    print('C20 holds on the explored sequences')
    return 0


if __name__ == '__main__':
    sys.exit(main())
