"""Property C11: verbatim-like environments are opaque.

Usage: demo.py <path-to-TexSoup-checkout>
Exit 0 if the property holds on every case tried, exit 1 (with a report) if
it is violated.

The cases vary the *name* given through ``skip_envs``: a user-chosen name must
behave exactly like a built-in one (``verbatim``), whatever the name is --
including names that the library knows for other reasons (math environments,
lists, tables) -- at top level and nested in a named environment.  Without
the option, the same (balanced) body must be parsed normally.
"""
import sys

sys.path.insert(0, sys.argv[1])

from TexSoup import TexSoup  # noqa: E402

BUILTIN = 'verbatim'
USER_NAMES = [
    'foo', 'mycode', 'Code2', 'code*',
    'itemize', 'tabular', 'document',
    'equation', 'align', 'align*', 'math', 'split', 'gather*',
]

# bodies respect the preconditions: they do not start with a brace/bracket,
# do not end with a backslash, have no % on the line of the closing \end
HOSTILE_BODIES = [
    'a{b$c',
    ' x \\textbf{aaaaa ] $$ \\[ ',
    '\n  if (a[0] < b) { $x = \\foo{1;\n',
    'u \\begin{itemize} \\item v \\end{document} } w',
]
# balanced body with a command that is unique in the document
BENIGN_BODY = ' p \\zzmark{q} r '

WRAPPERS = [
    ('', ''),
    ('intro \\begin{outer}\nbefore ', ' after\n\\end{outer} outro'),
    ('\\begin{document}\\begin{center}', '\\end{center}\\end{document}'),
]

failures = []


def fail(msg):
    failures.append(msg)
    print('VIOLATION:', msg)


def shape(name, body, wrapper, skip):
    """Parse and describe the environment `name`: (raw pieces, round trip)."""
    pre, post = wrapper
    src = '%s\\begin{%s}%s\\end{%s}%s' % (pre, name, body, name, post)
    soup = TexSoup(src, skip_envs=skip)
    env = soup.find(name)
    assert env is not None, 'environment %r not found in tree' % name
    pieces = [(type(x).__name__, str(x)) for x in env.expr.all]
    return soup, pieces, str(soup) == src


def check_opaque(name, body, wrapper, skip):
    label = 'name=%r skip_envs=%r body=%r wrapper=%r' % (
        name, skip, body, wrapper)
    try:
        soup, pieces, roundtrip = shape(name, body, wrapper, skip)
    except Exception as e:  # a skipped body can never cause a parse error
        fail('%s: parse error %s: %s' % (label, type(e).__name__, e))
        return None
    if len(pieces) != 1 or pieces[0][1] != body or \
            pieces[0][0] not in ('TexText', 'Token', 'str'):
        fail('%s: body not one uninterpreted text, got %r' % (label, pieces))
    if not roundtrip:
        fail('%s: document not re-serialised as written: %r' % (
            label, str(soup)))
    return pieces


for wrapper in WRAPPERS:
    for body in HOSTILE_BODIES + [BENIGN_BODY]:
        # reference: the built-in name
        ref = check_opaque(BUILTIN, body, wrapper, ())
        for name in USER_NAMES:
            if '\\end{%s}' % name in body or \
                    '{%s}' % name in wrapper[0]:
                continue
            got = check_opaque(name, body, wrapper, (name,))
            if ref is not None and got is not None and got != ref:
                fail('user name %r differs from built-in: %r vs %r' % (
                    name, got, ref))

    # nothing inside a skipped body is searchable ...
    for name in [BUILTIN] + USER_NAMES:
        skip = () if name == BUILTIN else (name,)
        try:
            soup, _, _ = shape(name, BENIGN_BODY, wrapper, skip)
            n = len(list(soup.find_all('zzmark')))
            if n != 0:
                fail('name=%r wrapper=%r: command inside skipped body is '
                     'searchable (%d hits)' % (name, wrapper, n))
        except Exception as e:
            fail('name=%r wrapper=%r: parse error %s: %s' % (
                name, wrapper, type(e).__name__, e))

    # ... and without the option the same body is parsed normally
    for name in USER_NAMES:
        if '{%s}' % name in wrapper[0]:
            continue
        try:
            soup, pieces, _ = shape(name, BENIGN_BODY, wrapper, ())
            n = len(list(soup.find_all('zzmark')))
            if n != 1:
                fail('name=%r wrapper=%r without skip_envs: body not parsed '
                     'normally (%d hits, pieces %r)' % (
                         name, wrapper, n, pieces))
        except Exception as e:
            fail('name=%r wrapper=%r without skip_envs: %s: %s' % (
                name, wrapper, type(e).__name__, e))

if failures:
    print('%d violation(s) of C11' % len(failures))
    sys.exit(1)
print('C11 holds on all cases tried')
sys.exit(0)
