"""Property C11: verbatim-like environments are opaque.

Usage: demo.py <path-to-TexSoup-checkout>
Exit 0 if the property holds on every case tried, exit 1 (with a report) if
it is violated.

The cases vary the *body*: it is raw text made of hostile pieces (unbalanced
delimiters, math switches, \\begin / \\end of other environments and of the
environment itself).  Whatever it contains, the body must be kept as one
uninterpreted text that stops at the first ``\\end{name}``, without a parse
error, for built-in and user-supplied names, at top level and nested.
"""
import itertools
import sys

sys.path.insert(0, sys.argv[1])

from TexSoup import TexSoup  # noqa: E402

NAMES = [('verbatim', ()), ('lstlisting', ()), ('foo', ('foo',)),
         ('code*', ('code*',))]

WRAPPERS = [
    ('', ''),
    ('', ' trailing text'),
    ('intro \\begin{outer}\nbefore ', ' after\n\\end{outer} outro'),
    ('\\begin{document}\\begin{center}', '\\end{center}\\end{document}'),
]

failures = []


def fail(msg):
    failures.append(msg)
    print('VIOLATION:', msg)


def pieces_of(name):
    """Hostile body fragments (none starts with a brace or bracket, none ends
    with a backslash, none contains a %)."""
    return [
        'a{b', ' $c ', ' \\textbf{x ', ' ] \\[ ', '\n',
        ' \\begin{itemize} \\item ', ' \\end{itemize} ',
        ' \\begin{other}', ' \\end{other} ',
        ' \\begin{%s} ' % name, ' \\begin{%s}' % name,
        ' \\begin {%s} ' % name, ' \\end {%s} ' % name,
        ' \\end{%sx} ' % name,
    ]


def check(name, skip, body, wrapper):
    pre, post = wrapper
    end = '\\end{%s}' % name
    assert end not in body
    src = pre + '\\begin{%s}' % name + body + end + post
    label = 'name=%r skip_envs=%r src=%r' % (name, skip, src)
    try:
        soup = TexSoup(src, skip_envs=skip)
    except Exception as e:  # a skipped body can never cause a parse error
        fail('%s: parse error %s: %s' % (label, type(e).__name__, e))
        return
    env = soup.find(name)
    if env is None:
        fail('%s: environment not found' % label)
        return
    pieces = [(type(x).__name__, str(x)) for x in env.expr.all]
    if len(pieces) != 1 or pieces[0][0] not in ('TexText', 'Token', 'str'):
        fail('%s: body is not a single uninterpreted text: %r' % (
            label, pieces))
    elif pieces[0][1] != body:
        fail('%s: body should be %r (up to the first %s) but is %r' % (
            label, body, end, pieces[0][1]))
    if str(soup) != src:
        fail('%s: re-serialised differently: %r' % (label, str(soup)))


for (name, skip), wrapper in itertools.product(NAMES, WRAPPERS):
    frags = pieces_of(name)
    # every single fragment, every ordered pair, and a few longer mixes
    bodies = ['x' + f for f in frags]
    bodies += ['x' + f + g for f, g in itertools.permutations(frags, 2)]
    bodies += ['x' + ''.join(frags), 'x' + ''.join(reversed(frags))]
    for body in bodies:
        check(name, skip, body, wrapper)

# the first-\end rule when a second closing marker follows: the text after the
# first marker is ordinary surrounding content (a stray \end at top level is
# kept as a plain command by the parser), the body must stop at the first one.
for name, skip in NAMES:
    end = '\\end{%s}' % name
    for inner in ['code', 'a \\begin{other} b', 'a \\begin{%s} b' % name,
                  '\\begin{%s}\\begin{%s}$' % (name, name)]:
        body = 'x ' + inner
        src = '\\begin{%s}%s%s tail %s done' % (name, body, end, end)
        label = 'name=%r skip_envs=%r src=%r' % (name, skip, src)
        try:
            soup = TexSoup(src, skip_envs=skip)
        except Exception as e:
            fail('%s: parse error %s: %s' % (label, type(e).__name__, e))
            continue
        env = soup.find(name)
        got = [str(x) for x in env.expr.all] if env is not None else None
        if got != [body]:
            fail('%s: body should stop at the first %s, i.e. be %r, but is %r'
                 % (label, end, [body], got))
        if str(soup) != src:
            fail('%s: re-serialised differently: %r' % (label, str(soup)))

if failures:
    print('%d violation(s) of C11' % len(failures))
    sys.exit(1)
print('C11 holds on all cases tried')
sys.exit(0)
