"""C13 demo 2: char_pos_to_line(offset) is the (line, column) at which the
character at that offset stands, for every offset 0..len-1.

Exhaustive over all strings of length 1..7 over {letter, LF}, plus one
ordinary LaTeX document.

usage: demo.py <path-to-TexSoup-checkout>
exit 0: property holds; exit 1: violated (prints the offending items).
"""
import itertools
import sys

sys.path.insert(0, sys.argv[1])

from TexSoup import TexSoup  # noqa: E402


def expected(src, i):
    """Line = number of LF strictly before offset i; column = distance from
    the start of that line (the LF itself is the last character of the line
    it terminates)."""
    line = src.count('\n', 0, i)
    line_start = src.rfind('\n', 0, i) + 1
    return line, i - line_start


def sources():
    for n in range(1, 8):
        for chars in itertools.product('a\n', repeat=n):
            yield ''.join(chars)
    yield ("\\section{Hey}\n\n\\textbf{Silly}\n"
           "\\begin{itemize}\n\\item one\n\\item two\n\\end{itemize}\n")


def main():
    errors = []
    checked = 0
    for src in sources():
        soup = TexSoup(src)
        for i in range(len(src)):
            got = tuple(soup.char_pos_to_line(i))
            want = expected(src, i)
            checked += 1
            if got != want:
                errors.append('src=%r offset=%d (char %r): char_pos_to_line '
                              'gives %r, character stands at %r' % (
                                  src, i, src[i], got, want))
    if errors:
        print('C13 VIOLATED: %d of %d offsets mapped to the wrong '
              '(line, column)' % (len(errors), checked))
        for e in errors[:10]:
            print('  ' + e)
        return 1
    print('C13 holds: %d offsets mapped correctly' % checked)
    return 0


if __name__ == '__main__':
    sys.exit(main())
