"""C13 demo 1: recorded positions of every node / text token are true source
offsets, in particular for the raw text leaf of verbatim-like environments.

usage: demo.py <path-to-TexSoup-checkout>
exit 0: property holds; exit 1: violated (prints the offending items).
"""
import sys

sys.path.insert(0, sys.argv[1])

from TexSoup import TexSoup  # noqa: E402
from TexSoup.data import TexExpr, TexText  # noqa: E402
from TexSoup.utils import Token  # noqa: E402


DOCS = [
    # plain constructs only (control)
    "Intro text\n\\section{One}\nSome $x+y$ math and {a group}.\n"
    "\\begin{itemize}\n\\item first\n\\item second\n\\end{itemize}\n",
    # verbatim-like environments at several depths / offsets
    "\\begin{verbatim}\nraw $ text { here\n\\end{verbatim}\n",
    "Lead in.\n\\section{Code}\n\\begin{verbatim}\n  x = \\foo{1} % not a comment\n"
    "\\end{verbatim}\ntrailing words\n",
    "\\begin{document}\nabc\n\\begin{lstlisting}\nint main() { return 0; }\n"
    "\\end{lstlisting}\n\\textbf{after} it\n\\end{document}\n",
    "\\begin{itemize}\n\\item see\n\\begin{verbatim}a_b^c\\end{verbatim}\n"
    "\\item done\n\\end{itemize}\n",
    "x\\begin{Verbatim}one\ntwo\n\\end{Verbatim}y $$a$$ \\[b\\] \\(c\\)\n",
]


def walk(expr, src, errors, path):
    """Check expr (a TexExpr) and everything below it."""
    if isinstance(expr, TexText):
        tok = expr._text
        if isinstance(tok, Token) and len(tok) > 0:
            p = tok.position
            if not (isinstance(p, int) and src[p:p + len(tok)] == str(tok)):
                errors.append('text token %r at %s: recorded position %r, but '
                              'source there is %r' % (
                                  str(tok), path, p,
                                  src[p:p + len(tok)] if isinstance(p, int)
                                  else None))
        return
    if expr.name != '[tex]':
        s = str(expr)
        p = expr.position
        if not (isinstance(p, int) and src[p:p + len(s)] == s):
            errors.append('%s %r at %s: recorded position %r, but source '
                          'there is %r' % (
                              type(expr).__name__, s, path, p,
                              src[p:p + len(s)] if isinstance(p, int)
                              else None))
    for i, arg in enumerate(expr.args):
        if isinstance(arg, TexExpr):
            walk(arg, src, errors, path + '/arg%d' % i)
    for i, child in enumerate(expr._contents):
        if isinstance(child, TexExpr):
            walk(child, src, errors, path + '/%d' % i)


def main():
    errors = []
    for n, src in enumerate(DOCS):
        soup = TexSoup(src)
        if str(soup) != src:
            # not a positions question; skip documents that do not round-trip
            continue
        walk(soup.expr, src, errors, 'doc%d' % n)
        # same claim through the public navigation API for text leaves
        for leaf in soup.text:
            if isinstance(leaf, Token) and len(leaf) > 0:
                p = leaf.position
                if src[p:p + len(leaf)] != str(leaf):
                    errors.append('doc%d .text leaf %r: recorded position %r, '
                                  'source there is %r' % (
                                      n, str(leaf), p,
                                      src[p:p + len(leaf)]))
    if errors:
        print('C13 VIOLATED: %d wrong position(s)' % len(errors))
        for e in errors[:10]:
            print('  ' + e)
        return 1
    print('C13 holds on all sample documents')
    return 0


if __name__ == '__main__':
    sys.exit(main())
