"""C12 demo: zero-argument operators followed by a bracket, inside math.

Checks, for every delimiter pair / a named math environment and for each of the
zero-argument operators (\\cup \\cap \\in \\notin \\infty), that a math region
whose body has the operator directly followed by an unbalanced '[' - both at
the top level of the body and inside a plain brace group such as a sub- or
superscript - yields exactly one math node of the right kind whose body is
exactly the enclosed source, that the bracket stays plain text (the operator
takes no argument), and that the operator stays searchable.

usage: demo.py <path-of-TexSoup-checkout>; exit 0 = property holds, 1 = violated
"""
import sys

sys.path.insert(0, sys.argv[1])

from TexSoup import TexSoup  # noqa: E402
from TexSoup.data import (TexMathModeEnv, TexDisplayMathModeEnv, TexMathEnv,  # noqa: E402
                          TexDisplayMathEnv, TexNamedEnv)

REGIONS = [
    ('$', '$', TexMathModeEnv, '$'),
    ('$$', '$$', TexDisplayMathModeEnv, '$$'),
    (r'\(', r'\)', TexMathEnv, 'math'),
    (r'\[', r'\]', TexDisplayMathEnv, 'displaymath'),
    (r'\begin{align}', r'\end{align}', TexNamedEnv, 'align'),
    (r'\begin{equation*}', r'\end{equation*}', TexNamedEnv, 'equation*'),
]
OPERATORS = ['cup', 'cap', 'in', 'notin', 'infty']
BODIES = [
    r'x \%s[0, n) + 1',             # directly in the body
    r'x \%s [0, n) + 1',
    r'\frac{a \%s[b}{2}',           # inside the argument of a command
    r'\sum_{i \%s [0, n)} i',       # inside a subscript group
    r'y^{\%s[} - {a \%s[ b}',       # superscript group / bare group
]

failures = []


def check(prefix, begin, body, end, suffix, cls, name, op):
    src = prefix + begin + body + end + suffix
    try:
        soup = TexSoup(src)
    except Exception as e:  # parsing a well-formed math region must not fail
        failures.append('%r: raised %s: %s' % (src, type(e).__name__, e))
        return
    if str(soup) != src:
        failures.append('%r: re-serialised as %r' % (src, str(soup)))
        return
    nodes = [n for n in soup.find_all(name) if type(n.expr) is cls]
    if len(nodes) != 1:
        failures.append('%r: expected one %s node, found %d' %
                        (src, cls.__name__, len(nodes)))
        return
    node = nodes[0]
    if str(node) != begin + body + end:
        failures.append('%r: math node is %r, body not the enclosed source' %
                        (src, str(node)))
        return
    found = list(node.find_all(op))
    if len(found) != body.count('\\' + op):
        failures.append('%r: \\%s found %d times inside the math node' %
                        (src, op, len(found)))
        return
    for cmd in found:
        if len(cmd.args) != 0 or str(cmd) != '\\' + op:
            failures.append('%r: \\%s swallowed the bracket: %r' %
                            (src, op, str(cmd)))
            return


for begin, end, cls, name in REGIONS:
    for op in OPERATORS:
        for body in BODIES:
            body = body.replace('%s', op)
            check('', begin, body, end, '', cls, name, op)
            check('text ', begin, body, end, ' more] text', cls, name, op)

if failures:
    print('C12 VIOLATED (%d cases), first ones:' % len(failures))
    for f in failures[:8]:
        print('  ' + f)
    sys.exit(1)
print('C12 holds on all checked cases')
sys.exit(0)
