"""C12 demo: math regions are recognised in every context, including right
after a `\\\\` line break and right after another math region.

For each of the four delimiter pairs the same small bodies are placed in a
number of surrounding contexts. In each case there must be exactly one math
node of the corresponding kind whose source is exactly delimiter + body +
delimiter, the document must re-serialise unchanged and a command inside the
body must be searchable from the math node.

usage: demo.py <path-of-TexSoup-checkout>; exit 0 = property holds, 1 = violated
"""
import sys

sys.path.insert(0, sys.argv[1])

from TexSoup import TexSoup  # noqa: E402
from TexSoup.data import (TexMathModeEnv, TexDisplayMathModeEnv, TexMathEnv,  # noqa: E402
                          TexDisplayMathEnv)

REGIONS = [
    ('$', '$', TexMathModeEnv),
    ('$$', '$$', TexDisplayMathModeEnv),
    (r'\(', r'\)', TexMathEnv),
    (r'\[', r'\]', TexDisplayMathEnv),
]
BODIES = [
    r'x+\alpha',
    r'\frac{\alpha}{2} (a] + [b)',
    r' \alpha \$ 3 ',
]
# (prefix, suffix) placed around the region under test
CONTEXTS = [
    ('', ''),
    ('some text ', ' and more'),
    ('line one \\\\ ', ' line two'),          # line break, blank, math
    ('line one \\\\\n', '\nline two'),        # line break, newline, math
    ('line one \\\\', ' line two'),           # line break directly before math
    ('\\begin{tabular}{c} a \\\\', ' \\\\ c \\end{tabular}'),
    ('\\begin{center}x\\\\[2pt]', '\\end{center}'),
    ('\\textbf{b \\\\', '}'),
    ('\\$ 5 and ', ' and \\$'),               # escaped dollars around
]

failures = []


def kind_nodes(soup, cls):
    return [n for n in soup.descendants
            if not isinstance(n, str) and type(n.expr) is cls]


def check(src, expected):
    """expected: list of (cls, source-of-region) that must be in the tree"""
    try:
        soup = TexSoup(src)
    except Exception as e:
        failures.append('%r: raised %s: %s' % (src, type(e).__name__, e))
        return
    if str(soup) != src:
        failures.append('%r: re-serialised as %r' % (src, str(soup)))
        return
    for cls in {c for c, _ in expected}:
        want = [s for c, s in expected if c is cls]
        got = [str(n) for n in kind_nodes(soup, cls)]
        if got != want:
            failures.append('%r: expected %s nodes %r, found %r' %
                            (src, cls.__name__, want, got))
            return
        for n in kind_nodes(soup, cls):
            if r'\alpha' in str(n) and n.find('alpha') is None:
                failures.append('%r: \\alpha not searchable in %r' %
                                (src, str(n)))
                return


for begin, end, cls in REGIONS:
    for body in BODIES:
        region = begin + body + end
        for prefix, suffix in CONTEXTS:
            check(prefix + region + suffix, [(cls, region)])

# adjacent regions of different kinds (no separator at all), also after `\\`
for b1, e1, c1 in REGIONS:
    for b2, e2, c2 in REGIONS:
        if c1 is c2:
            continue
        if b1 == '$' and b2 == '$$':
            continue  # `$a$$$b$$` reads as `$a$$` `$b$$`; only `$$a$$$b$` is unambiguous
        r1, r2 = b1 + r'a+\alpha' + e1, b2 + r'b' + e2
        check(r1 + r2, [(c1, r1), (c2, r2)])
        check('x \\\\' + r1 + r2 + ' y', [(c1, r1), (c2, r2)])

if failures:
    print('C12 VIOLATED (%d cases), first ones:' % len(failures))
    for f in failures[:8]:
        print('  ' + f)
    sys.exit(1)
print('C12 holds on all checked cases')
sys.exit(0)
