"""Property C01 demo: parse -> serialise round trip is lossless.

usage: demo.py /path/to/TexSoup-checkout
exit 0: property holds on the documents below; exit 1: violated (details printed)

All documents are well-formed and every argument group immediately follows
its command / the previous argument.  The shape of interest: a command (with
or without arguments) followed by a whitespace run and then the `}` or `]`
that closes the group the command sits in.
"""
import sys

sys.path.insert(0, sys.argv[1])

from TexSoup import TexSoup  # noqa: E402
from TexSoup.data import TexExpr, TexText  # noqa: E402

DOCS = [
    # controls: same constructs, no whitespace between command and closer
    r'{\bfseries}',
    r'\textbf{\alpha}',
    r'{\em text }',
    r'\section{Intro to \LaTeX} text',
    # whitespace run between a command and the closing brace
    r'{\bfseries }',
    r'\textbf{\alpha }',
    r'\section{Intro to \LaTeX }' '\n',
    '\\caption{See Figure~\\ref{fig:a} }\n',
    '{\\centering\n}',
    # ... and the closing bracket of an optional argument
    r'\item[\textbullet ] first',
    r'\foo[\bar{x} ]{y}',
    # nested: the inner command's trailing blank sits before the outer closer
    '\\begin{itemize}\n\\item \\emph{see \\cite{k} } and more\n\\end{itemize}\n',
    r'\newcommand{\ee}{\end{equation} }',
    r'$\frac{\alpha }{\beta }$',
]


def walk(expr):
    yield expr
    for child in expr.all:
        if isinstance(child, TexExpr):
            yield from walk(child)


def main():
    failures = []
    for src in DOCS:
        try:
            soup = TexSoup(src)
        except Exception as exc:  # parsing must succeed
            failures.append('parse failed for %r: %r' % (src, exc))
            continue
        out = str(soup)
        if out != src:
            failures.append('round trip differs\n   source: %r\n   output: %r'
                            % (src, out))
        # the text of every (non-leaf) node is the slice it was parsed from
        for expr in walk(soup.expr):
            if expr is soup.expr or isinstance(expr, TexText):
                continue
            pos = expr.position
            if pos is None or pos < 0:
                continue
            text = str(expr)
            if src[pos:pos + len(text)] != text:
                failures.append(
                    'node text is not its source slice in %r\n   node: %r\n'
                    '   slice: %r' % (src, text, src[pos:pos + len(text)]))
    if failures:
        print('PROPERTY C01 VIOLATED (%d finding(s))' % len(failures))
        for f in failures:
            print(' - ' + f)
        return 1
    print('property C01 holds on %d documents' % len(DOCS))
    return 0


if __name__ == '__main__':
    sys.exit(main())
