r"""Property C01 demo: parse -> serialise round trip is lossless.

usage: demo.py /path/to/TexSoup-checkout
exit 0: property holds on the documents below; exit 1: violated (details printed)

All documents are well-formed and every argument group immediately follows
its command / the previous argument.  The shape of interest: a named
environment whose `\end{name}` is immediately followed by a brace group
(a plain group of the surrounding text, not an argument of anything).
"""
import sys

sys.path.insert(0, sys.argv[1])

from TexSoup import TexSoup  # noqa: E402
from TexSoup.data import TexExpr, TexText  # noqa: E402

DOCS = [
    # controls: environment followed by text / a command / a math switch
    r'\begin{center}x\end{center} text',
    r'\begin{center}x\end{center}\emph{y}',
    r'{\small note}\begin{center}x\end{center}$z$',
    # a brace group right behind the closing `\end{name}`
    r'\begin{center}x\end{center}{\small note}',
    r'\begin{equation}a=b\end{equation}{}',
    r'\begin{align*}x&=y\end{align*}{\qed}' '\n',
    r'\begin{tabular}{cc}1&2\\3&4\end{tabular}{\footnotesize source: me}',
    # the same, nested inside other constructs
    '\\begin{itemize}\n\\item a \\begin{quote}q\\end{quote}{\\em tail}\n'
    '\\item b\n\\end{itemize}\n',
    r'\textbf{\begin{center}x\end{center}{y}z}',
    '\\begin{document}\n\\begin{figure}[h]\\caption{c}\\end{figure}{\\bf A}{B}\n'
    '\\end{document}\n',
]


def walk(expr):
    yield expr
    for child in expr.all:
        if isinstance(child, TexExpr):
            yield from walk(child)


def main():
    failures = []
    for src in DOCS:
        try:
            soup = TexSoup(src)
        except Exception as exc:  # parsing must succeed
            failures.append('parse failed for %r: %r' % (src, exc))
            continue
        out = str(soup)
        if out != src:
            failures.append('round trip differs\n   source: %r\n   output: %r'
                            % (src, out))
        # the text of every (non-leaf) node is the slice it was parsed from
        for expr in walk(soup.expr):
            if expr is soup.expr or isinstance(expr, TexText):
                continue
            pos = expr.position
            if pos is None or pos < 0:
                continue
            text = str(expr)
            if src[pos:pos + len(text)] != text:
                failures.append(
                    'node text is not its source slice in %r\n   node: %r\n'
                    '   slice: %r' % (src, text, src[pos:pos + len(text)]))
    if failures:
        print('PROPERTY C01 VIOLATED (%d finding(s))' % len(failures))
        for f in failures:
            print(' - ' + f)
        return 1
    print('property C01 holds on %d documents' % len(DOCS))
    return 0


if __name__ == '__main__':
    sys.exit(main())
