#!/usr/bin/env python
r"""Demonstration for property C02 (the parse tree mirrors the construct
structure of the document), focused on \newcommand-style definitions.

Usage: demo.py /path/to/TexSoup/checkout

Every document below is well-formed.  For each one the expected structure is
written down by hand (it is simply the structure of the source as written) and
compared with the structure of the tree TexSoup builds: kind of every node,
its name, its argument groups (kind, order, contents) and its nesting.
Adjacent text leaves are merged before comparing, so the check does not depend
on how a text run happens to be cut into tokens.

Exit status 0: property holds on all documents.  Exit status 1: violated.
"""
import sys

sys.path.insert(0, sys.argv[1])

from TexSoup import TexSoup  # noqa: E402
from TexSoup.data import (TexText, TexCmd, TexEnv, TexNamedEnv,  # noqa: E402
                          BraceGroup, BracketGroup)


def merge(nodes):
    out = []
    for n in nodes:
        if n[0] == 'text' and out and out[-1][0] == 'text':
            out[-1] = ('text', out[-1][1] + n[1])
        else:
            out.append(n)
    return out


def shape(e):
    """Structure of one expression as nested tuples."""
    if isinstance(e, TexText):
        return ('text', str(e))
    if isinstance(e, BraceGroup):
        return ('brace', merge([shape(c) for c in e._contents]))
    if isinstance(e, BracketGroup):
        return ('bracket', merge([shape(c) for c in e._contents]))
    if isinstance(e, TexCmd):
        return ('cmd', str(e.name), [shape(a) for a in e.args],
                merge([shape(c) for c in e._contents]))
    if isinstance(e, TexNamedEnv):
        return ('env', str(e.name), [shape(a) for a in e.args],
                merge([shape(c) for c in e._contents]))
    if isinstance(e, TexEnv):
        return ('math', str(e.name), merge([shape(c) for c in e._contents]))
    return ('unknown', repr(e))


# helpers to write the expected structure
def T(s): return ('text', s)
def B(*c): return ('brace', list(c))
def O(*c): return ('bracket', list(c))
def C(name, *args, body=()): return ('cmd', name, list(args), list(body))
def E(name, *body, args=()): return ('env', name, list(args), list(body))


CASES = [
    # plain definition: \begin in the body does not open an environment
    (r'\newcommand{\beq}{\begin{equation}}',
     [C('newcommand', B(C('beq')), B(C('begin', B(T('equation')))))]),

    # definition with an argument count before the body
    (r'\newcommand{\be}[1]{\begin{equation}#1}',
     [C('newcommand', B(C('be')), O(T('1')),
        B(C('begin', B(T('equation'))), T('#1')))]),

    # argument count and default value, a closing definition, then a real
    # environment of the same name afterwards
    (r'\renewcommand{\bq}[2][x]{\begin{quote}#1#2}'
     r'\providecommand{\eq}{\end{quote}}'
     r'\begin{quote}a\end{quote}',
     [C('renewcommand', B(C('bq')), O(T('2')), O(T('x')),
        B(C('begin', B(T('quote'))), T('#1#2'))),
      C('providecommand', B(C('eq')), B(C('end', B(T('quote'))))),
      E('quote', T('a'))]),

    # the same inside an environment, body holds \begin and \end
    (r'\begin{document}\newcommand{\wrap}[1]{\begin{center}#1\end{center}}'
     r'\wrap{x}\end{document}',
     [E('document',
        C('newcommand', B(C('wrap')), O(T('1')),
          B(C('begin', B(T('center'))), T('#1'),
            C('end', B(T('center'))))),
        C('wrap', B(T('x'))))]),
]


def main():
    bad = 0
    for src, expected in CASES:
        try:
            soup = TexSoup(src)
            got = merge([shape(c) for c in soup.expr._contents])
        except Exception as exc:  # a well-formed document must parse
            bad += 1
            print('VIOLATION: well-formed document could not be parsed')
            print('  source  :', src)
            print('  error   : %s: %s' % (type(exc).__name__, exc))
            continue
        if got != expected:
            bad += 1
            print('VIOLATION: tree does not mirror the source structure')
            print('  source  :', src)
            print('  expected:', expected)
            print('  got     :', got)
    if bad:
        print('%d of %d documents violate C02' % (bad, len(CASES)))
        return 1
    print('C02 holds on all %d documents' % len(CASES))
    return 0


if __name__ == '__main__':
    sys.exit(main())
