#!/usr/bin/env python
r"""Demonstration for property C02 (the parse tree mirrors the construct
structure of the document), focused on what directly follows the \end{name}
of a named environment (brace groups, further environments, list items).

Usage: demo.py /path/to/TexSoup/checkout

Every document below is well-formed.  For each one the expected structure is
written down by hand (it is simply the structure of the source as written) and
compared with the structure of the tree TexSoup builds: kind of every node,
its name, its argument groups (kind, order, contents) and its nesting.
Adjacent text leaves are merged before comparing, so the check does not depend
on how a text run happens to be cut into tokens.

Exit status 0: property holds on all documents.  Exit status 1: violated.
"""
import sys

sys.path.insert(0, sys.argv[1])

from TexSoup import TexSoup  # noqa: E402
from TexSoup.data import (TexText, TexCmd, TexEnv, TexNamedEnv,  # noqa: E402
                          BraceGroup, BracketGroup)


def merge(nodes):
    out = []
    for n in nodes:
        if n[0] == 'text' and out and out[-1][0] == 'text':
            out[-1] = ('text', out[-1][1] + n[1])
        else:
            out.append(n)
    return out


def shape(e):
    """Structure of one expression as nested tuples."""
    if isinstance(e, TexText):
        return ('text', str(e))
    if isinstance(e, BraceGroup):
        return ('brace', merge([shape(c) for c in e._contents]))
    if isinstance(e, BracketGroup):
        return ('bracket', merge([shape(c) for c in e._contents]))
    if isinstance(e, TexCmd):
        return ('cmd', str(e.name), [shape(a) for a in e.args],
                merge([shape(c) for c in e._contents]))
    if isinstance(e, TexNamedEnv):
        return ('env', str(e.name), [shape(a) for a in e.args],
                merge([shape(c) for c in e._contents]))
    if isinstance(e, TexEnv):
        return ('math', str(e.name), merge([shape(c) for c in e._contents]))
    return ('unknown', repr(e))


# helpers to write the expected structure
def T(s): return ('text', s)
def B(*c): return ('brace', list(c))
def O(*c): return ('bracket', list(c))
def C(name, *args, body=()): return ('cmd', name, list(args), list(body))
def E(name, *body, args=()): return ('env', name, list(args), list(body))


CASES = [
    # controls: text or a command after the environment
    (r'\begin{a}x\end{a}y',
     [E('a', T('x')), T('y')]),
    (r'\begin{a}x\end{a}\foo{y}',
     [E('a', T('x')), C('foo', B(T('y')))]),

    # a brace group directly after the environment is a sibling group
    (r'\begin{a}x\end{a}{g}',
     [E('a', T('x')), B(T('g'))]),

    # the same one level down, with content after the group
    (r'\begin{a}\begin{b}x\end{b}{\bf g}y\end{a}',
     [E('a', E('b', T('x')), B(C('bf'), T(' g')), T('y'))]),

    # a group after a math environment, separated by a blank
    (r'\begin{equation}x\end{equation} {g} z',
     [E('equation', T('x')), T(' '), B(T('g')), T(' z')]),

    # inside a list item: the group belongs to the item, after the nested env
    (r'\begin{itemize}\item p \begin{center}c\end{center}{q} r'
     r'\item s\end{itemize}',
     [E('itemize',
        C('item', body=[T(' p '), E('center', T('c')), B(T('q')), T(' r')]),
        C('item', body=[T(' s')]))]),
]


def main():
    bad = 0
    for src, expected in CASES:
        try:
            soup = TexSoup(src)
            got = merge([shape(c) for c in soup.expr._contents])
        except Exception as exc:  # a well-formed document must parse
            bad += 1
            print('VIOLATION: well-formed document could not be parsed')
            print('  source  :', src)
            print('  error   : %s: %s' % (type(exc).__name__, exc))
            continue
        if got != expected:
            bad += 1
            print('VIOLATION: tree does not mirror the source structure')
            print('  source  :', src)
            print('  expected:', expected)
            print('  got     :', got)
    if bad:
        print('%d of %d documents violate C02' % (bad, len(CASES)))
        return 1
    print('C02 holds on all %d documents' % len(CASES))
    return 0


if __name__ == '__main__':
    sys.exit(main())
