"""C10 demo 2: comments are inert and backslash parity decides what a % is.

Part 1: for every context and (hostile) payload the document is parsed and we
check that exactly one text leaf equals '%' + payload, that the tree around
that leaf is the same as with a harmless payload, and that nothing inside the
payload is found by search.  Comments are ended by a line break and, where the
context allows it, by the end of the input.

Part 2: 0..5 backslashes directly before a % in every context: backslashes
pair up left to right into line breaks; an odd count leaves an escaped percent
sign (not a comment, so what follows on the line is parsed), an even count
leaves a comment (what follows on the line is hidden).
"""
import sys

sys.path.insert(0, sys.argv[1])

from TexSoup import TexSoup  # noqa: E402
from TexSoup.data import TexExpr, TexText  # noqa: E402

PAYLOADS = [
    'x', '', '}', ']$', r'\end{itemize}', r'\item \found{1}', '\\\\',
    '%', '%%', ' 50% done', '%%%% title %%%%', 'a%}', '}%{', r'\%', r'a\%b}',
    r'\found{1}%\found{2}', '$%$', ']%[', r'\end{itemize}%\begin{q}',
]

CONTEXTS = [
    ('a @\nb \\after{1} c', 'top level'),
    ('\\begin{itemize}\\item x @\n\\item y\\end{itemize} z', 'env body/item'),
    ('\\cmd{a @\nb} \\after{1}', 'brace argument'),
    ('\\cmd[a @\nb]{c}', 'bracket argument'),
    ('{a @\nb} c', 'group'),
    ('$a @\nb$ c', 'math $'),
    ('$$a @\nb$$ c', 'math $$'),
    ('\\(a @\nb\\) c', 'math \\('),
    ('\\[a @\nb\\] c', 'math \\['),
    # ended by end of input
    ('a \\after{1} @', 'top level, end of input'),
    ('\\item x @', 'item, end of input'),
    ('\\\\@', 'two backslashes then comment, end of input'),
    ('\\\\\\\\@', 'four backslashes then comment, end of input'),
]


def shape(x, comment):
    if isinstance(x, TexText) or not isinstance(x, TexExpr):
        s = str(x)
        return '<COMMENT>' if s == comment else ('T', s)
    return (type(x).__name__, x.name,
            tuple(shape(a, comment) for a in x.args),
            tuple(shape(c, comment) for c in x._contents))


def leaves(x):
    if isinstance(x, TexText) or not isinstance(x, TexExpr):
        yield str(x)
        return
    for a in x.args:
        yield from leaves(a)
    for c in x._contents:
        yield from leaves(c)


failures = []
for template, ctx in CONTEXTS:
    ref_comment = '%REF'
    ref_shape = shape(TexSoup(template.replace('@', ref_comment)).expr,
                      ref_comment)
    for payload in PAYLOADS:
        comment = '%' + payload
        src = template.replace('@', comment)
        try:
            soup = TexSoup(src)
        except Exception as e:
            failures.append('%s: payload %r: parse raised %s: %s'
                            % (ctx, payload, type(e).__name__, e))
            continue
        tree = soup.expr
        found = list(leaves(tree))
        if sum(1 for leaf in found if leaf == comment) != 1:
            failures.append('%s: payload %r: the comment %r is not one text '
                            'leaf; leaves are %r' % (ctx, payload, comment,
                                                     found))
            continue
        if shape(tree, comment) != ref_shape:
            failures.append('%s: payload %r: tree around the comment changed:'
                            '\n   got  %r\n   want %r'
                            % (ctx, payload, shape(tree, comment), ref_shape))
        if soup.find('found') is not None or soup.find('q') is not None:
            failures.append('%s: payload %r: search found something inside '
                            'the comment' % (ctx, payload))

# 0..5 backslashes before the %: pairs of backslashes are line breaks; an odd
# count leaves an escaped percent sign (no comment, so the following {b} is a
# real group), an even count leaves a comment that hides {b}
PARITY_CONTEXTS = [
    ('a @\n c', 'top level'),
    ('a @', 'top level, end of input'),
    ('\\cmd{a @\n c}', 'brace argument'),
    ('\\cmd[a @\n c]', 'bracket argument'),
    ('{a @\n c}', 'group'),
    ('\\begin{e}a @\n c\\end{e}', 'environment body'),
    ('\\item a @\n c', 'item'),
    ('$a @\n c$', 'math $'),
    ('\\[a @\n c\\]', 'math \\['),
]
for template, ctx in PARITY_CONTEXTS:
    for n in range(6):
        src = template.replace('@', '\\' * n + '%{b}')
        try:
            found = list(leaves(TexSoup(src).expr))
        except Exception as e:
            failures.append('%s: %d backslashes: %r: parse raised %s: %s'
                            % (ctx, n, src, type(e).__name__, e))
            continue
        comments = [leaf for leaf in found if leaf.startswith('%')]
        if n % 2:
            ok = (not comments and found.count('\\%') == 1
                  and found.count('b') == 1)
            what = 'escaped percent sign, no comment'
        else:
            ok = comments == ['%{b}'] and 'b' not in found
            what = 'one comment leaf %{b}'
        if not ok or found.count('\\\\') != n // 2:
            failures.append('%s: %d backslashes before %%: %r: expected %s; '
                            'text leaves are %r' % (ctx, n, src, what, found))

if failures:
    print('C10 VIOLATED (%d cases):' % len(failures))
    for f in failures[:12]:
        print(' -', f)
    sys.exit(1)
print('C10 holds on all %d cases' % (len(CONTEXTS) * len(PAYLOADS) + 6 * len(PARITY_CONTEXTS)))
sys.exit(0)
