"""C10 demo 1: a comment ends at the end of ITS line, whatever its payload.

Checks that the tree around a comment does not depend on the payload: the
same skeleton is parsed with a harmless payload and with hostile payloads
(including payloads ending in 1..3 backslashes), and the shape of the tree
(everything except the comment leaf's own text) must be identical, the
comment must be exactly one text leaf '%<payload>', and nothing inside the
payload may be found by search.
"""
import sys

sys.path.insert(0, sys.argv[1])

from TexSoup import TexSoup  # noqa: E402
from TexSoup.data import TexExpr, TexText, TexCmd, TexEnv  # noqa: E402

PAYLOADS = [
    'x', '', '}', ']', '$', '{[$', r'\end{itemize}', r'\item', r'\begin{q}',
    '\\', 'ab\\', '}\\', '\\\\', 'a\\\\', '\\\\\\', '} \\\\\\', r'\found{1}\\',
    r'\found{1}' + '\\',
]

# (template, name) - @ is replaced by '%' + payload; the comment is always
# ended by a line break and something structural follows on the next line
CONTEXTS = [
    ('a @\nb \\after{1} c', 'top level'),
    ('\\begin{itemize}\\item x @\n\\item y\\end{itemize} z', 'env body/item'),
    ('\\cmd{a @\nb} \\after{1}', 'brace argument'),
    ('\\cmd[a @\nb]{c}', 'bracket argument'),
    ('{a @\nb} c', 'group'),
    ('$a @\nb$ c', 'math $'),
    ('$$a @\nb$$ c', 'math $$'),
    ('\\(a @\nb\\) c', 'math \\('),
    ('\\[a @\nb\\] c', 'math \\['),
]


def shape(x, comment):
    """Structure of the tree with the comment leaf replaced by a marker."""
    if isinstance(x, TexText) or not isinstance(x, TexExpr):
        s = str(x)
        return '<COMMENT>' if s == comment else ('T', s)
    return (type(x).__name__, x.name,
            tuple(shape(a, comment) for a in x.args),
            tuple(shape(c, comment) for c in x._contents))


def leaves(x):
    if isinstance(x, TexText) or not isinstance(x, TexExpr):
        yield str(x)
        return
    for a in x.args:
        yield from leaves(a)
    for c in x._contents:
        yield from leaves(c)


def parse(src):
    soup = TexSoup(src)
    return soup, soup.expr


failures = []
for template, ctx in CONTEXTS:
    ref_comment = '%REF'
    _, ref = parse(template.replace('@', ref_comment))
    ref_shape = shape(ref, ref_comment)
    for payload in PAYLOADS:
        comment = '%' + payload
        src = template.replace('@', comment)
        try:
            soup, tree = parse(src)
        except Exception as e:  # the reference parses, so must this
            failures.append('%s: payload %r: parse raised %s: %s'
                            % (ctx, payload, type(e).__name__, e))
            continue
        n = sum(1 for leaf in leaves(tree) if leaf == comment)
        if n != 1:
            failures.append('%s: payload %r: comment is not exactly one text '
                            'leaf (leaves: %r)' % (ctx, payload,
                                                   list(leaves(tree))))
            continue
        if shape(tree, comment) != ref_shape:
            failures.append('%s: payload %r: tree around the comment changed:'
                            '\n   got  %r\n   want %r'
                            % (ctx, payload, shape(tree, comment), ref_shape))
        if soup.find('found') is not None or soup.find('q') is not None:
            failures.append('%s: payload %r: search found something inside '
                            'the comment' % (ctx, payload))

if failures:
    print('C10 VIOLATED (%d cases):' % len(failures))
    for f in failures[:12]:
        print(' -', f)
    sys.exit(1)
print('C10 holds on all %d cases' % (len(CONTEXTS) * len(PAYLOADS)))
sys.exit(0)
