"""C04 - navigation views of a node are mutually consistent."""
from vlib import harness as H
from vlib import deepchain as DC
from vlib import texgen as G
from vlib import oracles as O
from vlib import docrun as D

RULE = ('every node (the root and every node of its descendants) of every generated document (whitespace-rich, default, '
        'twin and list profiles): contents == expr.all minus whitespace-only text (by identity of expressions, by text '
        'for leaves); children == the nodes of contents; iteration/indexing follow contents; descendants == transitive '
        'closure of contents, every node once; text == non-blank text leaves of the closure in document order '
        '(increasing offsets); at the root the complete content list concatenates to the document; parent of everything '
        'reached is the node it was reached from and parent chains end at the root. Non-trivial = document has a node '
        'with a whitespace-only leaf and a nested node, or a node whose arguments contain nodes; distinct by source'
        '. Also: slices of every node against slices of contents, and chains nested 45..270 deep - descendants against an iterative closure of contents and a closed-form count (all non-trivial)')
ASSUMPTIONS = ['fresh parses only; TexNode.all is used at the root only, expr.all elsewhere (as the statement says)']
PROFILES = ['ws', 'quick', 'twin', 'lists', 'ws', 'lines', 'ws', 'defs']


def key(x):
    e = getattr(x, 'expr', None)
    if e is not None and O.classify(x) == 'node':
        return ('node', id(e))
    return ('text', str(x))


def expected_contents(expr):
    out = []
    for it in expr.all:
        k = O.classify(it)
        if k in ('text', 'str'):
            if str(it).isspace():
                continue
            out.append(('text', str(it)))
        else:
            out.append(('node', id(it)))
    return out


def check_node(node, root, case, stats):
    contents = node.contents
    got = [key(c) for c in contents]
    want = expected_contents(node.expr)
    if got != want:
        raise H.Violation('C04:contents', case, 'node %r: contents %r, expr.all without blank text %r' % (
            str(node)[:60], [str(c)[:20] for c in contents], [str(x)[:20] for x in node.expr.all]))
    children = node.children
    if [key(c) for c in children] != [k for k in got if k[0] == 'node']:
        raise H.Violation('C04:children', case, 'node %r: children %r vs contents %r' % (
            str(node)[:60], [str(c)[:20] for c in children], [str(c)[:20] for c in contents]))
    if [key(c) for c in list(node)] != got:
        raise H.Violation('C04:iteration', case, 'iter(node) differs from contents for %r' % str(node)[:60])
    n = len(contents)
    for i in list(range(-n, n)):
        if key(node[i]) != got[i]:
            raise H.Violation('C04:indexing', case, 'node[%d] is %r, contents[%d] is %r' % (i, str(node[i])[:30], i, str(contents[i])[:30]))
    for sl in (slice(None), slice(1, None), slice(None, -1), slice(-2, None), slice(1, 3), slice(None, None, 2), slice(0, n), slice(n, None),
               slice(None, None, -1), slice(-1, 0, -2)):
        try:
            part = node[sl]
        except Exception as e:  # noqa - slices are indexing too
            raise H.Violation('C04:indexing', case, 'node[%r] raised %r' % (sl, e))
        if [key(c) for c in part] != got[sl]:
            raise H.Violation('C04:indexing', case, 'node[%r] gives %r, contents[%r] gives %r' % (
                sl, [str(c)[:20] for c in part], sl, [str(c)[:20] for c in list(contents)[sl]]))
    for i in (n, -n - 1):
        try:
            node[i]
        except IndexError:
            pass
        else:
            raise H.Violation('C04:indexing', case, 'node[%d] with %d contents did not raise IndexError' % (i, n))
    for c in list(contents) + list(children):
        if O.classify(c) == 'node' and c.parent is not node:
            raise H.Violation('C04:parent', case, 'parent of %r reached from %r is %r' % (str(c)[:40], str(node)[:40], str(c.parent)[:40]))
    # closure
    closure = []
    texts = []

    def walk(nd):
        for c in nd.contents:
            closure.append(key(c))
            if O.classify(c) == 'node':
                walk(c)
            else:
                texts.append(c)
    walk(node)
    desc = list(node.descendants)
    dk = [key(d) for d in desc]
    if sorted(dk) != sorted(closure):
        missing = [k for k in closure if k not in dk]
        extra = [k for k in dk if k not in closure]
        raise H.Violation('C04:descendants', case, 'node %r: descendants differ from closure of contents: missing %r extra %r (%d vs %d)' % (
            str(node)[:50], missing[:3], extra[:3], len(dk), len(closure)))
    ids = [k for k in dk if k[0] == 'node']
    if len(set(ids)) != len(ids):
        raise H.Violation('C04:descendants-duplicate', case, 'a node occurs twice in descendants of %r' % str(node)[:50])
    tv = node.text
    if [str(t) for t in tv] != [str(t) for t in texts]:
        raise H.Violation('C04:text', case, 'node %r: text view %r, non-blank leaves of the closure %r' % (
            str(node)[:50], [str(t)[:15] for t in tv], [str(t)[:15] for t in texts]))
    poss = [getattr(t, 'position', None) for t in tv]
    if all(isinstance(p, int) and p >= 0 for p in poss) and any(a >= b for a, b in zip(poss, poss[1:])):
        raise H.Violation('C04:text-order', case, 'text view of %r not in document order: offsets %r' % (str(node)[:50], poss))
    for d in desc:
        if O.classify(d) != 'node':
            continue
        p, hops = d, 0
        while p.parent is not None and hops < 200:
            p = p.parent
            hops += 1
        if p is not root:
            raise H.Violation('C04:parent-chain', case, 'walking parents from %r (a descendant of %r) ends at %r, not at the root' % (
                str(d)[:40], str(node)[:40], str(p)[:40]))
    if any(str(it).isspace() for it in node.expr.all if O.classify(it) in ('text', 'str')) and ids:
        stats.add('nt:blank-leaf-and-nested-node')
    if any(O.classify(c) not in ('text', 'str') for a in node.expr.args if O.classify(a) in ('{', '[') for c in O.body_of(a)):
        stats.add('nt:nodes-in-arguments')


def check_doc(nodes, src, case, res):
    soup = D.parse(src, 'C04', case)
    stats = set()
    whole = ''.join(map(str, soup.all))
    if whole != str(soup) or whole != src:
        raise H.Violation('C04:root-all', case, 'concatenated soup.all %r differs from the document' % whole[:200])
    for c in soup.all:
        if c.parent is not soup:
            raise H.Violation('C04:parent', case, 'parent of %r reached through soup.all is not the root' % str(c)[:40])
    todo = [soup] + [d for d in soup.descendants if O.classify(d) == 'node']
    for nd in todo[:60]:
        check_node(nd, soup, case, stats)
    if res is not None:
        res.hist['nodes-checked'] += min(len(todo), 60)
    return stats


def plan(ctx):
    shards = [('doc', PROFILES[i % len(PROFILES)], ctx.pick(600, 9000), i) for i in range(16)]
    shards += [('doc', 'flat', ctx.pick(12, 300), 16), ('doc', 'wide', ctx.pick(150, 3000), 17)]
    return [('shard_docs', shards),
            ('shard_deep', [('deep', i, 8) for i in range(8)])]


DEEP_PARTS = ('parse', 'descendants')


def shard_deep(ctx, shard):
    # chains nested as deeply as the pinned tree can handle (vlib/deepchain.py); closed-form oracle
    return DC.shard('C04', DEEP_PARTS, shard[1], shard[2], H.Result())


def shard_docs(ctx, shard):
    _, profile, n, idx = shard
    H.import_repo()
    res = H.Result()
    D.doc_shard(ctx, profile, n, idx, check_doc, res,
                nontrivial=lambda nodes, kinds, depth, labels: any(l.startswith('nt:') for l in labels))
    return res


def replay(case):
    if case.get('sub') == 'deep-chain':
        return DC.replay('C04', DEEP_PARTS, case)
    check_doc(None, case['src'], dict(case), None)
