"""C05 - structural edits are local to the targeted node."""
from vlib import harness as H
from vlib import texgen as G
from vlib import oracles as O
from vlib import docrun as D

RULE = ('generated documents (twin profiles: names/texts from pools of 2 and duplicated subtrees, so that textually identical '
        'nodes are common); targets: a spread of the non-root nodes in bodies, items, groups, math and argument groups, and '
        'text leaves reached through .all; operations: delete, replace_with, parent.replace, parent.remove, insert at every '
        'index 0..len of every container that supports content (document, environments, groups, math, \\item), append; new '
        'material: 1..3 items, plain strings or copies of nodes of a separately parsed fragment. One fresh parse per edit. '
        'Oracle: str(soup) after the edit equals the splice of the source string at the target span / at the start offset '
        'of content element i; a refused operation (content operation on a command other than \\item, parent.remove of a '
        'child that lives in an argument) must leave the text unchanged. Non-trivial = the target has an identical twin '
        'before it, sits in an argument group, or the index is interior; distinct by (source, operation, target)'
        '. New material also includes empty strings among other items and 20 / 33 items in one call')
ASSUMPTIONS = [
    'spans come from the generator, never from TexSoup; only the insertion offsets use the tree\'s own split of a body into elements',
    'parent.remove(child) may refuse for a child of an argument group (remove is documented over the node\'s own contents)',
]
PROFILES = ['smalltwin', 'tinytwin', 'smalllists', 'tinytwin', 'smalltwin', 'smalldefs', 'tinytwin', 'wide']
FRAGMENT = '\\textbf{N}\\begin{q}z\\end{q}$m$\\w'
NEWS = [
    [('s', 'NEW')], [('s', ' new text ')], [('n', 0)], [('n', 1)], [('s', 'A'), ('n', 2)], [('n', 0), ('s', ' and '), ('n', 1)],
    [('n', 3), ('s', ' ')], [('s', '')], [('s', 'x'), ('s', 'y'), ('s', 'z')],
    [('s', '('), ('self', 0), ('s', ')')], [('self', 0), ('s', '!')],
    [('soup', '\\p\\q'), ('s', 'Z')], [('s', 'A'), ('soup', '\\p{1} and $m$'), ('n', 0)], [('soup', ''), ('s', 'E')],
    # an empty string among other items
    [('s', ''), ('s', 'X'), ('s', 'Y')], [('s', 'A'), ('s', ''), ('n', 0)], [('n', 1), ('s', ''), ('s', ''), ('s', 'Q')],
    # many items in one call
    [('s', 'w%d ' % i) for i in range(20)], [('n', i % 4) if i % 3 else ('s', '<%d>' % i) for i in range(33)],
]


def new_material(spec, target=None, target_text=''):
    """-> (list of objects to pass, their text) from a fresh fragment parse (no aliasing between edits)."""
    from TexSoup import TexSoup
    frag = None
    out = []
    text = ''
    for kind, v in spec:
        if kind == 's':
            out.append(v)
            text += v
        elif kind == 'self':
            if target is None:
                continue
            out.append(target)       # the replaced node itself, wrapped in new material
            text += target_text
        elif kind == 'soup':
            whole = TexSoup(v)      # a whole parsed fragment used as one new node
            out.append(whole)
            text += v
        else:
            if frag is None:
                frag = list(TexSoup(FRAGMENT).children)
            node = frag[v].copy()
            out.append(node)
            text += str(node)
    return out, text


def index_nodes(soup):
    by_pos = {}
    for d in soup.descendants:
        if O.classify(d) == 'node':
            p = d.position
            if isinstance(p, int) and p >= 0 and p not in by_pos:
                by_pos[p] = d
    return by_pos


def locate(soup, a):
    """The TexNode whose recorded position is `a`, by descending through the spans that contain it."""
    cur = soup
    for _ in range(200):
        nxt = None
        for c in cur.contents:
            if O.classify(c) != 'node':
                continue
            p = c.position
            if not isinstance(p, int) or p < 0:
                continue
            if p == a:
                return c
            if p < a < p + len(str(c)):
                nxt = c
        if nxt is None:
            return None
        cur = nxt
    return None


def targets_of(nodes):
    """[(syntax node, where)] for every reachable non-root construct."""
    out = []
    for n, depth, parent, where in G.walk(nodes):
        if n.kind in ('text', 'comment'):
            continue
        out.append((n, where, parent))
    return out


def fresh(src, case):
    return D.parse(src, 'C05', case)


def run_edit(src, op, a, b, newspec, case, where=None, index=None, cpos=None):
    """Apply one edit on a fresh parse and compare with the string splice."""
    soup = fresh(src, case)
    new, newtext = ([], '')
    if newspec is not None and op not in ('replace_with', 'parent.replace'):
        new, newtext = new_material(newspec)
    refused_ok = False
    try:
        if op in ('delete', 'replace_with', 'parent.replace', 'parent.remove'):
            t = locate(soup, a)
            if t is None or str(t) != src[a:b]:
                raise H.HarnessError('cannot locate target at %d in %r' % (a, src))
            if newspec is not None and op in ('replace_with', 'parent.replace'):
                new, newtext = new_material(newspec, target=t, target_text=src[a:b])
            if op == 'delete':
                t.delete()
                want = src[:a] + src[b:]
            elif op == 'replace_with':
                t.replace_with(*new)
                want = src[:a] + newtext + src[b:]
            elif op == 'parent.replace':
                t.parent.replace(t, *new)
                want = src[:a] + newtext + src[b:]
            else:
                refused_ok = where is not None and where.startswith('arg')
                t.parent.remove(t)
                want = src[:a] + src[b:]
        elif op in ('insert', 'append'):
            c = soup if cpos is None else locate(soup, cpos)
            if c is None:
                raise H.HarnessError('cannot locate container at %r' % cpos)
            if op == 'insert':
                c.insert(index, *new)
            else:
                c.append(*new)
            want = src[:a] + newtext + src[a:]
        elif op == 'refuse-insert':
            c = locate(soup, cpos)
            refused_ok = True
            try:
                c.insert(0, 'X')
            except TypeError:
                pass
            else:
                raise H.Violation('C05:content-op-on-command-accepted', case, 'insert on a command other than \\item did not raise TypeError')
            want = src
        else:
            raise H.HarnessError(op)
    except H.Violation:
        raise
    except H.HarnessError:
        raise
    except Exception as e:  # noqa
        if refused_ok and isinstance(e, (ValueError, TypeError)):
            got = str(soup)
            if got != src:
                raise H.Violation('C05:%s:refused-but-changed' % op, case, 'raised %r and left %r' % (e, got[:300]))
            return 'refused'
        raise H.Violation('C05:%s:raised-%s@%s' % (op, type(e).__name__, H.inner_frame(e)), case, repr(e)[:300])
    got = str(soup)
    if got != want:
        i = next((k for k in range(min(len(got), len(want))) if got[k] != want[k]), min(len(got), len(want)))
        raise H.Violation('C05:%s:not-local' % op, case,
                          'after the edit the document is %r, the splice of the source is %r (first difference at %d)' % (
                              got[max(0, i - 30):i + 40], want[max(0, i - 30):i + 40], i))
    return 'ok'


def containers_of(nodes, src, soup):
    """[(cpos or None, [offsets of content elements] + [end])] for containers that support content."""
    out = []
    by_pos = index_nodes(soup)

    def offsets(expr, start):
        offs = [start]
        for e in O.body_of(expr):
            offs.append(offs[-1] + len(str(e)))
        return offs

    out.append((None, offsets(soup.expr, 0)))
    for n, depth, parent, where in G.walk(nodes):
        if n.kind in ('env', 'list', 'group', 'math', 'item', 'verb') and n.bspan is not None:
            t = by_pos.get(n.span[0])
            if t is None:
                continue
            offs = offsets(t.expr, n.bspan[0])
            if offs[-1] != n.bspan[1]:
                continue   # the tree's elements do not tile the body (would be a C01 matter)
            out.append((n.span[0], offs))
    return out


def check_doc(nodes, src, case, res):
    labels = set()
    if len(src) > (900 if case.get('profile') == 'wide' else 500):
        if res is not None:
            res.excluded['document-longer-than-500-characters(cost)'] += 1
        return labels
    tg = targets_of(nodes)
    # targets with an identical twin before them first, then targets inside arguments, then a spread of the rest
    def twin_before(n):
        a, b = n.span
        return (b - a) > 1 and src.find(src[a:b]) < a
    tw = [t for t in tg if twin_before(t[0])]
    ar = [t for t in tg if not twin_before(t[0]) and t[1].startswith('arg')]
    rest = [t for t in tg if not twin_before(t[0]) and not t[1].startswith('arg')]
    chosen = tw[:7] + ar[:3] + rest[::max(1, len(rest) // 3)][:3]
    k = 0
    OPS = ('delete', 'replace_with', 'parent.replace', 'parent.remove')
    for ti, (n, where, parent) in enumerate(chosen):
        a, b = n.span
        twin = twin_before(n)
        for op in (OPS if twin and ti < 4 else ('delete', OPS[1 + ti % 3])):
            spec = NEWS[k % len(NEWS)] if 'replace' in op else None
            k += 1
            ecase = dict(case, op=op, target=[a, b], where=where, new=spec)
            r = run_edit(src, op, a, b, spec, ecase, where=where)
            if res is not None:
                res.hist['edit:%s:%s' % (op, r)] += 1
                if twin or where.startswith('arg'):
                    res.nontrivial.add(H.h64((src, op, a)))
        if twin:
            labels.add('nt:twin-before-target')
            if res is not None and where.startswith('arg'):
                res.hist['target:twin-and-in-argument'] += 1
        if where.startswith('arg'):
            labels.add('nt:target-in-argument')
    # text leaves through .all of the root
    soup = fresh(src, case)
    off = 0
    leaf_targets = []
    for i, nd in enumerate(soup.all):
        s = str(nd)
        if O.classify(nd.expr) == 'text' and s:
            leaf_targets.append((i, off, off + len(s)))
        off += len(s)
    for i, a, b in leaf_targets[::max(1, len(leaf_targets) // 3)][:3]:
        for op in ('delete', 'replace_with'):
            s2 = fresh(src, case)
            t = s2.all[i]
            spec = NEWS[k % len(NEWS)]
            k += 1
            new, newtext = new_material(spec)
            ecase = dict(case, op='leaf.' + op, target=[a, b], new=spec, leaf_index=i)
            try:
                if op == 'delete':
                    t.delete()
                    want = src[:a] + src[b:]
                else:
                    t.replace_with(*new)
                    want = src[:a] + newtext + src[b:]
            except Exception as e:  # noqa
                raise H.Violation('C05:leaf.%s:raised-%s@%s' % (op, type(e).__name__, H.inner_frame(e)), ecase, repr(e)[:300])
            if str(s2) != want:
                raise H.Violation('C05:leaf.%s:not-local' % op, ecase, 'document is %r, splice is %r' % (str(s2)[:300], want[:300]))
            if src.find(src[a:b]) < a:
                labels.add('nt:twin-before-target')
            if res is not None:
                res.hist['edit:leaf.%s:ok' % op] += 1
    # insert / append
    soup = fresh(src, case)
    conts = containers_of(nodes, src, soup)
    for cpos, offs in conts[::max(1, len(conts) // 4)][:5]:
        idxs = list(range(len(offs)))
        if len(idxs) > 5:
            idxs = [0, 1, len(idxs) // 2, len(idxs) - 2, len(idxs) - 1]
        for i in idxs:
            spec = NEWS[k % len(NEWS)]
            k += 1
            ecase = dict(case, op='insert', container=cpos, index=i, new=spec, offset=offs[i])
            run_edit(src, 'insert', offs[i], offs[i], spec, ecase, index=i, cpos=cpos)
            if 0 < i < len(offs) - 1:
                labels.add('nt:interior-index')
                if res is not None:
                    res.nontrivial.add(H.h64((src, 'insert', cpos, i)))
            if res is not None:
                res.hist['edit:insert:ok'] += 1
        spec = NEWS[k % len(NEWS)]
        k += 1
        ecase = dict(case, op='append', container=cpos, new=spec, offset=offs[-1])
        run_edit(src, 'append', offs[-1], offs[-1], spec, ecase, cpos=cpos)
        if res is not None:
            res.hist['edit:append:ok'] += 1
    # documented refusal: content operation on a command other than \item
    for n, where, parent in chosen[:3]:
        if n.kind == 'cmd':
            ecase = dict(case, op='refuse-insert', container=n.span[0])
            run_edit(src, 'refuse-insert', 0, 0, None, ecase, cpos=n.span[0])
            if res is not None:
                res.hist['edit:refused-on-command'] += 1
    return labels


def plan(ctx):
    shards = [('doc', PROFILES[i % len(PROFILES)], ctx.pick(70, 1200), i) for i in range(16)]
    return [('shard_docs', shards)]


def shard_docs(ctx, shard):
    _, profile, n, idx = shard
    H.import_repo()
    res = H.Result()
    D.doc_shard(ctx, profile, n, idx, check_doc, res,
                nontrivial=lambda nodes, kinds, depth, labels: any(l.startswith('nt:') for l in labels),
                max_buckets=2, shrink_budget=40)
    res.evaluations = sum(v for k, v in res.hist.items() if k.startswith('edit:'))
    return res


def replay(case):
    src = case['src']
    op = case.get('op')
    c = dict(case)
    if op is None:
        return
    spec = case.get('new')
    spec = [tuple(x) for x in spec] if spec else None
    if op in ('delete', 'replace_with', 'parent.replace', 'parent.remove'):
        a, b = case['target']
        run_edit(src, op, a, b, spec, c, where=case.get('where'))
    elif op == 'insert':
        run_edit(src, 'insert', case['offset'], case['offset'], spec, c, index=case['index'], cpos=case.get('container'))
    elif op == 'append':
        run_edit(src, 'append', case['offset'], case['offset'], spec, c, cpos=case.get('container'))
    elif op == 'refuse-insert':
        run_edit(src, 'refuse-insert', 0, 0, None, c, cpos=case['container'])
    elif op.startswith('leaf.'):
        from TexSoup import TexSoup
        a, b = case['target']
        s2 = TexSoup(src)
        t = s2.all[case['leaf_index']]
        new, newtext = new_material(spec)
        if op == 'leaf.delete':
            t.delete()
            want = src[:a] + src[b:]
        else:
            t.replace_with(*new)
            want = src[:a] + newtext + src[b:]
        if str(s2) != want:
            raise H.Violation('C05:%s:not-local' % op, case, 'document is %r' % str(s2)[:300])
