"""C14 - renaming, re-stringing and re-argumenting change exactly that part."""
import re

from vlib import harness as H
from vlib import texgen as G
from vlib import oracles as O
from vlib import docrun as D

RULE = ('generated documents (twin profile with a strict separator after every command); targets: commands of the plain '
        'pool, \\item, plain / list / math environments (math -> math names only); operations on a fresh parse each: '
        'name = new identifier; string = s on commands with exactly one group and on environments whose only content is '
        'one text (incl. verbatim); args = reversed / prefix / slice / permutation (new TexArgs), in-place args.reverse(), '
        're-assignment of the node\'s own list object. Oracle: the syntax tree is edited and re-rendered - str(soup) must '
        'equal it (both \\begin and \\end for an environment, nothing else); find_all(new) contains the target and '
        'count(old) dropped by one; re-parsing the new text gives the canonical tree of the edited syntax tree (when the '
        'new argument order is within the shape the parser attaches). Non-trivial = the target has a same-named twin '
        'elsewhere, is nested >=2 deep, or the operation reorders >=2 groups; distinct by (source, operation, target)'
        '. Operations also include repeated renames with run-time names, sorts with tie-producing keys and reverse=True, and argument lists constructed from iterators and from edited lists')
ASSUMPTIONS = [
    'after renaming \\item only the text and the search are judged (re-parsing reads an item body differently by design)',
    'argument orders outside [..]*{..}*[..]*{..}* are judged on text and search only',
]
PROFILES = ['strict', 'strict', 'strict', 'strict']
NEW_CMD = ['zeta', 'RR', 'newname']
NEW_ENV = ['box', 'frame']
NEW_MATH = ['gather', 'multline*', 'equation']
STRINGS = ['S', 'new text', 'a.b']
PLAIN_TEXT = re.compile(r'^[^\\\[\]{}$%&#^_~]+$')


def edited_render(nodes, n, apply, revert):
    apply()
    try:
        return G.text_of(nodes), G.canon(nodes)
    finally:
        revert()


def shape_ok(args):
    kinds = ''.join('b' if a.kind == '[' else 'B' for a in args if a.kind != 'cmdarg')
    return re.fullmatch(r'b*B*b*B*', kinds) is not None and all(a.kind != 'cmdarg' for a in args)


def candidates(nodes):
    out = []
    for n, depth, parent, where in G.walk(nodes):
        if n.kind == 'cmd' and not n.sig and not n.special and n.name in G.CMD_NAMES + G.MATH_CMD_NAMES:
            out.append((n, depth, 'cmd'))
        elif n.kind == 'item':
            out.append((n, depth, 'item'))
        elif n.kind in ('env', 'list'):
            out.append((n, depth, 'mathenv' if n.math else 'env'))
        elif n.kind == 'verb':
            out.append((n, depth, 'verb'))
    return out


def run_op(nodes, src, n, kind, op, arg, case):
    """Apply op to the TexSoup node at n.span[0] of a fresh parse; compare with the edited syntax tree."""
    soup = D.parse(src, 'C14', case)
    t = D.locate(soup, n.span[0])
    if t is None or str(t) != src[n.span[0]:n.span[1]]:
        raise H.HarnessError('cannot locate target at %d in %r' % (n.span[0], src))
    old_name = n.name if n.kind != 'item' else 'item'
    reparse = True
    search_new = None
    delim_search = False
    try:
        if op == 'rename-sequence':
            # several renames in a row (names built at run time), a read in between, the last one counts
            old_count = soup.count(old_name)
            first = ''.join([arg[:3], 'a'])
            t.name = first
            str(soup)
            t.name = 'lem'
            del first
            t.name = ''.join([arg[:3], 'b'])
            arg = arg[:3] + 'b'
            op = 'rename'
            case['arg'] = arg
        elif op == 'rename':
            old_count = soup.count(old_name)
            t.name = arg
        if op == 'rename':
            if n.kind == 'item':
                a = n.span[0]
                want_text = src[:a] + '\\' + arg + src[a + 5:]
                want_canon = None
                reparse = False
            else:
                saved = n.name
                want_text, want_canon = edited_render(nodes, n, lambda: setattr(n, 'name', arg), lambda: setattr(n, 'name', saved))
            search_new = (arg, old_name, old_count)
            delim_search = (n.kind in ('env', 'list'))
        elif op == 'string':
            t.string = arg
            if n.kind == 'cmd':
                a0 = n.args[0]
                saved = a0.body
                want_text, want_canon = edited_render(nodes, n, lambda: setattr(a0, 'body', [G.Node('text', text=arg)]),
                                                      lambda: setattr(a0, 'body', saved))
            elif n.kind == 'verb':
                saved = n.text
                want_text, want_canon = edited_render(nodes, n, lambda: setattr(n, 'text', arg), lambda: setattr(n, 'text', saved))
            else:
                saved = n.body
                want_text, want_canon = edited_render(nodes, n, lambda: setattr(n, 'body', [G.Node('text', text=arg)]),
                                                      lambda: setattr(n, 'body', saved))
        elif op.startswith('args'):
            from TexSoup.data import TexArgs
            cur = list(t.args)
            k = len(cur)
            if op == 'args-reversed':
                order = list(range(k))[::-1]
                t.args = t.args[::-1]
            elif op == 'args-prefix':
                order = list(range(arg))
                t.args = t.args[:arg]
            elif op == 'args-tail':
                order = list(range(1, k))
                t.args = t.args[1:]
            elif op == 'args-step':
                order = list(range(0, k, 2))
                t.args = t.args[::2]
            elif op == 'args-permute':
                order = list(arg)
                t.args = TexArgs([cur[i] for i in order])
            elif op == 'args-reverse-inplace':
                order = list(range(k))[::-1]
                t.args.reverse()
            elif op == 'args-reverse-reassign-own-list':
                order = list(range(k))[::-1]
                a = t.args
                a.reverse()
                t.args = a
            elif op == 'args-reassign-identity':
                order = list(range(k))
                t.args = t.args
            elif op == 'args-from-reversed-iterator':
                order = list(range(k))[::-1]
                t.args = TexArgs(reversed(cur))
            elif op == 'args-from-generator':
                order = list(range(k))
                t.args = TexArgs(a for a in cur)
            elif op == 'args-fullslice-then-restore':
                # a full slice is an independent argument list: assigning it back later restores the original order
                order = list(range(k))
                saved = t.args[:]
                t.args.reverse()
                t.args = saved
            elif op == 'args-edit-unassigned-slice':
                order = list(range(k))
                part = t.args[0:k]
                if k:
                    part.pop()
            elif op == 'args-swap-ends-inplace':
                order = list(range(k))
                if k >= 2:
                    order[0], order[-1] = order[-1], order[0]
                    a = t.args
                    a[0], a[-1] = a[-1], a[0]
            elif op == 'args-slice-assign-inplace':
                order = list(range(k))[::-1]
                a = t.args
                a[:] = list(a)[::-1]
            elif op == 'args-sort-inplace':
                a = t.args
                order = sorted(range(k), key=lambda i: str(cur[i]))
                a.sort(key=str)
            elif op == 'args-sort-by-kind-descending':
                # a key with ties and reverse=True: list.sort keeps tied elements in their original order
                a = t.args
                order = sorted(range(k), key=lambda i: str(cur[i])[:1], reverse=True)
                a.sort(key=lambda g: str(g)[:1], reverse=True)
            elif op == 'args-sort-by-length-descending':
                a = t.args
                order = sorted(range(k), key=lambda i: len(str(cur[i])), reverse=True)
                a.sort(key=lambda g: len(str(g)), reverse=True)
            elif op == 'args-swap-then-copy-construct':
                order = list(range(k))
                if k >= 2:
                    order[0], order[-1] = order[-1], order[0]
                    a = t.args
                    a[0], a[-1] = a[-1], a[0]
                t.args = TexArgs(t.args)
            elif op == 'args-delete-then-copy-construct':
                order = list(range(1, k))
                a = t.args
                if k:
                    del a[0]
                t.args = TexArgs(t.args)
            elif op == 'args-iadd-self-slice':
                order = list(range(k)) + list(range(k))[:1]
                a = t.args
                a += list(a)[:1]
                t.args = TexArgs(t.args)
            else:
                raise H.HarnessError(op)
            saved = n.args
            newargs = [saved[i] for i in order]
            reparse = shape_ok(newargs) and n.kind != 'item'
            want_text, want_canon = edited_render(nodes, n, lambda: setattr(n, 'args', newargs), lambda: setattr(n, 'args', saved))
        else:
            raise H.HarnessError(op)
    except H.HarnessError:
        raise
    except Exception as e:  # noqa
        raise H.Violation('C14:%s:raised-%s@%s' % (op, type(e).__name__, H.inner_frame(e)), case, repr(e)[:300])
    got = str(soup)
    case['expected_text'] = want_text
    if got != want_text:
        i = next((k for k in range(min(len(got), len(want_text))) if got[k] != want_text[k]), min(len(got), len(want_text)))
        raise H.Violation('C14:%s:text' % op, case, 'document is %r, expected %r (first difference at %d)' % (
            got[max(0, i - 30):i + 40], want_text[max(0, i - 30):i + 40], i))
    if search_new is not None:
        new, old, old_count = search_new
        hits = soup.find_all(new)
        if not any(h.expr is t.expr for h in hits):
            raise H.Violation('C14:rename:not-found-under-new-name', case, 'find_all(%r) does not contain the renamed node' % new)
        if soup.count(old) != old_count - 1:
            raise H.Violation('C14:rename:old-name-count', case, 'count(%r) is %d, was %d before the rename' % (old, soup.count(old), old_count))
        if delim_search:
            if not any(h.expr is t.expr for h in soup.find_all('\\begin{%s}' % new)):
                raise H.Violation('C14:rename:opening-not-found-under-new-name', case, 'find_all(\\begin{%s}) does not contain the renamed environment' % new)
            if any(h.expr is t.expr for h in soup.find_all('\\begin{%s}' % old)):
                raise H.Violation('C14:rename:still-found-under-old-opening', case, 'find_all(\\begin{%s}) still returns the renamed environment' % old)
    if reparse and want_canon is not None:
        o = D.parse(got, 'C14:reparse', case)
        c = O.canon_tree(o)
        if c != want_canon:
            raise H.Violation('C14:%s:reparse' % op, case, 're-parsing the edited text: ' + (O.first_diff(c, want_canon) or ''))
    return True


def check_doc(nodes, src, case, res):
    labels = set()
    if len(src) > 500:
        if res is not None:
            res.excluded['document-longer-than-500-characters(cost)'] += 1
        return labels
    cands = candidates(nodes)
    names = [(c[0].name if c[0].kind != 'item' else 'item') for c in cands]
    chosen = cands[::max(1, len(cands) // 8)][:9]
    k = 0
    for n, depth, kind in chosen:
        ops = []
        nm = n.name if n.kind != 'item' else 'item'
        if kind == 'cmd':
            ops.append(('rename', NEW_CMD[k % 3]))
            if len(n.args) == 1 and n.args[0].kind != 'cmdarg':
                ops.append(('string', STRINGS[k % 3]))
        elif kind == 'item':
            ops.append(('rename', NEW_CMD[k % 3]))
        elif kind == 'env':
            ops.append(('rename', NEW_ENV[k % 2]))
            if k % 3 == 0:
                ops.append(('rename-sequence', ['thmx', 'corx', 'defx'][k % 3]))
            if not n.args and n.body and len(n.body) == 1 and n.body[0].kind == 'text' and PLAIN_TEXT.match(n.body[0].text) \
                    and n.body[0].text.strip():
                ops.append(('string', STRINGS[k % 3]))
        elif kind == 'mathenv':
            if not n.args:
                ops.append(('rename', [m for m in NEW_MATH if m != n.name][k % 2]))
        elif kind == 'verb':
            if not n.args and n.text.strip() and not G.ATTACH_RE.match(n.text):
                ops.append(('string', STRINGS[k % 3]))
        na = len(n.args)
        if kind in ('cmd', 'env', 'item') and na >= 1 and all(a.kind != 'cmdarg' for a in n.args):
            pool = [('args-reversed', None), ('args-prefix', na - 1), ('args-tail', None), ('args-reverse-inplace', None),
                    ('args-reverse-reassign-own-list', None), ('args-reassign-identity', None), ('args-step', None),
                    ('args-swap-ends-inplace', None), ('args-slice-assign-inplace', None), ('args-sort-inplace', None),
                    ('args-fullslice-then-restore', None), ('args-edit-unassigned-slice', None),
                    ('args-from-reversed-iterator', None), ('args-from-generator', None),
                    ('args-sort-by-kind-descending', None), ('args-sort-by-length-descending', None),
                    ('args-swap-then-copy-construct', None), ('args-delete-then-copy-construct', None)]
            if na >= 3:
                pool.append(('args-permute', tuple([1, 2, 0] + list(range(3, na)))))
            base = len(src) * 7 + k * 5          # rotate through the whole pool across documents and targets
            ops.append(pool[base % len(pool)])
            ops.append(pool[(base + 3) % len(pool)])
            ops.append(pool[(base + 7) % len(pool)])
        k += 1
        for op, arg in ops:
            ecase = dict(case, op=op, arg=arg, target=n.span[0])
            run_op(nodes, src, n, kind, op, arg, ecase)
            nt = names.count(nm) >= 2 or depth >= 2 or (op.startswith('args') and na >= 2 and op not in ('args-reassign-identity',))
            if res is not None:
                res.hist['edit:' + op] += 1
                if nt:
                    res.nontrivial.add(H.h64((src, op, n.span[0])))
            if nt:
                labels.add('nt:twin-or-nested-or-reorder')
    return labels


TRICKY_BODIES = ['\n\nText', ' (a) b', '  \n x', 'a\n\nb', ' &x', '\t(', 'plain', ' x ', '\n', ' ~y', 'a (b', '\n\n\nq', ' _i + 1', ' #1']
STRING_CONTEXTS = [('', ''), ('A ', ' Z'), ('\\begin{o}p ', ' q\\end{o}'), ('{g ', ' h}'), ('\\begin{itemize}\\item i ', ' j\\end{itemize}'),
                   ('\\c{u ', ' v}')]
STRING_TARGETS = [('env', '\\begin{e}', '\\end{e}'), ('env', '\\begin{equation}', '\\end{equation}'), ('env', '\\begin{verbatim}', '\\end{verbatim}'),
                  ('math', '$', '$'), ('cmd', '\\t{', '}'), ('cmd', '\\t[', ']')]


def check_string_case(ctx_i, tgt_i, body, new):
    from TexSoup import TexSoup
    pre, suf = STRING_CONTEXTS[ctx_i]
    kind, b, e = STRING_TARGETS[tgt_i]
    src = pre + b + body + e + suf
    case = {'src': src, 'sub': 'string-stage', 'op': 'string', 'arg': new, 'target': len(pre), 'ctx': ctx_i, 'tgt': tgt_i, 'body': body}
    soup = D.parse(src, 'C14', case)
    t = D.locate(soup, len(pre))
    if t is None:
        raise H.HarnessError('cannot locate target in %r' % src)
    cs = list(t.contents)
    if kind != 'cmd' and not (len(cs) == 1 and isinstance(cs[0], str)):
        return None     # the setter's documented precondition (exactly one text child) does not hold
    try:
        t.string = new
    except Exception as ex:  # noqa
        raise H.Violation('C14:string:raised-%s@%s' % (type(ex).__name__, H.inner_frame(ex)), case, repr(ex)[:200])
    want = pre + b + new + e + suf
    case['expected_text'] = want
    if str(soup) != want:
        raise H.Violation('C14:string:text', case, 'document is %r, expected %r' % (str(soup)[:200], want[:200]))
    got = t.string
    if str(got) != new:
        raise H.Violation('C14:string:readback', case, '.string reads back %r' % (got,))
    return case


def plan(ctx):
    return [('shard_strings', [('str', i, 8) for i in range(8)]),
            ('shard_docs', [('doc', 'strict', ctx.pick(140, 1500), i) for i in range(16)])]


def shard_strings(ctx, shard):
    _, idx, nshard = shard
    H.import_repo()
    res = H.Result()
    seen = set()
    count = 0
    for ci in range(len(STRING_CONTEXTS)):
        for ti in range(len(STRING_TARGETS)):
            for body in TRICKY_BODIES:
                for new in STRINGS:
                    count += 1
                    if count % nshard != idx:
                        continue
                    if STRING_TARGETS[ti][1].endswith('[') and ']' in body:
                        continue
                    if STRING_TARGETS[ti][2] == '\\end{verbatim}' and G.ATTACH_RE.match(body):
                        continue
                    try:
                        case = check_string_case(ci, ti, body, new)
                    except H.Violation as v:
                        if v.kind not in seen:
                            seen.add(v.kind)
                            res.violations.append(v.record())
                        continue
                    if case is None:
                        res.excluded['string-setter-precondition-not-met'] += 1
                        continue
                    res.case((case['src'], new), body != body.strip() or '\n' in body, sample=case['src'], classes=['string-stage:' + STRING_TARGETS[ti][0]])
                    res.hist['edit:string-stage'] += 1
    res.exhaustive['string assignment: contexts x targets x tricky bodies x new strings (this run)'] = count
    return res


def shard_docs(ctx, shard):
    _, profile, n, idx = shard
    H.import_repo()
    res = H.Result()
    D.doc_shard(ctx, profile, n, idx, check_doc, res,
                nontrivial=lambda nodes, kinds, depth, labels: any(l.startswith('nt:') for l in labels),
                max_buckets=2, shrink_budget=60)
    res.evaluations = sum(v for k, v in res.hist.items() if k.startswith('edit:'))
    return res


def replay(case):
    # the syntax tree is not stored in a replay file: re-derive the expected text for the recorded operation
    # from the recorded expectation
    from TexSoup import TexSoup
    src = case['src']
    if case.get('sub') == 'string-stage':
        check_string_case(case['ctx'], case['tgt'], case['body'], case['arg'])
        return
    if 'expected_text' not in case:
        return
    soup = TexSoup(src)
    t = D.locate(soup, case['target'])
    op, arg = case['op'], case.get('arg')
    if op == 'rename':
        t.name = arg
    elif op == 'string':
        t.string = arg
    elif op == 'args-reversed':
        t.args = t.args[::-1]
    elif op == 'args-reverse-reassign-own-list':
        a = t.args
        a.reverse()
        t.args = a
    elif op == 'args-reassign-identity':
        t.args = t.args
    elif op == 'args-reverse-inplace':
        t.args.reverse()
    if str(soup) != case['expected_text']:
        raise H.Violation('C14:%s:text' % op, case, 'document is %r' % str(soup)[:300])
