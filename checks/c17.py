"""C17 - the result depends only on the source text; parses are isolated."""
import hashlib
import io
import json
import os
import shutil
import subprocess
import sys
import tempfile

from vlib import harness as H
from vlib import texgen as G
from vlib import tokstr as T
from vlib import oracles as O
from vlib import docrun as D

RULE = ('(1) input forms: generated documents and alphabet strings passed as one str, every 2-chunk split (all split points '
        'for sources <=40 characters, a spread otherwise) as list / tuple / generator, drawn k-chunk splits with empty '
        'chunks, list of lines, list of single characters, io.StringIO and a real file: identical canonical tree, text, '
        'char_pos_to_line answers, and identical exception class when parsing fails; documents of 8 K .. 128 K characters '
        '(exact sizes around powers of two) as StringIO / file / lines / 4096-character chunks against the one-string parse. (2) hash seeds: a corpus (generated '
        'documents, alphabet strings and every sizing prefix x delimiter followed by each of | . ( a or nothing) is parsed '
        'in fresh interpreters with different PYTHONHASHSEED values; the digests of (outcome, tree, text) must agree. '
        '(3) isolation: histories that interleave parses of several sources (with different options: skip_envs, tolerance) '
        'and edits of the live trees (rename everything, clear arguments, append/insert, edit the coerced argument of a '
        'bare-token command): after every step a fresh default parse of every source gives its reference tree and text, '
        'untouched live trees are unchanged, and no two trees share an expression, argument list or content list object. '
        'Non-trivial = a chunk boundary inside a multi-character token, a corpus entry that consults the sizing table, a '
        'history with an edit or an option-carrying parse before a re-parse; distinct by source / history')
ASSUMPTIONS = ['hash-seed independence is sampled over 16 (quick) / 96 (thorough) seeds, not all 2^32']

HERE = os.path.dirname(os.path.dirname(os.path.abspath(__file__)))
CHILD = os.path.join(HERE, 'vlib', 'c17_child.py')


# ---------------------------------------------------------------- sub-check 1: input forms

def digest_of(src_form, n_chars=None, **kw):
    from TexSoup import TexSoup
    try:
        soup = TexSoup(src_form, **kw)
    except Exception as e:  # noqa - the class is what is compared
        return ('raise', type(e).__name__)
    txt = str(soup)
    lines = tuple(tuple(soup.char_pos_to_line(i)) for i in range(0, len(txt), max(1, len(txt) // 7))) if txt else ()
    return ('ok', O.canon_tree(soup), txt, lines)


def forms_of(src, extra_cuts):
    n = len(src)
    forms = []
    cuts = range(0, n + 1) if n <= 40 else sorted(set(range(0, n + 1, max(1, n // 10))) | set(extra_cuts))
    for i in cuts:
        forms.append(('list2@%d' % i, lambda i=i: [src[:i], src[i:]]))
        if i % 3 == 0:
            forms.append(('tuple2@%d' % i, lambda i=i: (src[:i], src[i:])))
        if i % 3 == 1:
            forms.append(('gen2@%d' % i, lambda i=i: (c for c in [src[:i], src[i:]])))
    ks = sorted(set(c for c in extra_cuts if 0 <= c <= n))
    if ks:
        pieces = [src[a:b] for a, b in zip([0] + ks, ks + [n])]
        forms.append(('chunks%r' % (ks,), lambda: list(pieces)))
        forms.append(('chunks+empties%r' % (ks,), lambda: [''] + [x for p in pieces for x in (p, '')]))
        forms.append(('gen-chunks%r' % (ks,), lambda: iter(pieces)))
    forms.append(('lines', lambda: src.splitlines(True)))
    forms.append(('chars', lambda: list(src)))
    forms.append(('stringio', lambda: io.StringIO(src)))
    return forms


def check_forms(src, extra_cuts, tmpdir, sub='forms'):
    ref = digest_of(src)
    case = {'src': src, 'sub': sub, 'cuts': list(extra_cuts)}
    for name, make in forms_of(src, extra_cuts):
        got = digest_of(make())
        if got != ref:
            raise H.Violation('C17:input-form:%s' % name.split('@')[0].split('[')[0].split('(')[0], dict(case, form=name),
                              'as %s the result is %r, as one string %r' % (name, _short(got), _short(ref)))
    # the options are part of the function's arguments: the input form must not change how they are applied
    ref1 = digest_of(src, tolerance=1)
    for name, make in (('lines', lambda: src.splitlines(True)), ('gen-chars', lambda: (c for c in src)),
                       ('stringio', lambda: io.StringIO(src))):
        got = digest_of(make(), tolerance=1)
        if got != ref1:
            raise H.Violation('C17:input-form:%s:tolerance=1' % name, dict(case, form=name, tolerance=1),
                              'with tolerance=1, as %s the result is %r, as one string %r' % (name, _short(got), _short(ref1)))
    sk = ('e', 'mycode')
    refs = digest_of(src, skip_envs=sk)
    got = digest_of(src.splitlines(True), skip_envs=sk)
    if got != refs:
        raise H.Violation('C17:input-form:lines:skip_envs', dict(case, form='lines', skip_envs=list(sk)),
                          'with skip_envs, as lines the result is %r, as one string %r' % (_short(got), _short(refs)))
    if tmpdir and '\r' not in src and '\x00' not in src:
        path = os.path.join(tmpdir, 'doc.tex')
        with open(path, 'w', encoding='utf-8', newline='') as f:
            f.write(src)
        try:
            with open(path, encoding='utf-8', newline='') as f:
                got = digest_of(f)
        except (UnicodeError, ValueError):
            got = ref
        if got != ref:
            raise H.Violation('C17:input-form:file', dict(case, form='file'),
                              'from an open file the result is %r, as one string %r' % (_short(got), _short(ref)))
    return ref[0]


def _short(d):
    s = repr(d)
    return s if len(s) < 300 else s[:300] + '...'


def multi_char_token_cut(src, cuts):
    for c in cuts:
        if 0 < c < len(src) and (src[c - 1:c + 1] in ('\\\\', '$$') or (src[c - 1] == '\\') or
                                 (src[c - 1].isalpha() and src[c].isalpha()) or src[c - 1:c + 1] in (' \n', '\n ')):
            return True
    return False


# ---------------------------------------------------------------- sub-check 2: hash seeds

def sizing_corpus():
    out = []
    for p in G.SIZE_PREFIX:
        for d in G.DELIMS:
            for follow in ('|', '.', '(', 'a', ''):
                out.append('$\\%s%s%s$' % (p, d, follow))
    return out


def run_child(args):
    seed, corpus_path, repo = args
    env = dict(os.environ, PYTHONHASHSEED=str(seed), VERIF_REPO=repo)
    r = subprocess.run([sys.executable, CHILD, corpus_path], env=env, capture_output=True, text=True)
    if r.returncode != 0:
        return seed, None, r.stderr[-800:]
    return seed, json.loads(r.stdout), ''


# ---------------------------------------------------------------- sub-check 3: isolation

SPECIALS = ['\\textbf x', 'see \\label key', '\\section[short] Title', '\\def\\x y',
            '\\begin{note}a \\textbf{b} and $x$\\end{note} tail', '\\begin{e}\\left.| \\x{a}\\end{e}',
            '\\begin{mycode}a {b} $c$\\end{mycode}',
            # sizing prefixes with delimiters outside the table, next to ones inside it; zero-arity commands
            '$\\left\\| v \\right\\| \\leq \\left\\lvert x \\right\\rvert \\big\\lbrace \\bigg\\lVert$',
            '$\\left\\{ x \\mid x \\right\\} \\left\\langle a \\right\\rangle \\left\\lfloor b \\right\\rfloor \\big\\lbrack \\bigg\\langle$',
            '\\noindent a $x \\cup y \\in z \\cap \\infty \\notin w$',
            # uses of commands that a later source declares
            '$\\argmaxx {x} \\opp [y]{z}$ \\mymac {a}[b] \\begin{mythm}[t] c\\end{mythm}',
            # declarations that a parser must not remember for later parses (kept LAST: references of the other
            # sources are taken before this one is parsed for the first time)
            '\\lstnewenvironment{mycode}{}{} \\newenvironment{note}{}{} \\DefineVerbatimEnvironment{e}{Verbatim}{} \\newcommand{\\x}[1]{#1}'
            ' \\DeclareMathOperator{\\argmaxx}{arg\\,max} \\DeclareMathOperator*{\\opp}{op} \\newtheorem{mythm}{Theorem} \\def\\mymac#1{#1}'
            ' \\DeclareRobustCommand{\\mymac}{m} \\NewDocumentCommand{\\mymac}{m}{#1} \\let\\opp\\argmaxx \\makeatletter \\catcode`\\@=11'
            + ''.join(' \\%s{\\argmaxx}{\\opp} \\%s*{mythm}' % (n, n) for n in G.EXTRA_NAMES)]
MALFORMED = ['\\begin{e}a {b} $c$', 'a {b \\x[c', '$a \\x{b}', '\\begin{e}\\begin{f}x\\end{e}', '\\begin{itemize}\\item a\\end{enumerate}', '}',
             '\\section{' * 400]
DEEP_LEVELS = 1400
DEEP_SOURCE = '{' * DEEP_LEVELS + 'a' + '}' * DEEP_LEVELS
OPTIONS = [{}, {'skip_envs': ('note',)}, {'skip_envs': ('mycode', 'e')}, {'tolerance': 1}, {'skip_envs': ('note', 'mycode'), 'tolerance': 1},
           {'skip_envs': ('e',)}, {'skip_envs': ('mycode',)}, {'skip_envs': ('e', 'note')}]


def fresh_options(o):
    return {k: (tuple(''.join(list(x)) for x in v) if isinstance(v, tuple) else v) for k, v in o.items()}


def object_ids(soup):
    ids = {}
    root = soup.expr
    stack = [root]
    while stack:
        e = stack.pop()
        if O.classify(e) in ('text', 'str'):
            continue
        ids[id(e)] = 'expr ' + type(e).__name__
        ids[id(e.args)] = 'args of ' + type(e).__name__
        sh = getattr(e.args, 'all', None)
        if isinstance(sh, list):
            ids[id(sh)] = 'args.all'
        body = O.body_of(e)
        ids[id(body)] = 'content list of ' + type(e).__name__
        for a in e.args:
            stack.append(a)
        for c in body:
            stack.append(c)
    return ids


def mutate(soup, code):
    """Heavy-handed edits of a live tree; returns a label."""
    nodes = [d for d in soup.descendants if O.classify(d) == 'node']
    if code == 0:
        for d in nodes:
            if O.classify(d.expr) in ('cmd', 'env'):
                d.name = 'zz'
        return 'rename-all'
    if code == 1:
        for d in nodes:
            if O.classify(d.expr) in ('cmd', 'env'):
                d.args.clear()
        return 'clear-args'
    if code == 2:
        soup.append('APPENDED')
        soup.insert(0, 'INSERTED')
        return 'append+insert'
    if code == 3:
        for d in nodes:
            if O.classify(d.expr) == 'cmd':
                for a in d.args:
                    if O.classify(a) in ('{', '['):
                        a.string = 'EDITED'
        return 'edit-argument-strings'
    if code == 4:
        for d in nodes[:1]:
            d.delete()
        return 'delete-first'
    return None


def run_isolation(sources, refs, ops, case, res=None):
    """sources: list of str; refs: expected canonical tree per source (None -> taken from the first parse)."""
    from TexSoup import TexSoup
    live = []      # (source index, options index, soup, snapshot text, snapshot canon, edited?)
    flags = set()
    limit0 = sys.getrecursionlimit()
    optrefs = {}

    def deep_outcome():
        o = T.outcome(DEEP_SOURCE, 0)
        return o[0] if o[0] == 'ok' else o[1]
    deep0 = deep_outcome()

    def process_state(step):
        # a parse - successful or failed - leaves no process-wide trace that a later parse could feel
        if sys.getrecursionlimit() != limit0:
            raise H.Violation('C17:isolation:process-state', case, 'after step %d the interpreter recursion limit is %d, was %d' % (
                step, sys.getrecursionlimit(), limit0))
        d = deep_outcome()
        if d != deep0:
            raise H.Violation('C17:isolation:process-state', case, 'after step %d a %d-deep source gives %s, before the history %s' % (
                step, DEEP_LEVELS, d, deep0))

    def fresh_checks(step):
        trees = []
        for si, s in enumerate(sources):
            try:
                t = TexSoup(s)
            except Exception as e:  # noqa
                raise H.Violation('C17:isolation:fresh-parse-raises', case, 'after step %d parsing %r raises %r' % (step, s[:80], e))
            c = O.canon_tree(t)
            if refs[si] is None:
                refs[si] = c
            if str(t) != s and refs[si] is not None and si < len(sources) - len(SPECIALS):
                raise H.Violation('C17:isolation:fresh-text', case, 'after step %d source %r parses to %r' % (step, s[:80], str(t)[:80]))
            if c != refs[si]:
                raise H.Violation('C17:isolation:fresh-tree', case, 'after step %d a fresh default parse of %r differs from its reference: %s' % (
                    step, s[:80], O.first_diff(c, refs[si])))
            trees.append(t)
        # two parses of the same source share no mutable object; nor do they share with live trees
        t2 = TexSoup(sources[step % len(sources)])
        groups = [object_ids(t) for t in trees] + [object_ids(t2)] + [object_ids(l[2]) for l in live]
        seen = {}
        for gi, g in enumerate(groups):
            for k, what in g.items():
                if k in seen and seen[k][0] != gi:
                    raise H.Violation('C17:isolation:shared-object', case,
                                      'after step %d two trees share a %s' % (step, what))
                seen[k] = (gi, what)
        for si, oi, soup, txt, can, edited in live:
            if not edited:
                if str(soup) != txt or O.canon_tree(soup, skip=OPTIONS[oi].get('skip_envs', ())) != can:
                    raise H.Violation('C17:isolation:live-tree-changed', case,
                                      'after step %d an untouched tree of %r changed' % (step, sources[si][:80]))

    fresh_checks(0)
    # equal option VALUES give equal results whatever objects carry them: every ordered pair of same-shape skip lists,
    # back to back on the sources that contain such environments, each call with freshly built tuples
    sk_opts = [o for o in OPTIONS if set(o) == {'skip_envs'}]
    for si, s_ in enumerate(sources):
        if not any('\\begin{%s}' % nm in s_ for o in sk_opts for nm in o['skip_envs']):
            continue
        for oa in sk_opts:
            for ob in sk_opts:
                if oa is ob or len(oa['skip_envs']) != len(ob['skip_envs']):
                    continue
                outs = []
                for o in (oa, ob):
                    try:
                        outs.append(O.canon_tree(TexSoup(s_, **fresh_options(o)), skip=o['skip_envs']))
                    except (EOFError, TypeError, AssertionError) as e:
                        outs.append(('raise', type(e).__name__))
                key = ('pair', si, OPTIONS.index(ob))
                if key not in optrefs:
                    try:
                        optrefs[key] = O.canon_tree(TexSoup(s_, **ob), skip=ob['skip_envs'])
                    except (EOFError, TypeError, AssertionError) as e:
                        optrefs[key] = ('raise', type(e).__name__)
                if outs[1] != optrefs[key]:
                    raise H.Violation('C17:isolation:option-parse-differs', case,
                                      'parsing %r with %r directly after parsing it with %r differs from the same call made alone: %s' % (
                                          s_[:80], ob, oa, O.first_diff(outs[1], optrefs[key]) if isinstance(outs[1], tuple) and outs[1][:1] != ('raise',) else outs[1]))
                flags.add('back-to-back-different-options')
    for k, (code, a, b) in enumerate(ops):
        code = code % 4
        if code in (0, 1) and (a + b) % 5 == 0:
            # a parse that fails half-way
            try:
                TexSoup(MALFORMED[(a + b) // 5 % len(MALFORMED)], **OPTIONS[0 if code == 0 else (b % 2) * 2])
            except (EOFError, TypeError, AssertionError, RecursionError):
                flags.add('failed-parse-before-reparse')
            process_state(k + 1)
        if code in (0, 1):
            si = a % len(sources)
            oi = 0 if code == 0 else b % len(OPTIONS)
            try:
                # option values are built afresh for every call (as a caller would), never shared constants; directly
                # before it the same source is parsed with a DIFFERENT value of the same shape, whose objects are gone
                # by the time the second call builds its own
                if oi and 'skip_envs' in OPTIONS[oi]:
                    partners = [o for o in OPTIONS if 'skip_envs' in o and o is not OPTIONS[oi] and
                                len(o['skip_envs']) == len(OPTIONS[oi]['skip_envs']) and o.get('tolerance') == OPTIONS[oi].get('tolerance')]
                    if partners:
                        try:
                            TexSoup(sources[si], **fresh_options(partners[(a + b) % len(partners)]))
                        except (EOFError, TypeError, AssertionError):
                            pass
                        flags.add('back-to-back-different-options')
                soup = TexSoup(sources[si], **fresh_options(OPTIONS[oi]))
            except (EOFError, TypeError, AssertionError) as e:
                if oi and (si, oi) in optrefs and optrefs[(si, oi)] != ('raise', type(e).__name__):
                    raise H.Violation('C17:isolation:option-parse-differs', case,
                                      'step %d: parsing %r with %r raises %r, an earlier equal call did not' % (k, sources[si][:80], OPTIONS[oi], e))
                continue
            can = O.canon_tree(soup, skip=OPTIONS[oi].get('skip_envs', ()))
            if oi:
                # the same source with equal option VALUES held in long-lived objects gives the reference
                if (si, oi) not in optrefs:
                    try:
                        optrefs[(si, oi)] = O.canon_tree(TexSoup(sources[si], **OPTIONS[oi]), skip=OPTIONS[oi].get('skip_envs', ()))
                    except (EOFError, TypeError, AssertionError) as e:
                        optrefs[(si, oi)] = ('raise', type(e).__name__)
                if can != optrefs[(si, oi)]:
                    raise H.Violation('C17:isolation:option-parse-differs', case,
                                      'step %d: parsing %r with %r differs from the same call made with equal option values: %s' % (
                                          k, sources[si][:80], OPTIONS[oi], O.first_diff(can, optrefs[(si, oi)])))
            live.append([si, oi, soup, str(soup), can, False])
            if oi:
                flags.add('option-carrying-parse')
        elif code in (2, 3) and live:
            l = live[a % len(live)]
            try:
                lab = mutate(l[2], b % 5)
            except Exception:  # noqa - an edit may be refused; isolation is what is judged here
                lab = 'edit-raised'
            l[5] = True
            flags.add('edit-before-reparse')
        fresh_checks(k + 1)
    process_state(len(ops) + 1)
    return flags


# ---------------------------------------------------------------- plan

def plan(ctx):
    return [('shard_forms', [('forms', ctx.pick(30, 3000), i) for i in range(16)]),
            ('stage_hashseeds', [('hash', ctx.pick(16, 96), ctx.pick(700, 4000))]),
            ('shard_isolation', [('iso', ctx.pick(45, 1500), i) for i in range(16)]),
            ('shard_bigforms', [('big', size, form) for size in ctx.pick((8191, 8193, 65535, 65537, 131073), (8191, 8192, 8193, 65535, 65536, 65537, 131073, 262145, 300000))
                                for form in ('stringio', 'file', 'lines', 'gen-chunks-4096')])]


def shard_forms(ctx, shard):
    _, n, idx = shard
    H.import_repo()
    from hypothesis import strategies as st
    res = H.Result()
    tmp = tempfile.mkdtemp(prefix='c17forms.')
    try:
        if idx % 2 == 0:
            strat = st.tuples(G.wfdoc(['small', 'quick', 'lines', 'smalltwin'][idx // 2 % 4]).map(G.text_of),
                              st.lists(st.integers(0, 300), max_size=4))
        else:
            strat = st.tuples(st.lists(st.sampled_from(T.A_TOK + T.A_CAT), min_size=1, max_size=14).map(''.join),
                              st.lists(st.integers(0, 60), max_size=4))

        def prop(c):
            src, cuts = c
            cuts = sorted(set(x % (len(src) + 1) for x in cuts))
            out = check_forms(src, cuts, tmp)
            res.case(src, multi_char_token_cut(src, cuts) or len(src) <= 40, sample={'src': src[:200], 'cuts': cuts},
                     classes=['forms:' + out, 'forms:' + ('doc' if idx % 2 == 0 else 'string')])

        H.hyp_search(strat, prop, n, ctx.seed * 100 + idx, res, known=ctx.known, shrink_budget=300)
    finally:
        shutil.rmtree(tmp, ignore_errors=True)
    return res


def stage_hashseeds(ctx, shard):
    _, nseeds, ndocs = shard
    H.import_repo()
    import hypothesis
    from hypothesis import given, settings, HealthCheck, Phase, strategies as st
    res = H.Result()
    corpus = list(sizing_corpus())
    docs = []

    @hypothesis.seed(ctx.seed)
    @settings(max_examples=ndocs // 4, database=None, deadline=None, phases=[Phase.generate],
              suppress_health_check=list(HealthCheck))
    @given(G.wfdoc('small'))
    def collect(nodes):
        docs.append(G.text_of(nodes))
    collect()

    @hypothesis.seed(ctx.seed + 1)
    @settings(max_examples=ndocs, database=None, deadline=None, phases=[Phase.generate],
              suppress_health_check=list(HealthCheck))
    @given(st.lists(st.sampled_from(T.A_TOK + T.A_CAT + ['\\left', '\\big', '\\Bigg', '|', '.']), min_size=1, max_size=10))
    def collect2(syms):
        docs.append(''.join(syms))
    collect2()
    corpus += sorted(set(docs))
    tmp = tempfile.mkdtemp(prefix='c17hash.')
    try:
        path = os.path.join(tmp, 'corpus.json')
        json.dump(corpus, open(path, 'w'))
        seeds = list(range(16)) + [1000003 * k + ctx.seed for k in range(max(0, nseeds - 16))]
        import multiprocessing
        with multiprocessing.get_context('fork').Pool(16) as pool:
            outs = pool.map(run_child, [(s, path, H.REPO) for s in seeds])
    finally:
        shutil.rmtree(tmp, ignore_errors=True)
    ref_seed, ref, err = outs[0]
    if ref is None:
        raise H.HarnessError('hash-seed child failed: %s' % err)
    reported = set()
    for seed, dig, err in outs[1:]:
        if dig is None:
            raise H.HarnessError('hash-seed child %d failed: %s' % (seed, err))
        for i, (x, y) in enumerate(zip(ref, dig)):
            if x != y and 'hashseed' not in reported:
                reported.add('hashseed')
                res.violations.append({'kind': 'C17:hash-seed-dependent', 'case': {'src': corpus[i], 'sub': 'hashseed', 'seeds': [ref_seed, seed]},
                                       'detail': 'PYTHONHASHSEED=%d and %d give different results for %r' % (ref_seed, seed, corpus[i])})
    nsz = len(sizing_corpus())
    for i, s in enumerate(corpus):
        res.case(('hash', s), i < nsz or '\\left' in s or '\\big' in s or '\\Big' in s, sample={'src': s, 'seeds': len(seeds)},
                 classes=['hashseed:entry'])
    res.hist['hashseed:interpreters'] = len(seeds)
    res.hist['hashseed:comparisons'] = len(corpus) * (len(seeds) - 1)
    return res


big_source = D.big_source


def check_bigform(size, form, tmpdir):
    from TexSoup import TexSoup
    src = big_source(size)
    case = {'sub': 'bigforms', 'size': size, 'form': form, 'src': 'big_source(%d)' % size}

    def summary(x):
        try:
            soup = TexSoup(x)
        except Exception as e:  # noqa - the class is what is compared
            return ('raise', type(e).__name__)
        txt = str(soup)
        return ('ok', hashlib.sha1(txt.encode('utf-8', 'replace')).hexdigest(), len(txt), len(list(soup.children)),
                tuple(soup.char_pos_to_line(len(txt) * k // 5) for k in range(5)) if txt else ())

    ref = summary(src)
    if ref[0] != 'ok' or ref[2] != len(src):
        raise H.Violation('C17:big-source:does-not-round-trip', case, 'as one string: %r' % (ref[:3],))
    if form == 'stringio':
        got = summary(io.StringIO(src))
    elif form == 'lines':
        got = summary(src.splitlines(True))
    elif form.startswith('gen-chunks-'):
        k = int(form.rsplit('-', 1)[1])
        got = summary(src[i:i + k] for i in range(0, len(src), k))
    else:
        path = os.path.join(tmpdir, 'big.tex')
        with open(path, 'w', encoding='utf-8', newline='') as f:
            f.write(src)
        with open(path, encoding='utf-8', newline='') as f:
            got = summary(f)
    if got != ref:
        raise H.Violation('C17:input-form:%s:large' % form.split('-')[0], case,
                          'a document of %d characters read as %s gives %r, as one string %r' % (size, form, got, ref))
    return case


def shard_bigforms(ctx, shard):
    _, size, form = shard
    H.import_repo()
    res = H.Result()
    tmp = tempfile.mkdtemp(prefix='c17big.')
    try:
        try:
            case = check_bigform(size, form, tmp)
        except H.Violation as v:
            res.violations.append(v.record())
        else:
            res.case((size, form), True, sample={'size': size, 'form': form}, classes=['bigform:' + form, 'bigform-size>=%d' % (size // 65536 * 65536)])
    finally:
        shutil.rmtree(tmp, ignore_errors=True)
    return res


def shard_isolation(ctx, shard):
    _, n, idx = shard
    H.import_repo()
    from hypothesis import strategies as st
    res = H.Result()
    strat = st.tuples(G.wfdoc('tinytwin'), G.wfdoc('small'),
                      st.lists(st.tuples(st.integers(0, 3), st.integers(0, 20), st.integers(0, 20)), min_size=2, max_size=8))

    def prop(c):
        na, nb, ops = c
        a, b = G.text_of(na), G.text_of(nb)
        if len(a) + len(b) > 500:
            res.excluded['documents-too-long(cost)'] += 1
            return
        sources = [a, b] + SPECIALS
        refs = [G.canon(na), G.canon(nb)] + [None] * len(SPECIALS)
        case = {'sources': sources, 'ops': [list(o) for o in ops], 'sub': 'isolation', 'src': a}
        flags = run_isolation(sources, refs, ops, case, res)
        res.case((a, b, tuple(ops)), bool(flags), sample={'sources': [a[:80], b[:80]], 'ops': [list(o) for o in ops]},
                 classes=['iso:' + f for f in flags])

    H.hyp_search(strat, prop, n, ctx.seed * 100 + idx, res, known=ctx.known,
                 keyfn=lambda c: G.text_of(c[0]) + '|' + G.text_of(c[1]) + repr(c[2]), max_buckets=2, shrink_budget=100)
    return res


def replay(case):
    sub = case.get('sub')
    if sub == 'bigforms':
        tmp = tempfile.mkdtemp(prefix='c17big.')
        try:
            check_bigform(int(case['size']), case['form'], tmp)
        finally:
            shutil.rmtree(tmp, ignore_errors=True)
    elif sub == 'isolation':
        sources = case['sources']
        run_isolation(sources, [None] * len(sources), [tuple(o) for o in case['ops']], dict(case))
    elif sub == 'hashseed':
        tmp = tempfile.mkdtemp(prefix='c17hash.')
        try:
            path = os.path.join(tmp, 'corpus.json')
            json.dump([case['src']], open(path, 'w'))
            outs = [run_child((s, path, H.REPO)) for s in range(0, 24)]
        finally:
            shutil.rmtree(tmp, ignore_errors=True)
        if len({json.dumps(o[1]) for o in outs}) > 1:
            raise H.Violation('C17:hash-seed-dependent', case, 'results differ across PYTHONHASHSEED 0..23')
    else:
        tmp = tempfile.mkdtemp(prefix='c17forms.')
        try:
            check_forms(case['src'], case.get('cuts', []), tmp)
        finally:
            shutil.rmtree(tmp, ignore_errors=True)
