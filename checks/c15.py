"""C15 - any history of edits keeps the tree equal to a reference model."""
from vlib import harness as H
from vlib import texgen as G
from vlib import oracles as O
from vlib import docrun as D
from vlib import models as M

RULE = ('histories of up to N edit operations (delete, replace_with, parent.remove, insert before/after any child or at '
        'either end, append, rename, set string, argument-list append / insert / pop / remove / reverse / slice-assign) on '
        'generated documents (small twin profiles), with plain strings and copies of freshly parsed fragment nodes as new '
        'material; targets are addressed by path and re-fetched from the root at every step, so edits also hit previously '
        'inserted material and twins. The reference is a nested-list document built from the generating syntax tree and '
        'subjected to the same edits. After every step: str(soup)==model.render(); for every name of the model find_all '
        'returns exactly the model\'s occurrences (by text); descendants equal the closure of contents and every parent '
        'chain ends at the root; the text view equals the model\'s text leaves (modulo blank leaves). Non-trivial = the '
        'history edits inside or next to inserted material, or edits a node that has an identical twin; distinct by '
        '(source, operation list)'
        '. Histories also insert 17..40 items in one call and edit inserted text nodes through the wrapper kept at insertion time; search is also checked by the current opening delimiter of every environment')
ASSUMPTIONS = [
    '\\item is never a rename source or target (content support is decided by the name "item")',
    'parent.remove(child) is only exercised for children of the parent\'s own content list',
    'new nodes are copies of nodes of a fragment that is parsed afresh for each use (no aliasing)',
]

FRAG_SRC = ['\\textbf{N}', '\\begin{q}z\\end{q}', '$m$', '\\w', '\\x{\\y{a}}', '{g\\v}', '\\item[L] it']
STRINGS = ['T1', ' new ', 'x', '\n', 'b b']
NEW_NAMES = ['zeta', 'RR', 'bar', 'x']
NEW_ENV_NAMES = ['box', 'e', 'frame']
NEW_MATH_NAMES = ['gather', 'equation', 'align*']
ARG_STRINGS = ['{zz}', '[oo]', '{}', '{a}', '{{a}}']


def frag_model(i):
    T, C, E, Gp, Mm = M.MText, M.MCmd, M.MEnv, M.MGroup, M.MMath
    return [
        lambda: C('textbf', [Gp('{', [T('N')])]),
        lambda: E('q', [], [T('z')]),
        lambda: Mm('$', '$', [T('m')]),
        lambda: C('w', []),
        lambda: C('x', [Gp('{', [C('y', [Gp('{', [T('a')])])])]),
        lambda: Gp('{', [T('g'), C('v', [])]),
        lambda: C('item', [Gp('[', [T('L')])], [T(' it')]),
    ][i]()


def frag_real(i):
    from TexSoup import TexSoup
    soup = TexSoup(FRAG_SRC[i])
    return list(soup.children)[0].copy()


def material(codes, held=None):
    """codes: list of ints -> (real objects, model objects, has_node)"""
    real, model = [], []
    for c in codes:
        c = c % (len(STRINGS) + len(FRAG_SRC))
        if c < len(STRINGS):
            mt = M.MText(STRINGS[c])
            if held is not None and (c + len(codes)) % 3 == 0:
                # a freshly made text NODE; the caller keeps the wrapper and may edit through it later
                from TexSoup.data import TexNode, TexText
                w = TexNode(TexText(STRINGS[c]))
                held.append((w, mt))
                real.append(w)
            else:
                real.append(STRINGS[c])
            model.append(mt)
        else:
            i = c - len(STRINGS)
            real.append(frag_real(i))
            m = frag_model(i)
            m.inserted = True
            model.append(m)
    return real, model


def bulk(a, b, c):
    """Now and then one call brings in 17..40 items at once."""
    if (a + 2 * b + 3 * c) % 9:
        return []
    return [b + k * (c + 1) for k in range(16 + (a + c) % 25)]


def find_item(owner, target):
    """(list, index) of a model item (by identity) anywhere below owner, or None."""
    lists = [a.body for a in (getattr(owner, 'args', []) or []) if a.kind == 'group']
    if getattr(owner, 'body', None) is not None:
        lists.append(owner.body)
    for lst in lists:
        for i, it in enumerate(lst):
            if it is target:
                return lst, i
            if M.is_node(it):
                r = find_item(it, target)
                if r is not None:
                    return r
    return None


class Diverged(Exception):
    pass


def resolve(soup, path):
    """TexNode at a model path (steps: ('body', ord) | ('arg', k, ord))."""
    cur = soup
    for step in path:
        e = cur.expr
        if step[0] == 'body':
            lst = O.body_of(e)
            ordn = step[1]
        else:
            if step[1] >= len(e.args):
                raise Diverged('no argument %d at %r' % (step[1], str(cur)[:40]))
            lst = O.body_of(e.args[step[1]])
            ordn = step[2]
        cands = [x for x in lst if O.classify(x) not in ('text', 'str')]
        if ordn >= len(cands):
            raise Diverged('no child %d in %r' % (ordn, str(cur)[:40]))
        target = cands[ordn]
        nxt = None
        for c in cur.contents:
            if O.classify(c) == 'node' and c.expr is target:
                nxt = c
                break
        if nxt is None:
            raise Diverged('child %r not reachable through contents of %r' % (str(target)[:30], str(cur)[:30]))
        cur = nxt
    return cur


def real_index(node, mlist, mindex):
    """Index in the real content list that corresponds to model index `mindex` of `mlist`."""
    real = O.body_of(node.expr)
    # position relative to non-text neighbours: count non-text items before mindex
    before = sum(1 for it in mlist[:mindex] if M.is_node(it))
    if mindex >= len(mlist):
        return len(real)
    if M.is_node(mlist[mindex]):
        k = 0
        for j, x in enumerate(real):
            if O.classify(x) not in ('text', 'str'):
                if k == before:
                    return j
                k += 1
        raise Diverged('real list has fewer nodes than the model')
    return None    # a text position: not addressable independently of the text split


def invariants(soup, root, case, step):
    want = root.render()
    got = str(soup)
    if got != want:
        i = next((k for k in range(min(len(got), len(want))) if got[k] != want[k]), min(len(got), len(want)))
        raise H.Violation('C15:text', case, 'after step %d the document is %r, the model renders %r (first difference at %d)' % (
            step, got[max(0, i - 30):i + 40], want[max(0, i - 30):i + 40], i))
    # search
    for name, renders in sorted(M.names(root).items()):
        if '{' in name or '[' in name or name in ('math', 'displaymath', '$', '$$') or not name:
            continue
        try:
            found = sorted(str(f) for f in soup.find_all(name))
        except Exception as e:  # noqa
            raise H.Violation('C15:find_all:raised-%s@%s' % (type(e).__name__, H.inner_frame(e)), case,
                              'after step %d find_all(%r) raised %r' % (step, name, e))
        if found != sorted(renders):
            raise H.Violation('C15:search', case, 'after step %d find_all(%r) gives %r, the model has %r' % (
                step, name, found[:4], sorted(renders)[:4]))
    # an environment also answers to its current opening delimiter (and to no other)
    envs = {}
    for n, owner, lst, i, p in M.walk(root):
        if n.kind == 'env' and getattr(n, 'name', None) and n.name not in G.SKIP_BUILTIN:
            envs.setdefault(n.name, []).append(n.render())
    for name in sorted(envs)[:3]:
        q = '\\begin{%s}' % name
        try:
            found = sorted(str(f) for f in soup.find_all(q) if type(f.expr).__name__ == 'TexNamedEnv')
            cnt = soup.count(q)
        except Exception as e:  # noqa
            raise H.Violation('C15:find_all:raised-%s@%s' % (type(e).__name__, H.inner_frame(e)), case,
                              'after step %d find_all(%r) raised %r' % (step, q, e))
        want_env = sorted(r for r in envs[name] if r.startswith(q))
        if found != want_env or cnt < len(want_env):
            raise H.Violation('C15:search-by-opening', case, 'after step %d find_all(%r) gives %d environments, the model has %d' % (
                step, q, len(found), len(want_env)))
    for stale in sorted(case.get('_old_env_names', ()))[:2]:
        if stale not in envs and '{' not in stale:
            q = '\\begin{%s}' % stale
            if [f for f in soup.find_all(q) if O.classify(f) == 'node' and type(f.expr).__name__ == 'TexNamedEnv' and not str(f).startswith(q)]:
                raise H.Violation('C15:search-by-opening', case, 'after step %d find_all(%r) still returns a renamed environment' % (step, q))
    # navigation consistency
    try:
        desc = list(soup.descendants)
    except Exception as e:  # noqa
        raise H.Violation('C15:descendants:raised-%s@%s' % (type(e).__name__, H.inner_frame(e)), case, repr(e)[:200])
    closure = []

    def walk(nd):
        for c in nd.contents:
            if O.classify(c) == 'node':
                closure.append(id(c.expr))
                walk(c)
    walk(soup)
    dn = [d for d in desc if O.classify(d) == 'node']
    if sorted(id(d.expr) for d in dn) != sorted(closure):
        raise H.Violation('C15:descendants', case, 'after step %d descendants (%d nodes) differ from the closure of contents (%d)' % (
            step, len(dn), len(closure)))
    for d in dn:
        p, hops = d, 0
        while p.parent is not None and hops < 300:
            p = p.parent
            hops += 1
        if p is not soup:
            raise H.Violation('C15:parent-chain', case, 'after step %d the parent chain of %r ends at %r' % (step, str(d)[:40], str(p)[:40]))
    # text view
    try:
        tv = ''.join(str(t) for t in soup.text)
    except Exception as e:  # noqa
        raise H.Violation('C15:text-view:raised-%s@%s' % (type(e).__name__, H.inner_frame(e)), case, repr(e)[:200])
    strip = lambda s: ''.join(s.split())
    mv = ''.join(M.text_leaves(root))
    if strip(tv) != strip(mv):
        raise H.Violation('C15:text-view', case, 'after step %d the text view is %r, the model\'s text leaves are %r' % (step, tv[:200], mv[:200]))
    # every node reachable through .all at the root is an expression wrapped in a node
    try:
        soup.all
    except Exception as e:  # noqa
        raise H.Violation('C15:root-all:raised-%s' % type(e).__name__, case, repr(e)[:200])


def apply_step(soup, root, op, case, k, flags):
    """Interpret one abstract operation; returns a description or None if not applicable."""
    code, a, b, c = op
    nodes = list(M.walk(root))
    conts = [(root, ())] + [(n, p) for n, owner, lst, i, p in nodes if getattr(n, 'body', None) is not None and
                            (n.kind != 'cmd' or n.name == 'item')]
    code = code % 15
    held = case.setdefault('_held', [])

    def pick_node(pred=lambda n, owner, lst, i, p: True):
        cands = [t for t in nodes if pred(*t)]
        if not cands:
            return None
        return cands[a % len(cands)]

    def note_target(n, lst):
        if getattr(n, 'inserted', False) or any(getattr(x, 'inserted', False) for x in lst):
            flags.add('edit-in-or-next-to-inserted-material')
        r = n.render()
        if sum(1 for x in lst if M.is_node(x) and x.render() == r) >= 2:
            flags.add('edit-on-node-with-identical-twin')

    if code == 0:       # delete
        t = pick_node()
        if t is None:
            return None
        n, owner, lst, i, p = t
        note_target(n, lst)
        resolve(soup, p).delete()
        del lst[i]
        return 'delete %r' % (p,)
    if code == 1:       # replace_with
        t = pick_node()
        if t is None:
            return None
        n, owner, lst, i, p = t
        note_target(n, lst)
        real, model = material([b, c][:1 + (b + c) % 2] + ([a] if (a + c) % 5 == 0 else []) + bulk(a, b, c))
        resolve(soup, p).replace_with(*real)
        lst[i:i + 1] = model
        return 'replace_with %r <- %d items' % (p, len(real))
    if code == 2:       # parent.remove
        t = pick_node(lambda n, owner, lst, i, p: p[-1][0] == 'body')
        if t is None:
            return None
        n, owner, lst, i, p = t
        note_target(n, lst)
        tn = resolve(soup, p)
        tn.parent.remove(tn)
        del lst[i]
        return 'parent.remove %r' % (p,)
    if code in (3, 4):  # insert / append
        owner, p = conts[a % len(conts)]
        cn = resolve(soup, p)
        real, model = material([b, c][:1 + c % 2] + bulk(a, b, c), held if code == 3 else None)   # only insert() links a kept wrapper to its new parent
        mlist = owner.body
        if code == 4:
            cn.append(*real)
            mlist.extend(model)
            desc = 'append %r' % (p,)
        else:
            slots = [0, len(mlist)] + [i for i, it in enumerate(mlist) if M.is_node(it)] + \
                    [i + 1 for i, it in enumerate(mlist) if M.is_node(it) and (i + 1 >= len(mlist) or M.is_node(mlist[i + 1]))]
            mi = slots[b % len(slots)]
            if mi == 0:
                ri = 0
            else:
                ri = real_index(cn, mlist, mi)
                if ri is None:
                    # after a node, before a text: address it as "after the previous node"
                    prev = real_index(cn, mlist, mi - 1)
                    if prev is None:
                        return None
                    ri = prev + 1
            cn.insert(ri, *real)
            mlist[mi:mi] = model
            desc = 'insert %r @%d' % (p, mi)
        if any(getattr(x, 'inserted', False) for x in mlist if x not in model):
            flags.add('edit-in-or-next-to-inserted-material')
        return desc
    if code == 13:      # move: insert a copy of an existing node elsewhere, then delete the original (documented idiom)
        t = pick_node()
        if t is None:
            return None
        n, owner, lst, i, p = t
        # another container (the same object twice in ONE list cannot be told apart by identity), not inside the node
        dests = [(o, dp) for o, dp in conts if dp[:len(p)] != p and o.body is not lst]
        if not dests:
            return None
        downer, dp = dests[b % len(dests)]
        mlist = downer.body
        slots = [0, len(mlist)] + [j for j, it in enumerate(mlist) if M.is_node(it)]
        mi = slots[c % len(slots)]
        tn = resolve(soup, p)
        cn = resolve(soup, dp)
        ri = 0 if mi == 0 else real_index(cn, mlist, mi)
        if ri is None:
            return None
        note_target(n, lst)
        cn.insert(ri, tn.copy())
        tn.delete()
        mlist.insert(mi, n)
        del lst[i]
        flags.add('move-by-copy-insert-delete')
        return 'move %r -> %r @%d' % (p, dp, mi)
    if code == 14:      # delete / replace an inserted text node through the wrapper that was kept at insertion time
        alive = []
        for w, mt in held:
            loc = find_item(root, mt)
            if loc is not None:
                alive.append((w, mt, loc))
        if not alive:
            return None
        w, mt, (lst, i) = alive[a % len(alive)]
        if b % 2:
            w.delete()
            del lst[i]
            desc = 'held text node.delete()'
        else:
            new = STRINGS[c % len(STRINGS)]
            w.replace_with(new)
            lst[i:i + 1] = [M.MText(new)]
            desc = 'held text node.replace_with(%r)' % new
        held[:] = [(x, y) for x, y in held if y is not mt]
        flags.add('edit-through-held-wrapper')
        if sum(1 for x in lst if x.kind == 'text' and x.s == mt.s) >= 1:
            flags.add('target-has-textual-twin')
        return desc
    if code == 5:       # rename
        t = pick_node(lambda n, owner, lst, i, p: n.kind in ('cmd', 'env') and n.name != 'item')
        if t is None:
            return None
        n, owner, lst, i, p = t
        note_target(n, lst)
        if n.kind == 'cmd':
            new = NEW_NAMES[b % len(NEW_NAMES)]
        elif n.name in G.MATH_ENVS:
            new = NEW_MATH_NAMES[b % len(NEW_MATH_NAMES)]
        else:
            new = NEW_ENV_NAMES[b % len(NEW_ENV_NAMES)]
        if n.kind == 'env':
            case.setdefault('_old_env_names', set()).add(n.name)
        resolve(soup, p).name = new
        n.name = new
        return 'rename %r -> %s' % (p, new)
    if code == 6:       # set string
        t = pick_node(lambda n, owner, lst, i, p: (n.kind == 'cmd' and len(n.args) == 1 and n.args[0].kind == 'group')
                      or (n.kind == 'env' and n.body is not None))
        if t is None:
            return None
        n, owner, lst, i, p = t
        tn = resolve(soup, p)
        s = STRINGS[b % 3]
        if n.kind == 'cmd':
            if len(tn.args) != 1:
                raise Diverged('argument count differs')
            tn.string = s
            n.args[0].body = [M.MText(s)]
        else:
            cs = list(tn.contents)
            if not (len(cs) == 1 and isinstance(cs[0], str)):
                return None       # documented precondition of the setter
            tn.string = s
            n.body = [M.MText(s)]
        note_target(n, lst)
        return 'string %r = %r' % (p, s)
    # argument-list operations
    t = pick_node(lambda n, owner, lst, i, p: n.kind in ('cmd', 'env') and all(x.kind == 'group' for x in n.args))
    if t is None:
        return None
    n, owner, lst, i, p = t
    tn = resolve(soup, p)
    if len(tn.args) != len(n.args):
        raise Diverged('argument count differs at %r' % (p,))
    note_target(n, lst)
    na = len(n.args)

    def marg(s):
        return M.MGroup(s[0], [M.MText(s[1:-1])] if s[1:-1] else [])

    if code == 7:
        s = ARG_STRINGS[b % len(ARG_STRINGS)]
        tn.args.append(s)
        n.args.append(marg(s))
        return 'args.append %r %s' % (p, s)
    if code == 8:
        s = ARG_STRINGS[b % len(ARG_STRINGS)]
        idx = [0, 1, -1, na, na + 2, -na - 2][c % 6]
        tn.args.insert(idx, s)
        n.args.insert(idx, marg(s))
        return 'args.insert %r %d %s' % (p, idx, s)
    if code == 9:
        if na == 0:
            return None
        idx = [None, 0, -1, na - 1][c % 4]
        if idx is None:
            tn.args.pop()
            n.args.pop()
        else:
            tn.args.pop(idx)
            n.args.pop(idx)
        return 'args.pop %r %r' % (p, idx)
    if code == 10:
        tn.args.reverse()
        n.args.reverse()
        return 'args.reverse %r' % (p,)
    if code == 11:
        lo, hi = sorted([b % (na + 1), c % (na + 1)])
        tn.args = tn.args[lo:hi]
        n.args = n.args[lo:hi]
        return 'args = args[%d:%d] %r' % (lo, hi, p)
    if code == 12:
        if na == 0:
            return None
        idx = b % na
        tn.args.remove(tn.args[idx])
        # a Python list removes the first element EQUAL to it: groups compare by text
        r = n.args[idx].render()
        for j, x in enumerate(n.args):
            if x.render() == r:
                del n.args[j]
                break
        return 'args.remove %r [%d]' % (p, idx)
    return None


def run_history(nodes, src, ops, case, res=None):
    from TexSoup import TexSoup
    case.pop('_held', None)
    case.pop('_old_env_names', None)
    soup = D.parse(src, 'C15', case)
    root = M.MRoot(M.from_syntax(nodes))
    flags = set()
    if root.render() != src:
        raise H.HarnessError('model does not render the source')
    invariants(soup, root, case, 0)
    done = []
    for k, op in enumerate(ops):
        case['done'] = done
        try:
            d = apply_step(soup, root, op, case, k, flags)
        except Diverged as e:
            raise H.Violation('C15:structure-diverged', case, 'step %d %r: the tree no longer has the shape of the model: %s' % (k + 1, op, e))
        except H.Violation:
            raise
        except H.HarnessError:
            raise
        except Exception as e:  # noqa
            raise H.Violation('C15:op:raised-%s@%s' % (type(e).__name__, H.inner_frame(e)), case,
                              'step %d %r raised %r after %r' % (k + 1, op, e, done[-3:]))
        if d is None:
            if res is not None:
                res.excluded['operation-not-applicable-in-this-state'] += 1
            continue
        done.append(d)
        invariants(soup, root, case, k + 1)
        if res is not None:
            res.hist['op:' + d.split(' ')[0]] += 1
    return flags, done


def tiny_docs():
    N, A = G.Node, G.Arg
    T = lambda s: N('text', text=s)
    return [
        [N('cmd', name='a', args=[A('{', [T('x')])]), N('cmd', name='b'), N('cmd', name='a', args=[A('{', [T('x')])])],
        [N('env', name='e', body=[N('cmd', name='c', args=[A('{', [T('y')])]), T('t'), N('cmd', name='c', args=[A('{', [T('y')])])])],
        [N('list', name='itemize', body=[N('item', body=[T(' a')]), N('item', body=[T(' a')])])],
        [N('group', body=[T('g'), N('cmd', name='x')]), N('math', delim='$', body=[T('m')])],
        [N('cmd', name='x', args=[A('[', [T('o')]), A('{', [N('cmd', name='y')]), A('{', [N('cmd', name='y')])])],
        [T('t')],
    ]


def small_ops():
    return [(code, a, b, 0) for code in range(15) for a in range(3) for b in range(2)]


def plan(ctx):
    depth = ctx.pick(2, 3)
    ops = small_ops()
    nfirst = len(ops)
    ex = [('ex', depth, d, i, 16) for d in range(len(tiny_docs()) if depth == 2 else 3) for i in range(16)]
    return [('shard_exhaustive', ex),
            ('shard_histories', [('h', ctx.pick(900, 4000), ctx.pick(14, 40), i) for i in range(16)])]


def shard_exhaustive(ctx, shard):
    import itertools
    _, depth, d, idx, nshard = shard
    H.import_repo()
    res = H.Result()
    ops = small_ops()
    seen = set()
    total = 0
    for count, seq in enumerate(itertools.product(ops, repeat=depth)):
        if count % nshard != idx:
            continue
        nodes = tiny_docs()[d]
        src = G.render(nodes)
        case = {'src': src, 'ops': [list(o) for o in seq], 'profile': 'tiny-exhaustive'}
        total += 1
        try:
            flags, done = run_history(nodes, src, list(seq), case)
        except H.Violation as v:
            if v.kind not in seen:
                seen.add(v.kind)
                res.violations.append(v.record())
            continue
        if len(done) < depth:
            res.excluded['sequence-with-inapplicable-operation'] += 1
            continue
        res.case((src, seq), bool(flags), sample={'src': src, 'history': done}, classes=['ex:doc%d' % d] + ['flag:' + f for f in flags])
    res.exhaustive['histories_depth=%d_over_%d_operation_codes_on_tiny_doc_%d(this run)' % (depth, len(ops), d)] = total
    return res


def shard_histories(ctx, shard):
    _, n, maxlen, idx = shard
    H.import_repo()
    from hypothesis import strategies as st
    res = H.Result()
    prof = ['tinytwin', 'smalltwin', 'tinytwin', 'smalllists', 'wide'][idx % 5]
    op = st.tuples(st.integers(0, 14), st.integers(0, 40), st.integers(0, 40), st.integers(0, 40))
    strat = st.tuples(G.wfdoc(prof), st.lists(op, min_size=2, max_size=maxlen))

    def prop(c):
        nodes, ops = c
        src = G.render(nodes)
        if len(src) > (800 if prof == 'wide' else 400):
            res.excluded['document-longer-than-400-characters(cost)'] += 1
            return
        case = {'src': src, 'ops': [list(o) for o in ops], 'profile': prof}
        flags, done = run_history(nodes, src, ops, case, res)
        res.case((src, tuple(ops)), bool(flags), sample={'src': src, 'history': done[:12]},
                 classes=['flag:' + f for f in flags] + ['len:%d' % (len(done) // 5 * 5)])

    H.hyp_search(strat, prop, n, ctx.seed * 100 + idx, res, known=ctx.known,
                 keyfn=lambda c: G.text_of(c[0]) + repr(c[1]), max_buckets=2, shrink_budget=150)
    return res


def replay(case):
    # the syntax tree is rebuilt by parsing the source with the generator's own... it is not available:
    # replay re-derives the model from the TexSoup tree of the source (C02 guarantees they agree on fresh parses)
    from TexSoup import TexSoup
    src = case['src']
    soup = TexSoup(src)
    nodes = _syntax_from_canon(O.canon_tree(soup))
    run_history(nodes, src, [tuple(o) for o in case['ops']], dict(case))


def _syntax_from_canon(c):
    out = []
    for it in c:
        k = it[0]
        if k in ('text', 'comment'):
            out.append(G.Node('text', text=it[1]))
        elif k == 'cmd':
            n = G.Node('item' if it[1] == 'item' else 'cmd', name=it[1], args=_args_from_canon(it[2]))
            if it[1] == 'item':
                n.body = _syntax_from_canon(it[3])
            out.append(n)
        elif k == 'env':
            out.append(G.Node('env', name=it[1], args=_args_from_canon(it[2]), body=_syntax_from_canon(it[3])))
        elif k == 'group':
            out.append(G.Node('group', body=_syntax_from_canon(it[2])))
        elif k == 'math':
            out.append(G.Node('math', delim=it[1], body=_syntax_from_canon(it[2])))
    return out


def _args_from_canon(args):
    res = []
    for a in args:
        if a[0] == 'cmdarg':
            res.append(G.Arg('cmdarg', name=a[1]))
        else:
            res.append(G.Arg(a[0], _syntax_from_canon(a[1])))
    return res
