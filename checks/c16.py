"""C16 - serialised output is a fixed point of the parser."""
from vlib import harness as H
from vlib import texgen as G
from vlib import tokstr as T
from vlib import oracles as O
from vlib import strrun as S
from vlib import docrun as D

RULE = ('C08\'s string domain (token and category alphabets exhaustive up to L, random strings, mutated documents) with '
        'the additional side condition that every sizing prefix is immediately followed by its delimiter, plus generated '
        'documents rendered with arbitrary attaching whitespace between commands and their arguments. Oracle: '
        't=str(parse(s)); parse(t) succeeds; str(parse(t))==t; the canonical tree of parse(t) equals that of parse(s); '
        'for spaced documents t equals the adjacent rendering of the same syntax tree and its tree equals the syntax '
        'tree. Non-trivial = t != s (the serialiser normalised something) or s is not well-formed; distinct by string'
        '. Also: all strings of <= 3 symbols over A_ENV and bracket / brace bodies that get shorter on output, at every size 1..700 and around 256 / 512 / 1024 characters')
ASSUMPTIONS = ['strings that do not parse in strict mode or that the lexical scanner cannot certify are skipped and counted']


def fixed_point(s, soup, case):
    t = str(soup)
    out2 = T.outcome(t, 0)
    if out2[0] != 'ok':
        raise H.Violation('C16:reparse-fails:%s' % out2[1], case,
                          'input %r -> %r, which does not parse again (%s)' % (s[:200], t[:200], out2[1]))
    t2 = str(out2[1])
    if t2 != t:
        raise H.Violation('C16:drift', case, 'input %r: first save %r, second save %r' % (s[:200], t[:200], t2[:200]))
    c1 = O.canon_tree(soup)
    c2 = O.canon_tree(out2[1])
    if c1 != c2:
        raise H.Violation('C16:shape', case, 'input %r saved as %r re-parses to another tree: %s' % (
            s[:200], t[:200], O.first_diff(c2, c1)))
    return t


def check_string(s, sub):
    reason = T.side_conditions(s, sizing=True)
    if reason:
        return False, False, ['side-condition:' + reason.split(':')[0]]
    out = T.outcome(s, 0)
    if out[0] != 'ok':
        return False, False, ['not-parseable:' + (out[1] if out[0] == 'reject' else 'leak(C06)')]
    t = fixed_point(s, out[1], {'src': s, 'sub': sub})
    bal = S.balanced(s)
    return True, (t != s) or not bal, (['output-differs'] if t != s else []) + ([] if bal else ['malformed-but-parses'])


def check_spaced_doc(nodes, src_unused, case, res):
    spaced = G.render(nodes, spaced=True)
    adjacent = G.text_of(nodes)
    case['src'] = spaced
    soup = D.parse(spaced, 'C16', case)
    t = fixed_point(spaced, soup, case)
    if t != adjacent:
        raise H.Violation('C16:spaced-normal-form', case,
                          'spaced document saved as %r, adjacent rendering of the same tree is %r' % (t[:300], adjacent[:300]))
    want = G.canon(nodes)
    got = O.canon_tree(soup)
    if got != want:
        raise H.Violation('C16:spaced-tree', case, O.first_diff(got, want) or 'trees differ')
    return ['spaced-doc'] + (['output-differs'] if t != spaced else [])


def plan(ctx):
    L = 3
    return [
        ('shard_enum', [('tok', 'A_TOK', L, i, 48) for i in range(48)] +
                       [('envname', 'A_ENV', 3, i, 8) for i in range(8)] +
                       [('cat', 'A_CAT', 3, i, 32) for i in range(32)] +
                       ([('tokcore', 'A_TOK_CORE', 4, i, 96) for i in range(96)] if ctx.thorough else [])),
        ('shard_random', [('rnd', ctx.pick(1500, 40000), i) for i in range(16)]),
        ('shard_mutations', [('mut', ctx.pick(4, 10), i) for i in range(16)]),
        ('shard_spaced', [('spaced', ctx.pick(300, 10000), i) for i in range(16)]),
        ('shard_runs', [('runs', i, 8) for i in range(8)]),
        ('shard_shrinking', [('shrink', i, 16) for i in range(16)]),
    ]


def shard_enum(ctx, shard):
    H.import_repo()
    return S.enum_shard(ctx, shard, check_string)


def shard_random(ctx, shard):
    H.import_repo()
    return S.random_shard(ctx, shard, check_string)


def shard_mutations(ctx, shard):
    H.import_repo()
    return S.mutation_shard(ctx, shard, check_string)


def shard_runs(ctx, shard):
    """Argument runs of 0..12 groups followed by blank lines / CR LF and a non-letter: every load-save round must
    be a fixed point (a reader that loses one blank per round only shows with two blank tokens)."""
    _, idx, nshard = shard
    H.import_repo()
    res = H.Result()
    seen = set()
    count = 0
    heads = ['\\x', '\\begin{e}', '\\item', '\\section', '\\x[o]', '\\noindent', '\\cup']
    for head in heads:
        for n in range(0, 13):
            for sep in ('\n\n', ' \n\n', '\r\n', '\n\n\n', ' \n \n ', '\r\n\n', '  '):
                for follow in ('{x}', '\\y', '$m$', '', '[z]', '%c\n'):
                    count += 1
                    if count % nshard != idx:
                        continue
                    s = head + ''.join('{a%d}' % k for k in range(n)) + sep + follow + ('\\end{e}' if head.startswith('\\begin') else '')
                    try:
                        judged, nt, labels = check_string(s, 'argument-run')
                    except H.Violation as v:
                        if v.kind not in seen:
                            seen.add(v.kind)
                            res.violations.append(v.record())
                        continue
                    if not judged:
                        for l in labels:
                            res.excluded[l] += 1
                        continue
                    res.case(s, True, sample=s, classes=['runs:%d-groups' % n])
    res.exhaustive['heads x 0..12 groups x separators x followers (this run)'] = count
    return res


def shrinking_documents():
    """Group bodies whose serialisation is SHORTER than their source (blanks before inner argument groups are dropped),
    at every size in a range: a decision taken from a distance / token count across such a body may flip on re-parsing."""
    for n in list(range(1, 40, 3)) + list(range(40, 140)) + list(range(140, 700, 23)) + [1000, 2100]:
        inner = '\\x {a}' * n
        yield '\\note[' + inner + ']{text}', 'bracket-body', n
        if n % 2:
            yield '\\note{k}[' + inner + '] t', 'late-bracket-body', n
            yield '\\begin{e}[' + inner + ']{k} b\\end{e}', 'env-bracket-body', n
            yield 'a {' + '\\x \n{a}' * n + '} b', 'brace-body', n
    for k in range(60, 140):
        yield '\\cite{key}[' + 'w' * k + '\\emph {a}] tail', 'late-bracket-chars', k
        yield '\\cite[' + 'w' * k + '\\emph {a} \\emph  {b}]{key} tail', 'bracket-chars', k
    for k in (250, 251, 252, 253, 254, 255, 256, 257, 258, 509, 510, 511, 512, 513, 1021, 1022, 1023, 1024, 1025):
        yield '\\cite{key}[' + 'w' * k + '\\emph {a}] tail', 'late-bracket-chars', k
        yield '\\cite[' + 'w' * k + '\\emph  {a}]{key} tail', 'bracket-chars', k


def shard_shrinking(ctx, shard):
    _, idx, nshard = shard
    H.import_repo()
    res = H.Result()
    seen = set()
    for k, (s, kind, n) in enumerate(shrinking_documents()):
        if k % nshard != idx:
            continue
        try:
            judged, nt, labels = check_string(s, 'shrinking-body')
        except H.Violation as v:
            if v.kind not in seen:
                seen.add(v.kind)
                res.violations.append(v.record())
            continue
        if not judged:
            for l in labels:
                res.excluded[l] += 1
            continue
        res.case(s, True, sample={'kind': kind, 'size': n, 'src': s[:80] + '...'}, classes=['shrinking:' + kind])
    return res


def shard_spaced(ctx, shard):
    _, n, idx = shard
    H.import_repo()
    res = H.Result()
    D.doc_shard(ctx, 'spaced', n, idx, check_spaced_doc, res,
                nontrivial=lambda nodes, kinds, depth, labels: 'output-differs' in labels)
    return res


def replay(case):
    s = case['src']
    out = T.outcome(s, 0)
    if out[0] != 'ok':
        return
    fixed_point(s, out[1], case)
