"""C06 - parsing is total: it terminates with a tree or a diagnostic error."""
from vlib import harness as H
from vlib import texgen as G
from vlib import tokstr as T

RULE = ('all strings over a category/word alphabet (40 symbols, exhaustive up to L1; 21-symbol core up to L2) and over '
        'a construct-token alphabet (46 tokens, exhaustive up to L3), random strings of up to 40 symbols, every prefix / '
        'single-character deletion / adjacent transposition / insertion of every category symbol at every position of '
        'generated well-formed documents, and chains of up to 40 nested constructs (closed, truncated at every depth, one '
        'closer removed); each in both tolerance modes under a 10 s watchdog (an expiry is re-run alone with 45 s; normal cost < 0.1 s). Oracle: the outcome is a tree whose str() '
        'returns, EOFError(...expecting...), TypeError(...Malformed argument...) or one of the two documented '
        'AssertionErrors. Non-trivial = the two modes do not both accept the input, or it nests >=3 deep; distinct by string'
        '. Also: all strings of <= 3 symbols over 31 written forms of environment delimiters (A_ENV), composite openers in the chains, and one symbol repeated 1025 (thorough 257..3000) times in 7 wrappers (all non-trivial)')
ASSUMPTIONS = [
    'a watchdog expiry (10 s) is re-run alone with 45 s before it is reported as a hang; after one confirmed hang further inputs get 3 s, '
    'hanging inputs are not minimised, and after 6 expiries a worker stops judging (the verdict is already fixed)',
    'nesting depth is bounded by 40 as in the statement (Python recursion limit is not the parser\'s contract)',
]

import os
import tempfile

WATCHDOG = 10.0
CONFIRM = 45.0
_HANGS = {'confirmed': 0, 'hits': 0}
MAX_HANG_HITS = 6


def _marker():
    # workers are forked from the runner: its pid identifies this run
    return os.path.join(tempfile.gettempdir(), 'verif-c06-hang.%d' % os.getppid())


def EXTRA(ctx, res):
    try:
        os.remove(os.path.join(tempfile.gettempdir(), 'verif-c06-hang.%d' % os.getpid()))
    except OSError:
        pass
    return {}


def check_string(s, sub, flags=None):
    outs = []
    if not _HANGS['confirmed'] and os.path.exists(_marker()):
        _HANGS['confirmed'] = 1          # another worker of this run has already confirmed a hang
    if _HANGS['hits'] >= MAX_HANG_HITS:
        return ['skipped-after-hangs', 'skipped-after-hangs']
    for tol in (0, 1):
        case = {'src': s, 'tolerance': tol, 'sub': sub}
        # once a hang has been confirmed in this process, further expiries are not re-run for 90 s each:
        # the verdict is already fixed and the remaining search must stay bounded
        first = WATCHDOG if not _HANGS['confirmed'] else 3.0
        try:
            out = H.with_watchdog(first, T.outcome, s, tol)
        except H.Timeout:
            _HANGS['hits'] += 1
            if _HANGS['confirmed']:
                raise H.Violation('C06:hang:tolerance%d' % tol, case, 'no result within %.0f s (a hang was already confirmed with %.0f s)' % (first, CONFIRM))
            try:
                out = H.with_watchdog(CONFIRM, T.outcome, s, tol)
            except H.Timeout:
                _HANGS['confirmed'] += 1
                try:
                    open(_marker(), 'w').close()
                except OSError:
                    pass
                raise H.Violation('C06:hang:tolerance%d' % tol, case, 'no result within %.0f s (normal cost of such inputs: < 0.1 s)' % CONFIRM)
        if out[0] == 'leak':
            raise H.Violation('C06:leak:%s@%s' % (out[1], H.inner_frame(out[2])), case,
                              'TexSoup(%r, tolerance=%d) raised %r' % (s[:200], tol, out[2]))
        if out[0] == 'ok':
            try:
                str(out[1])
            except Exception as e:  # noqa
                raise H.Violation('C06:leak-in-str:%s@%s' % (type(e).__name__, H.inner_frame(e)), case, repr(e)[:300])
        outs.append(out[0] if out[0] == 'ok' else out[1])
    return outs


def depth_of(s):
    d = m = 0
    for c in s:
        if c in '{[':
            d += 1
            m = max(m, d)
        elif c in '}]':
            d = max(0, d - 1)
    return m + s.count('\\begin')


def plan(ctx):
    L1, L2, L3 = ctx.pick((3, 3, 3), (3, 4, 3))
    stages = [
        ('shard_enum', [('cat', 'A_CAT', L1, i, 32) for i in range(32)] +
                       [('core', 'A_CORE', L2, i, 32) for i in range(32)] +
                       [('tok', 'A_TOK', 3, i, 32) for i in range(32)] +
                       [('envname', 'A_ENV', 3, i, 8) for i in range(8)] +
                       ([('tokcore', 'A_TOK_CORE', 4, i, 64) for i in range(64)] if ctx.thorough else [])),
        ('shard_random', [('rnd', ctx.pick(900, 40000), i) for i in range(16)]),
        ('shard_mutations', [('mut', ctx.pick(4, 8), i) for i in range(16)]),
        ('shard_chains', [('chain', ctx.pick(14, 600), i) for i in range(16)]),
        ('shard_runs', [('runs', i, 16, ctx.pick((1025,), RUN_LENGTHS)) for i in range(16)]),
    ]
    return stages


def _record(res, seen, v, symbols=None, joiner=''):
    if v.kind in seen:
        return
    seen.add(v.kind)
    if symbols is not None and not v.kind.startswith('C06:hang'):
        tol = v.case['tolerance']

        def fails(syms):
            try:
                check_string(joiner.join(syms), 'min')
            except H.Violation as w:
                return w.kind == v.kind
            return False
        v.case['src'] = joiner.join(H.ddmin(list(symbols), fails))
    res.violations.append(v.record())


def shard_enum(ctx, shard):
    name, alpha_name, L, idx, nshard = shard
    H.import_repo()
    alpha = getattr(T, alpha_name)
    res = H.Result()
    seen = set()
    total = 0
    for tup in T.enumerate_strings(alpha, L, idx, nshard):
        s = ''.join(tup)
        try:
            outs = check_string(s, 'enum:' + name)
        except H.Violation as v:
            _record(res, seen, v, tup)
            outs = ['violating', 'x']
        total += 1
        nt = outs != ['ok', 'ok'] or depth_of(s) >= 3
        res.case(s, nt, sample={'src': s, 'outcomes': outs},
                 classes=['enum:%s' % name, 'out:%s/%s' % tuple(outs)])
    res.exhaustive['%s_len<=%d_x_2_modes(this run)' % (alpha_name, L)] = total
    return res


def shard_random(ctx, shard):
    _, n, idx = shard
    H.import_repo()
    from hypothesis import strategies as st
    res = H.Result()
    alpha = st.sampled_from(T.A_CAT + T.A_TOK)
    strat = st.lists(alpha, min_size=5, max_size=40)

    def prop(syms):
        s = ''.join(syms)
        outs = check_string(s, 'random')
        res.case(s, outs != ['ok', 'ok'] or depth_of(s) >= 3, sample={'src': s, 'outcomes': outs},
                 classes=['random', 'out:%s/%s' % tuple(outs)])

    H.hyp_search(strat, prop, n, ctx.seed * 100 + idx, res, known=ctx.known, shrink_budget=600)
    return res


def shard_mutations(ctx, shard):
    _, ndocs, idx = shard
    H.import_repo()
    res = H.Result()
    seen = set()
    profiles = ['small', 'small', 'lists', 'smalltwin', 'quick']

    def prop(nodes):
        src = G.render(nodes)
        cap = 240 if ctx.thorough else 120
        if len(src) > cap:
            src = src[:cap]
        muts = T.mutations(src, T.A_CORE + ['\x7f', '\r', '#', '&', ')', '.', '~'],
                           limit=None if len(src) <= 30 else (400 if not ctx.thorough else 1000))
        for kind, pos, s in muts:
            try:
                outs = check_string(s, 'mutation:' + kind)
            except H.Violation as v:
                _record(res, seen, v, list(s))
                continue
            res.case(s, outs != ['ok', 'ok'] or depth_of(s) >= 3, sample={'src': s, 'outcomes': outs, 'mutation': kind},
                     classes=['mut:' + kind, 'out:%s/%s' % tuple(outs)])

    # the documents come from Hypothesis; each yields hundreds of mutants that are judged here
    H.hyp_search(G.wfdoc(profiles[idx % len(profiles)]), prop, ndocs, ctx.seed * 100 + idx, res,
                 known=ctx.known, keyfn=G.text_of)
    return res


OPEN_CLOSE = [('{', '}'), ('\\x{', '}'), ('\\x[', ']'), ('\\begin{e}', '\\end{e}'),
              ('\\begin{itemize}\\item ', '\\end{itemize}'), ('$\\text{', '}$'), ('\\begin{equation}', '\\end{equation}'),
              ('\\begin{align}\\text{', '}\\end{align}'), ('\\item[', ']'), ('\\[', '\\]'), ('\\textbf{', '}'),
              ('\\newcommand{\\f}{', '}'), ('\\begin{verbatim}', '\\end{verbatim}'),
              # an \\end whose name group itself holds an environment (mismatched at every level)
              ('\\begin{a}\\end{', '}'), ('\\x{\\begin{e}\\item[', ']\\end{e}}'), ('\\(', '\\)'), ('$$\\mbox{', '}$$'),
              ('\\x[', ']{a}'), ('\\left(\\frac{', '}{b}'),
              # an item whose body holds a command (a definition) whose argument holds the next item, and so on
              ('\\item a \\textbf{', '}'), ('\\item \\newcommand{\\x}{', '}'), ('\\item[', '] b \\x{'), ('\\section{\\item ', '}'),
              ('a \\x {', '} b'), ('\\begin{e}[', ']\\end{e}'), ('\\x{a}[', ']')]


def shard_chains(ctx, shard):
    _, n, idx = shard
    H.import_repo()
    from hypothesis import strategies as st
    res = H.Result()
    seen = set()
    strat = st.lists(st.integers(0, len(OPEN_CLOSE) - 1), min_size=3, max_size=40)

    def prop(chain):
        opens = [OPEN_CLOSE[i][0] for i in chain]
        closes = [OPEN_CLOSE[i][1] for i in reversed(chain)]
        variants = [(''.join(opens) + 'a' + ''.join(closes), 'closed')]
        for k in range(0, len(chain) + 1, max(1, len(chain) // 8)):
            variants.append((''.join(opens) + 'a' + ''.join(closes[:k]), 'truncated'))
        for k in range(0, len(chain), max(1, len(chain) // 8)):
            variants.append((''.join(opens) + 'a' + ''.join(closes[:k] + closes[k + 1:]), 'one-closer-removed'))
        for s, kind in variants:
            try:
                outs = check_string(s, 'chain:' + kind)
            except H.Violation as v:
                _record(res, seen, v)
                continue
            res.case(s, True, sample={'src': s[:300], 'outcomes': outs, 'depth': len(chain)},
                     classes=['chain:' + kind, 'chain-depth>=%d' % (len(chain) // 10 * 10), 'out:%s/%s' % tuple(outs)])

    # homogeneous chains: every opener alone at depths up to 40, closed / truncated / one closer short
    if idx < len(OPEN_CLOSE) or True:
        for i, (o, c) in enumerate(OPEN_CLOSE):
            if i % 16 != idx:
                continue
            for depth in (10, 20, 30, 40):
                for s, kind in ((o * depth + 'a' + c * depth, 'closed'), (o * depth, 'truncated'),
                                (o * depth + 'a' + c * (depth - 1), 'one-closer-removed'), (o * depth + c * (depth // 2), 'half-closed')):
                    try:
                        outs = check_string(s, 'homogeneous-chain:' + kind)
                    except H.Violation as v:
                        _record(res, seen, v)
                        continue
                    res.case(s, True, sample={'src': s[:120] + '...', 'outcomes': outs, 'depth': depth},
                             classes=['chain:homogeneous', 'chain-depth>=%d' % depth, 'out:%s/%s' % tuple(outs)])
    H.hyp_search(strat, prop, n, ctx.seed * 100 + idx, res, known=ctx.known)
    return res


RUN_SYMBOLS = [a for a in T.A_CAT if a not in ('{',)] + ['\\x', '{}', '[]', '$a$', '%c\n', '\\\\', '\\item ', '\\x{a}', '\\x ',
                                                          '\\(a\\)', 'a b\n\n', '}', '\\end{e}', '\\]', '\x00a', 'a\x7f']
RUN_WRAPS = ['%s', 'a%sb', '{%s}', '\\x%s', '\\begin{itemize}\\item %s\\end{itemize}', '$%s$', '\\begin{e}%s']
RUN_LENGTHS = (257, 1025, 1500, 3000)


def shard_runs(ctx, shard):
    """One symbol repeated hundreds to thousands of times, flat (no nesting): ends in a tree or a documented error."""
    _, idx, nshard, lengths = shard
    H.import_repo()
    res = H.Result()
    seen = set()
    k = 0
    for sym in RUN_SYMBOLS:
        for n in lengths:
            for wrap in RUN_WRAPS:
                k += 1
                if k % nshard != idx:
                    continue
                s = wrap % (sym * n)
                try:
                    outs = check_string(s, 'long-run')
                except H.Violation as v:
                    v.case['src'] = s if len(s) < 400 else s[:200] + '...'
                    v.case['run'] = {'symbol': sym, 'times': n, 'wrap': wrap}
                    _record(res, seen, v)
                    continue
                res.case((sym, n, wrap), True, sample={'symbol': sym, 'times': n, 'wrap': wrap, 'outcomes': outs},
                         classes=['run-length>=%d' % n, 'out:%s/%s' % tuple(outs)])
    return res


def replay(case):
    if case.get('run'):
        r = case['run']
        check_string(r['wrap'] % (r['symbol'] * int(r['times'])), case.get('sub', 'replay'))
        return
    check_string(case['src'], case.get('sub', 'replay'))
