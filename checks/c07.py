"""C07 - tolerant mode is a conservative extension that only inserts closers."""
from vlib import harness as H
from vlib import texgen as G
from vlib import tokstr as T
from vlib import oracles as O
from vlib import strrun as S
from vlib import docrun as D

RULE = ('(1) strings (token/category alphabets exhaustive up to L, random, mutated documents) and generated documents: '
        'whenever tolerance=0 succeeds, tolerance=1 succeeds with identical canonical tree and text. (2) generated '
        'documents without math/verbatim/list regions and without [ ] in text: for every group/argument/name-group "}", argument "]" '
        '(only the last "]" of the document) and every \\end{name}, delete it: strict parsing must raise a documented '
        'error, tolerant parsing must return; truncation points are further inputs for (3). '
        '(3) whenever tolerant parsing returns (strings satisfying C08\'s side conditions, and the faulted documents of '
        '(2)) the output aligns with the input allowing only inserted "}", "]", \\end{n} (n opened earlier in the output) '
        'and C08\'s blank removal. Non-trivial = strict fails and tolerant succeeds; distinct by string'
        '. Also: all strings of <= 3 symbols over A_ENV; the strict / tolerant comparison repeated under skip_envs; lost closers in flat documents thousands of tokens long')
ASSUMPTIONS = [
    'a "]" followed by a later "]" is not a lost closer (the later one takes over): counted, not judged',
]


def compare_modes(s, sub, need_side=True):
    """sub-checks 1 and 3 on one string -> (judged, nontrivial, labels)."""
    out0 = T.outcome(s, 0)
    out1 = T.outcome(s, 1)
    labels = []
    case = {'src': s, 'sub': sub}
    if out0[0] == 'leak' or out1[0] == 'leak':
        return False, False, ['leak(C06)']
    if out0[0] == 'ok':
        if out1[0] != 'ok':
            raise H.Violation('C07:strict-ok-tolerant-fails', case, 'strict parses, tolerant raises %s' % out1[1])
        if str(out0[1]) != str(out1[1]):
            raise H.Violation('C07:strict-tolerant-text-differs', case,
                              'strict %r, tolerant %r' % (str(out0[1])[:200], str(out1[1])[:200]))
        c0, c1 = O.canon_tree(out0[1]), O.canon_tree(out1[1])
        if c0 != c1:
            raise H.Violation('C07:strict-tolerant-tree-differs', case, O.first_diff(c1, c0) or '')
        labels.append('strict-ok')
    if sub in ('doc', 'enum:envname') or (len(s) % 16 == 0 and '\\begin{' in s):
        # the conservative-extension clause holds under every other option too: user-listed verbatim-like names
        sk = ('e', 'f', 'center', 'thm')
        o0 = T.outcome(s, 0, skip_envs=sk)
        if o0[0] == 'ok':
            o1 = T.outcome(s, 1, skip_envs=sk)
            if o1[0] != 'ok':
                raise H.Violation('C07:strict-ok-tolerant-fails:skip_envs', dict(case, skip_envs=list(sk)),
                                  'with skip_envs strict parses, tolerant raises %s' % o1[1])
            if str(o0[1]) != str(o1[1]) or O.canon_tree(o0[1], skip=sk) != O.canon_tree(o1[1], skip=sk):
                raise H.Violation('C07:strict-tolerant-differ:skip_envs', dict(case, skip_envs=list(sk)),
                                  'with skip_envs strict gives %r, tolerant %r' % (str(o0[1])[:200], str(o1[1])[:200]))
            labels.append('strict-ok:skip_envs')
    if out1[0] == 'ok':
        reason = T.side_conditions(s)
        if reason:
            labels.append('closers-only-skipped:' + reason.split(':')[0])
        else:
            t = str(out1[1])
            if not O.closers_only(s, t):
                raise H.Violation('C07:not-closers-only', case, 'tolerant output %r for input %r' % (t[:300], s[:300]))
            labels.append('closers-only-checked')
    else:
        labels.append('both-reject')
    nt = out0[0] != 'ok' and out1[0] == 'ok'
    if nt:
        labels.append('repaired')
    return True, nt, labels


def closer_sites(nodes, src):
    """[(kind, start, end)] of every closer of the document: '}' / ']' of groups and arguments, \\end{name}."""
    sites = []
    for n, d, p, w in G.walk(nodes):
        for a in n.args:
            if a.kind in '{[' and a.span:
                sites.append((a.kind, a.span[1] - 1, a.span[1]))
        if n.kind == 'group':
            sites.append(('{', n.span[1] - 1, n.span[1]))
        if n.kind in ('env', 'list'):
            sites.append(('end', n.bspan[1], n.span[1]))
            sites.append(('begin-name}', n.span[0] + len('\\begin{' + n.name), n.span[0] + len('\\begin{' + n.name) + 1))
            sites.append(('end-name}', n.span[1] - 1, n.span[1]))
    return sites


def check_faults(nodes, src, case, res):
    labels = set()
    # the document itself: sub-check 1
    compare_modes(src, 'doc')
    last_bracket = src.rfind(']')
    sites = closer_sites(nodes, src)
    cap = 40 if res is None or getattr(res, 'thorough', False) else 12
    if len(sites) > cap:
        sites = sites[::max(1, len(sites) // cap)]
    for kind, a, b in sites:
        if kind == '[' and a != last_bracket:
            if res is not None:
                res.excluded['bracket-deletion-with-later-bracket'] += 1
            continue
        s = src[:a] + src[b:]
        fcase = {'src': s, 'sub': 'lost-closer:' + kind, 'from': src}
        out0 = T.outcome(s, 0)
        if out0[0] == 'ok':
            raise H.Violation('C07:lost-closer-accepted-by-strict:' + kind, fcase,
                              'document %r without its %s at %d still parses in strict mode' % (src[:200], kind, a))
        if out0[0] == 'leak':
            continue
        out1 = T.outcome(s, 1)
        if out1[0] != 'ok':
            raise H.Violation('C07:lost-closer-not-tolerated:' + kind, fcase,
                              'tolerant parsing raised %s for %r' % (out1[1], s[:300]))
        t = str(out1[1])
        if not O.closers_only(s, t):
            raise H.Violation('C07:not-closers-only', fcase, 'tolerant output %r for input %r' % (t[:300], s[:300]))
        if (a + len(kind)) % 3 == 0:
            # the tolerance setting applies whatever form the source is passed in (list of lines, as from a file)
            out1b = T.outcome(s.splitlines(True), 1)
            if out1b[0] != 'ok' or str(out1b[1]) != t:
                raise H.Violation('C07:lost-closer-not-tolerated-for-line-list:' + kind, dict(fcase, form='lines'),
                                  'as a list of lines tolerant parsing gives %s, as one string it succeeds' % (
                                      out1b[1] if out1b[0] != 'ok' else repr(str(out1b[1])[:200])))
        labels.add('fault:' + kind)
        if a + (b - a) < len(src):
            labels.add('nt:closer-not-last')
        if res is not None:
            res.hist['faults:' + kind] += 1
    # truncations
    stride = max(1, len(src) // 20)
    for i in range(1, len(src), stride):
        s = src[:i]
        if s.endswith('\\') or S.balanced(s):
            continue
        if T.side_conditions(s):
            continue
        out1 = T.outcome(s, 1)
        if out1[0] == 'leak':
            continue
        # a prefix may end inside \begin{name / \end{nam: then it is not "a well-formed document cut short with a
        # construct left open" in the sense of the statement only if the cut is inside a control word
        if out1[0] != 'ok':
            # the statement promises tolerance for a lost closer, not for every cut (a cut inside \\begin{na..
            # or inside a math region is legitimately rejected): counted, and judged only when it returns
            if res is not None:
                res.hist['truncations-rejected:' + out1[1]] += 1
            continue
        if not O.closers_only(s, str(out1[1])):
            raise H.Violation('C07:not-closers-only', {'src': s, 'sub': 'truncation'},
                              'tolerant output %r for input %r' % (str(out1[1])[:300], s[:300]))
        if res is not None:
            res.hist['truncations'] += 1
    return labels


def plan(ctx):
    L = 3
    return [
        ('shard_enum', [('tok', 'A_TOK', L, i, 48) for i in range(48)] +
                       [('envname', 'A_ENV', 3, i, 8) for i in range(8)] +
                       [('core', 'A_CORE', ctx.pick(3, 4), i, 32) for i in range(32)] +
                       [('cat', 'A_CAT', ctx.pick(2, 3), i, 32) for i in range(32)] +
                       ([('tokcore', 'A_TOK_CORE', 4, i, 64) for i in range(64)] if ctx.thorough else [])),
        ('shard_random', [('rnd', ctx.pick(1200, 30000), i) for i in range(16)]),
        ('shard_mutations', [('mut', ctx.pick(3, 8), i) for i in range(16)]),
        ('shard_faults', [('faults', ctx.pick(32, 1200), i) for i in range(16)] +
                         [('longfaults', ctx.pick(3, 8), 16 + i) for i in range(4)]),
        ('shard_docs', [('docs', ctx.pick(80, 5000), i) for i in range(16)]),
    ]


def shard_enum(ctx, shard):
    H.import_repo()
    return S.enum_shard(ctx, shard, compare_modes)


def shard_random(ctx, shard):
    H.import_repo()
    return S.random_shard(ctx, shard, compare_modes)


def shard_mutations(ctx, shard):
    H.import_repo()
    return S.mutation_shard(ctx, shard, compare_modes)


def shard_faults(ctx, shard):
    which, n, idx = shard
    H.import_repo()
    res = H.Result()
    res.thorough = ctx.thorough
    D.doc_shard(ctx, 'nomath' if which == 'faults' else 'flatnomath', n, idx, check_faults, res,
                nontrivial=lambda nodes, kinds, depth, labels: any(l.startswith('fault:') for l in labels))
    return res


def shard_docs(ctx, shard):
    _, n, idx = shard
    H.import_repo()
    res = H.Result()

    def check(nodes, src, case, res_):
        judged, nt, labels = compare_modes(src, 'doc')
        return labels
    D.doc_shard(ctx, ['quick', 'lists', 'twin', 'defs'][idx % 4], n, idx, check, res)
    return res


def replay(case):
    sub = case.get('sub', '')
    s = case['src']
    if case.get('skip_envs'):
        compare_modes(s, 'doc')
        return
    if sub.startswith('lost-closer'):
        out0 = T.outcome(s, 0)
        out1 = T.outcome(s, 1)
        if out0[0] == 'ok':
            raise H.Violation('C07:lost-closer-accepted-by-strict', case, 'strict parses')
        if out1[0] != 'ok':
            raise H.Violation('C07:lost-closer-not-tolerated', case, 'tolerant raised %s' % out1[1])
        if not O.closers_only(s, str(out1[1])):
            raise H.Violation('C07:not-closers-only', case, str(out1[1])[:300])
        return
    if sub == 'truncation':
        out1 = T.outcome(s, 1)
        if out1[0] != 'ok':
            return
        if not O.closers_only(s, str(out1[1])):
            raise H.Violation('C07:not-closers-only', case, str(out1[1])[:300])
        return
    compare_modes(s, sub or 'replay')
