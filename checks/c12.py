"""C12 - math regions are delimited correctly and tolerate unbalanced brackets."""
import itertools

from vlib import harness as H
from vlib import deepchain as DC
from vlib import texgen as G
from vlib import tokstr as T
from vlib import oracles as O

RULE = ('1..3 math regions out of $..$, $$..$$, \\(..\\), \\[..\\] and the 17 named math environments, with bodies built '
        'from text, \\$, commands with brace groups, groups (also holding an operator followed by a bracket), unbalanced '
        '( ) [ ] not directly after an ordinary or sizing command, every sizing prefix x every delimiter, the zero-argument '
        'operators directly followed by brackets / blank+bracket, \\text{..[..}, \\\\ and comments; regions adjacent without '
        'separator in all ordered kind pairs except $..$ directly followed by $; in 7 non-math contexts. Exhaustive: every '
        'ordered pair of region kinds adjacent, every sizing prefix x delimiter, every operator x bracket; random beyond. '
        'Oracle by construction: the math nodes of the tree, in document order, have the expected delimiters/name and a '
        'body whose concatenated text is exactly the enclosed source; the document round-trips; every command placed in '
        'a body is found. Non-trivial = a body has an unbalanced bracket or a sizing / zero-argument command, or two '
        'regions are adjacent; distinct by source'
        '. Also: command-command atoms, blank+bracket behind a brace argument, and chains nested up to 150 deep inside math regions')
ASSUMPTIONS = ['$..$ directly followed by $ is outside the quantifier (the tokenizer reads $$ greedily): never generated, counted']

DELIM = ['$', '$$', '\\(', '\\[']
KINDS = DELIM + ['env:' + n for n in G.MATH_ENVS]
CLOSE = G.CLOSE
SAFE_AFTER_CMD = ['a', ' b', '+1', ')', '(', '=', ',', '\\\\', '', ' x']
# (source, commands that must be found, hazard class)
ATOMS = [('a', [], ''), ('x+y', [], ''), (' ', [], ''), ('1', [], ''), ('=', [], ''), ('\n', [], ''), ('\\$', [], 'escaped-dollar'),
         ('\\frac{a}{b}', ['frac'], 'cmd'), ('\\sqrt{x}', ['sqrt'], 'cmd'), ('\\mathbf{v}', ['mathbf'], 'cmd'),
         ('\\alpha', ['alpha'], 'cmd0'), ('\\leftarrow', ['leftarrow'], 'cmd0'), ('\\rightarrow', ['rightarrow'], 'cmd0'),
         ('\\biggl', ['biggl'], 'cmd0'), ('\\Biggr', ['Biggr'], 'cmd0'), ('\\leftrightarrow', ['leftrightarrow'], 'cmd0'),
         ('{a}', [], ''), ('_{i}', [], ''), ('^{2]}', [], 'bracket'), ('_{i \\in [0,n)}', ['in'], 'zero-op-in-group'),
         ('{\\cup[}', ['cup'], 'zero-op-in-group'),
         ('(', [], 'bracket'), (')', [], 'bracket'), ('[', [], 'bracket'), (']', [], 'bracket'), ('[a)', [], 'bracket'),
         ('(0,1]', [], 'bracket'), ('] [', [], 'bracket'),
         ('\\cup[', ['cup'], 'zero-op'), ('\\in [0,1)', ['in'], 'zero-op'), ('\\cap ]', ['cap'], 'zero-op'),
         ('\\infty)', ['infty'], 'zero-op'), ('\\notin(', ['notin'], 'zero-op'), ('\\in\n[a', ['in'], 'zero-op'),
         ('\\cup{a}', ['cup'], 'zero-op'),
         (' [0,1)', [], 'bracket'), ('\n[a', [], 'bracket'), ('\t(b]', [], 'bracket'),
         ('\\text{ a [ b }', ['text'], 'cmd'), ('\\mbox{(}', ['mbox'], 'cmd'),
         ('\\\\', [], ''), ('%c]$\n', [], 'comment'), ('\\,', [], ''), ('\\{', [], ''), ('\\|', [], ''),
         # an ordinary command directly followed by another command / a bare token instead of a group
         ('\\boldsymbol\\alpha', ['boldsymbol', 'alpha'], 'cmd0'), ('\\vec\\nabla', ['vec', 'nabla'], 'cmd0'),
         ('\\bar x =', ['bar'], ''), ('\\operatorname{sgn}', ['operatorname'], 'cmd'), ('\\frac\\alpha\\beta', ['frac', 'alpha', 'beta'], 'cmd0'),
         ('\\sqrt\\pi', ['sqrt', 'pi'], 'cmd0')]
# names that are new in the package source (vlib/texgen.EXTRA_NAMES): the same shapes under those names
for _n in G.EXTRA_NAMES:
    if _n.isalpha():
        ATOMS += [('\\%s\\alpha' % _n, [_n, 'alpha'], 'cmd0'), ('\\%s x =' % _n, [_n], ''), ('\\%s{v}' % _n, [_n], 'cmd')]
SIZING = [(p, d) for p in G.SIZE_PREFIX for d in G.DELIMS]
CONTEXTS = [
    ('top', 'T ', ' Z', True),
    ('group', 'p{q ', ' r}s', True),
    ('brace-arg', '\\o{q ', ' r}s', True),
    ('bracket-arg', '\\o[q ', ' r]s', True),
    ('env', '\\begin{e}q ', ' r\\end{e}s', True),
    ('item', '\\begin{itemize}\\item q ', ' r\\item z\\end{itemize}', True),
    ('item-head', '\\begin{itemize}\\item', '\\item z\\end{itemize}', True),
    ('definition', '\\newcommand{\\d}{q ', ' r}s', False),
    # a plain group inside a definition resets the definition mode: named environments work there
    ('definition-group', '\\newcommand{\\d}[1]{{\\small q ', ' r}}s', True),
    # a verbatim body with an odd number of dollars earlier in the document
    ('after-verbatim', '\\begin{verbatim} $ \\end{verbatim} T ', ' Z', True),
]


import re
AFTER_ARGS_RE = re.compile(r'\[|[ \t]*\n?[ \t]*\{')


def render_body(atoms):
    """atoms: list of (src, cmds, hazard) -> body source with the 'not directly after a command' rule enforced."""
    out = ''
    cmds = []
    cmd_end = None        # offset right after the last ordinary/sizing command, while only blanks followed it
    alpha_end = False     # the last command ends in its letters (a following letter would extend the name)
    after_args = False    # the last command is an ordinary one that ends with a brace argument
    for src, cs, hz in atoms:
        # a command NAME takes a bracket or brace group across blanks; behind its last brace argument only a brace group
        # (across blanks) or an ADJACENT bracket group attaches, so "\\frac{a}{b} [0,1)" is plain text
        rx = AFTER_ARGS_RE if (cmd_end is not None and after_args) else G.ATTACH_RE
        if cmd_end is not None and rx.match(out[cmd_end:] + src):
            out += '.'
            cmd_end = None
            alpha_end = False
        if alpha_end and (src[:1].isalpha() or src[:1] == '*'):
            out += ' '
        out += src
        cmds += cs
        if hz in ('cmd', 'sizing'):
            cmd_end = len(out)
            alpha_end = False
            after_args = hz == 'cmd' and src.endswith('}')
        elif hz == 'cmd0':
            cmd_end = len(out)
            alpha_end = True
            after_args = False
        else:
            if cmd_end is not None and (out[cmd_end:].strip(' \t\n') != ''):
                cmd_end = None
            alpha_end = (hz == 'zero-op' and src[-1:].isalpha()) or (alpha_end and src == '')
    return out, cmds


def region_src(kind, body):
    if kind.startswith('env:'):
        name = kind[4:]
        arg = '{cc}' if name == 'array' else '{2}' if name == 'alignat' else ''
        b = body
        if not arg and G.ATTACH_RE.match(b):
            b = '.' + b      # would be read as an argument of \begin{name}
        if arg and G.ATTACH_RE.match(b):
            b = '.' + b
        return '\\begin{%s}%s%s\\end{%s}' % (name, arg, b, name), b
    if kind == '$' and body == '':
        body = 'x'
    return kind + body + CLOSE[kind], body


def build(ctx, regions, seps):
    """regions: [(kind, atoms)], seps between regions -> (src, expected [(kind, body)], commands, excluded)"""
    name, pre, suf, envs_ok = ctx
    src = pre
    exp = []
    cmds = []
    excluded = 0
    prev_kind = None
    for k, (kind, atoms) in enumerate(regions):
        if kind.startswith('env:') and not envs_ok:
            kind = '\\['
        body, cs = render_body(atoms)
        rs, body = region_src(kind, body)
        if k > 0:
            sep = seps[k - 1]
            if prev_kind == '$' and sep == '' and rs.startswith('$'):
                sep = ' '
                excluded += 1
            src += sep
        src += rs
        exp.append((kind, body))
        cmds += cs
        prev_kind = kind
    if name == 'item-head' and regions and False:
        pass
    return src + suf, exp, cmds, excluded


def math_nodes(soup):
    found = []
    for e, d, role in O.walk_exprs(soup.expr):
        k = O.classify(e)
        if k == 'math':
            found.append((e.position, str(e.begin), str(e.end), None, ''.join(str(x) for x in O.body_of(e)), len(e.args)))
        elif k == 'env' and str(e.name) in G.MATH_ENVS:
            found.append((e.position, str(e.begin), str(e.end), str(e.name), ''.join(str(x) for x in O.body_of(e)), len(e.args)))
    found.sort(key=lambda t: t[0])
    return found


def check_case(ctx, regions, seps, sub='random'):
    src, exp, cmds, excluded = build(ctx, regions, seps)
    case = {'src': src, 'sub': sub, 'expected': [list(x) for x in exp], 'commands': cmds}
    verify(src, exp, cmds, case)
    return case, excluded


def verify(src, exp, cmds, case):
    o = T.outcome(src, 0)
    if o[0] != 'ok':
        raise H.Violation('C12:parse:%s' % o[1], case, 'document with well-delimited math does not parse: %s' % (o[2] if o[0] == 'leak' else o[1],))
    soup = o[1]
    if str(soup) != src:
        raise H.Violation('C12:roundtrip', case, 'serialises to %r' % str(soup)[:300])
    got = math_nodes(soup)
    if len(got) != len(exp):
        raise H.Violation('C12:region-count', case, 'found %d math nodes %r, the source has %d: %r' % (
            len(got), [(g[1], g[4][:20]) for g in got], len(exp), [(k, b[:20]) for k, b in exp]))
    for g, (kind, body) in zip(got, exp):
        kind = tuple(kind) if isinstance(kind, list) else kind
        if kind.startswith('env:'):
            name = kind[4:]
            ok = g[3] == name and g[1] == '\\begin{%s}' % name and g[2] == '\\end{%s}' % name
        else:
            ok = g[3] is None and g[1] == kind and g[2] == CLOSE[kind]
        if not ok:
            raise H.Violation('C12:region-kind', case, 'math node %r..%r (name %r) where the source has a %s region' % (g[1], g[2], g[3], kind))
        if g[4] != body:
            raise H.Violation('C12:region-body', case, 'body of the %s region is %r, the enclosed source is %r' % (kind, g[4][:200], body[:200]))
    for c in sorted(set(cmds)):
        n = len(soup.find_all(c))
        if n != cmds.count(c):
            raise H.Violation('C12:command-in-math-not-found', case, 'find_all(%r) gives %d, %d were written' % (c, n, cmds.count(c)))


def nontrivial(regions, seps):
    labels = []
    for kind, atoms in regions:
        hz = {a[2] for a in atoms}
        if hz & {'bracket', 'zero-op', 'sizing', 'zero-op-in-group'} or any('[' in a[0] or '(' in a[0] for a in atoms):
            labels.append('nt:bracket-or-sizing-or-operator')
    if any(s == '' for s in seps[:len(regions) - 1]) and len(regions) > 1:
        labels.append('nt:adjacent-regions')
    return labels


def plan(ctx):
    return [('shard_exhaustive', [('ex', i, 16) for i in range(16)]),
            ('shard_random', [('rnd', ctx.pick(2500, 60000), i) for i in range(16)]),
            ('shard_deep', [('deep', i, 8) for i in range(8)])]


DEEP_PARTS = ('parse', 'roundtrip', 'math', 'search')


def shard_deep(ctx, shard):
    # chains nested as deeply as the pinned tree can handle (vlib/deepchain.py); closed-form oracle
    return DC.shard('C12', DEEP_PARTS, shard[1], shard[2], H.Result())


def shard_exhaustive(ctx, shard):
    _, idx, nshard = shard
    H.import_repo()
    res = H.Result()
    seen = set()
    count = 0
    total = 0

    def run(cx, regions, seps, label):
        nonlocal total
        total += 1
        try:
            case, ex = check_case(cx, regions, seps, 'exhaustive:' + label)
        except H.Violation as v:
            if v.kind not in seen:
                seen.add(v.kind)
                res.violations.append(v.record())
            return
        if ex:
            res.excluded['inline-math-directly-followed-by-dollar'] += ex
        res.case(case['src'], True, sample=case['src'], classes=['ex:' + label, 'ctx:' + cx[0]] + nontrivial(regions, seps))

    plain = [('a', [], '')]
    for cx in CONTEXTS:
        # every ordered pair of kinds, adjacent
        for k1 in KINDS:
            for k2 in KINDS:
                count += 1
                if count % nshard == idx:
                    run(cx, [(k1, plain), (k2, [('b]', [], 'bracket')])], [''], 'adjacent-pair')
        # every sizing prefix x delimiter, followed by each of a few continuations
        for (p, d) in SIZING:
            for follow in ('a', ')', ' [', '|', ''):
                count += 1
                if count % nshard == idx:
                    atoms = [('x', [], ''), ('\\' + p + d, [], 'sizing')]
                    if follow:
                        atoms.append((follow, [], 'bracket' if follow.strip() in ('[', ')') else ''))
                    run(cx, [(KINDS[count // nshard % len(KINDS)], atoms)], [], 'sizing')
        # every zero-argument operator x bracket continuation x kind
        for op in G.ZERO_OPS:
            for br in ('[', ']', '(', ' [', '\n[', '{a}', ' {a}', '[a]'):
                for kind in KINDS:
                    count += 1
                    if count % nshard == idx:
                        run(cx, [(kind, [('y', [], ''), ('\\' + op + br, [op], 'zero-op'), ('z', [], '')])], [], 'zero-op')
    res.exhaustive['adjacent kind pairs + sizing x delimiter + operator x bracket, x contexts (this run)'] = total
    return res


def shard_random(ctx, shard):
    _, n, idx = shard
    H.import_repo()
    from hypothesis import strategies as st
    res = H.Result()
    atom = st.one_of(st.sampled_from(ATOMS),
                     st.sampled_from(SIZING).map(lambda pd: ('\\' + pd[0] + pd[1], [], 'sizing')))
    region = st.tuples(st.sampled_from(KINDS), st.lists(atom, min_size=0, max_size=6))
    strat = st.tuples(st.sampled_from(CONTEXTS), st.lists(region, min_size=1, max_size=3),
                      st.lists(st.sampled_from(['', '', ' ', ' and ', '\n', '.']), min_size=2, max_size=2))

    def prop(c):
        cx, regions, seps = c
        case, ex = check_case(cx, regions, seps)
        if ex:
            res.excluded['inline-math-directly-followed-by-dollar'] += ex
        labels = nontrivial(regions, seps)
        res.case(case['src'], bool(labels), sample=case['src'], classes=['ctx:' + cx[0]] + labels)

    H.hyp_search(strat, prop, n, ctx.seed * 100 + idx, res, known=ctx.known)
    return res


def replay(case):
    if case.get('sub') == 'deep-chain':
        return DC.replay('C12', DEEP_PARTS, case)
    verify(case['src'], [tuple(x) for x in case['expected']], list(case['commands']), case)
