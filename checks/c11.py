"""C11 - verbatim-like environments are opaque."""
from vlib import harness as H
from vlib import texgen as G
from vlib import tokstr as T
from vlib import oracles as O

RULE = ('names: the 5 built-in verbatim-like names and user-chosen names passed via skip_envs (letters, starred, with '
        'digits, and names that are also math / list / tabular environments); bodies over a hostile alphabet (unbalanced '
        'delimiters, \\begin/\\end of other environments, \\begin of the same name, truncated or longer \\end{..}, math '
        'switches, comments on earlier lines, \\\\, an otherwise absent command) honouring the stated side conditions by '
        'construction; at top level and nested in 1..3 named environments with arguments and surrounding content. '
        'Oracle: the environment has no arguments and exactly one text child equal to the body up to the first '
        '\\end{name} (none for an empty body), str round-trips, nothing inside is found by search, no error; the same '
        'document with a user name + skip_envs and with a built-in name give canonical trees equal up to the name. '
        'Second body class: renderings of generated well-formed fragments - opaque with the option, parsed into exactly '
        'the fragment\'s tree without it. Non-trivial = the body has an unbalanced delimiter or a \\begin/\\end; '
        'distinct by (source, options)'
        '. Also: blanks between \\begin and the name group, blank-padded and prefix-extended user names, and a look-alike (starred / unstarred) of the listed name, which must be parsed normally')
ASSUMPTIONS = [
    'verbatim-like environments are placed at top level, inside named environments and (since the D6 repair) inside items, groups and bracket arguments',
    '"starts with a brace/bracket" is read modulo the attaching blanks of C09',
]

BUILTIN = list(G.SKIP_BUILTIN)
USER = ['mycode', 'code*', 'code2', 'equation', 'align*', 'itemize', 'tabular', 'Z', 'verbatimx',
        # names are compared as written: blanks are part of them; prefix-extended look-alikes of built-in names
        ' code', 'code ', 'my code', 'NoVerbatim', 'xlstlisting']
ATOMS = list(G.HOSTILE_ATOMS) + ['\\begin{NAME}', '\\end{NAMEx}', '\\end{NAM', '\\end {NAME}', '\\hid{1}', '\\end{NAME',
                                   '\\end{ NAME}', '}', '{', '\\begin{verbatim}', '\\end{e}', '\\end{f}',
                                   # a bare sizing prefix may stand directly before the closing \\end
                                   '\\left', '\\big', '\\Bigg', '\\right']
WRAPPERS = [
    ('', ''),
    ('pre \\x{a} ', ' post $m$ \\y'),
    ('\\begin{e}q ', ' r\\end{e}s'),
    ('\\begin{e}[o]{m}\\begin{f}', '\\end{f} t\\end{e}'),
    ('a\\begin{e}\\begin{f}{k}b\\begin{g}\n', '\n\\end{g}c\\end{f}\\end{e}d'),
    ('\\begin{center}\\hid{0}', '\\hid{0}\\end{center}'),
    ('\\begin{itemize}\\item q ', ' r\\item z\\end{itemize}'),
    ('p{q ', ' r}s'),
    # a built-in verbatim-like environment with a hostile body next to the one under test (user list must extend, not replace)
    ('\\begin{lstlisting}$ { \\x[\\end{lstlisting} ', ' \\begin{verbatim}} ] $$\\end{verbatim}'),
    ('\\o[k ', ' l]{m}'),
]


def build_body(atoms, name):
    body = ''.join(a.replace('NAME', name).replace('NAM', name[:-1] if len(name) > 1 else 'q') for a in atoms)
    return G.sanitize_verbatim(body, name)


def opaque_check(src, name, body, skip, case, outside_hid, also=None):
    o = T.outcome(src, 0, skip_envs=skip)
    if o[0] != 'ok':
        raise H.Violation('C11:parse:%s' % o[1], case, 'a verbatim-like body caused %s' % (o[2] if o[0] == 'leak' else o[1],))
    soup = o[1]
    if str(soup) != src and str(soup) != also:
        raise H.Violation('C11:roundtrip', case, 'serialises to %r' % str(soup)[:300])
    env = soup.find(name)
    if env is None:
        raise H.Violation('C11:env-not-found', case, 'find(%r) is None' % name)
    if len(env.args) != 0:
        raise H.Violation('C11:arguments', case, 'the environment took arguments %r' % [str(a) for a in env.args])
    allc = [str(x) for x in env.expr.all]
    want = [body] if body else []
    if [x for x in allc if x != ''] != want or len(allc) > 1:
        raise H.Violation('C11:body', case, 'content of the environment is %r, expected the single text %r' % (allc, body))
    for x in env.expr.all:
        if O.classify(x) not in ('text', 'str'):
            raise H.Violation('C11:body-parsed', case, 'content item %r is not text' % (x,))
    n_hid = len(soup.find_all('hid'))
    if n_hid != outside_hid:
        raise H.Violation('C11:body-searchable', case, 'find_all finds %d \\hid, %d stand outside the body' % (n_hid, outside_hid))
    if body and env.contents and str(env.contents[0]) != body and body.strip():
        raise H.Violation('C11:contents', case, 'env.contents is %r' % [str(c) for c in env.contents])
    return soup


def rename(c, old, new):
    if isinstance(c, tuple):
        if len(c) == 4 and c[0] == 'env' and c[1] == old:
            return ('env', new, rename(c[2], old, new), rename(c[3], old, new))
        return tuple(rename(x, old, new) for x in c)
    return c


OPENER_SEPS = ['', '', '', '', ' ', '\n', '\t', '  ']     # blanks between \\begin and {name} (dropped on output: C08)


def check_hostile(atoms, name, wrapper, sub='hostile', sep=''):
    body = build_body(atoms, name)
    pre, suf = wrapper
    if ('{%s}' % name) in pre:
        pre, suf = '', ''       # the wrapper itself would become opaque under this name
    src = pre + '\\begin' + sep + '{%s}' % name + body + '\\end{%s}' % name + suf
    nosep = pre + '\\begin{%s}' % name + body + '\\end{%s}' % name + suf
    builtin = name in BUILTIN
    skip = () if builtin else (name,)
    case = {'src': src, 'sub': sub, 'name': name, 'skip_envs': list(skip), 'body': body, 'also': nosep,
            'outside_hid': (pre + suf).count('\\hid')}
    soup = opaque_check(src, name, body, skip, case, case['outside_hid'], also=nosep)
    if not builtin:
        # differential: a user-supplied name behaves exactly like a built-in one
        alt = 'verbatim'
        body2 = build_body(atoms, alt)
        if body2.replace(alt, name) == body or True:
            src2 = pre + '\\begin' + sep + '{%s}' % alt + body + '\\end{%s}' % alt + suf
            if ('\\end{%s}' % alt) not in body:
                o2 = T.outcome(src2, 0)
                if o2[0] != 'ok':
                    raise H.Violation('C11:builtin-differs:parse', dict(case, src2=src2), 'built-in name gives %s' % o2[1])
                c1 = rename(O.canon_tree(soup, skip=skip), name, alt)
                c2 = O.canon_tree(o2[1])
                if c1 != c2:
                    raise H.Violation('C11:builtin-differs:tree', dict(case, src2=src2), O.first_diff(c1, c2) or '')
    return case


def check_fragment(nodes, name, sub='fragment'):
    """fragment body: opaque with the option, parsed normally without it."""
    if nodes and nodes[-1].kind == 'comment' and not nodes[-1].delim:
        nodes[-1].delim = '\n'
    env = G.Node('env', name=name, body=nodes)
    doc = [G.Node('text', text='A '), env, G.Node('text', text=' Z')]
    G.normalise(doc, None)
    src = G.render(doc)
    body = src[env.bspan[0]:env.bspan[1]]
    case = {'src': src, 'sub': sub, 'name': name, 'skip_envs': [name], 'body': body, 'outside_hid': 0}
    labels = []
    # without the option: parsed normally
    o = T.outcome(src, 0)
    if o[0] != 'ok':
        raise H.Violation('C11:fragment-unskipped:parse:%s' % o[1], case, 'well-formed body does not parse without the option')
    got = O.canon_tree(o[1])
    want = G.canon(doc)
    if got != want:
        raise H.Violation('C11:fragment-unskipped:tree', case, O.first_diff(got, want) or '')
    # a starred / unstarred look-alike of the listed name is NOT listed: parsed normally even with the option
    la = name[:-1] if name.endswith('*') else name + '*'
    if la in BUILTIN:
        la = name + '*'
    env.name = la
    src_la = G.render(doc)
    want_la = G.canon(doc)
    env.name = name
    G.render(doc)
    o = T.outcome(src_la, 0, skip_envs=(name,))
    if ('{%s}' % name) in src_la:
        labels.append('fragment:lookalike-not-judged(the listed name occurs inside)')
    elif o[0] != 'ok':
        raise H.Violation('C11:lookalike-name:parse:%s' % o[1], dict(case, src=src_la, lookalike=la),
                          'environment %r is not listed (only %r is) and its well-formed body must parse' % (la, name))
    elif O.canon_tree(o[1], skip=(name,)) != want_la:
        got = O.canon_tree(o[1], skip=(name,))
        raise H.Violation('C11:lookalike-name:tree', dict(case, src=src_la, lookalike=la), O.first_diff(got, want_la) or '')
    # with the option: opaque (when the side conditions hold for this body)
    if body.endswith('\\') or '%' in body.rsplit('\n', 1)[-1] or G.ATTACH_RE.match(body) or ('\\end{%s}' % name) in body:
        labels.append('fragment:side-condition-fails(not judged opaque)')
    else:
        opaque_check(src, name, body, (name,), case, 0)
        labels.append('fragment:opaque')
    return case, labels


def nontrivial(body):
    d = 0
    for c in body:
        if c in '{[':
            d += 1
        elif c in '}]':
            d -= 1
            if d < 0:
                return True
    return d != 0 or '\\begin' in body or '\\end' in body or body.count('$') % 2 == 1


def plan(ctx):
    return [('shard_hostile', [('h', ctx.pick(2500, 60000), i) for i in range(16)]),
            ('shard_fragments', [('f', ctx.pick(300, 8000), i) for i in range(16)])]


def shard_hostile(ctx, shard):
    _, n, idx = shard
    H.import_repo()
    from hypothesis import strategies as st
    res = H.Result()
    strat = st.tuples(st.lists(st.sampled_from(ATOMS), min_size=0, max_size=8),
                      st.sampled_from(BUILTIN + USER), st.sampled_from(WRAPPERS), st.sampled_from(OPENER_SEPS))

    def prop(c):
        atoms, name, wrapper, sep = c
        case = check_hostile(atoms, name, wrapper, sep=sep)
        res.case((case['src'], name), nontrivial(case['body']), sample={'src': case['src'], 'skip_envs': case['skip_envs']},
                 classes=['name:' + ('builtin' if name in BUILTIN else 'user'), 'wrapper-depth:%d' % wrapper[0].count('\\begin'),
                          'opener:' + ('spaced' if sep else 'tight')])

    H.hyp_search(strat, prop, n, ctx.seed * 100 + idx, res, known=ctx.known)
    return res


def shard_fragments(ctx, shard):
    _, n, idx = shard
    H.import_repo()
    from hypothesis import strategies as st
    res = H.Result()
    strat = st.tuples(G.wfdoc('small'), st.sampled_from(['mycode', 'code*', 'code2', 'Z', 'Verbatim*', 'lstlisting*', 'Verbatimx', 'listings',
                                                            'NoVerbatim', 'xverbatim', 'SaveVerbatim', 'mylstlisting', 'Blisting', ' code ', 'my code']))

    def prop(c):
        nodes, name = c
        case, labels = check_fragment(nodes, name)
        res.case(case['src'], nontrivial(case['body']) and 'fragment:opaque' in labels,
                 sample={'src': case['src'][:300], 'skip_envs': [name]}, classes=labels)

    H.hyp_search(strat, prop, n, ctx.seed * 100 + idx + 50, res, known=ctx.known,
                 keyfn=lambda c: G.text_of(c[0]) + c[1], max_buckets=3, shrink_budget=400)
    return res


def replay(case):
    src, name, body = case['src'], case['name'], case['body']
    if case.get('lookalike'):
        o = T.outcome(src, 0, skip_envs=tuple(case['skip_envs']))
        if o[0] != 'ok':
            raise H.Violation('C11:lookalike-name:parse:%s' % o[1], case, 'an unlisted look-alike name was not parsed normally')
        env = o[1].find(case['lookalike'])
        if env is None or (len(list(env.expr.all)) <= 1 and any(ch in body for ch in '\\{$')):
            raise H.Violation('C11:lookalike-name:tree', case, 'an unlisted look-alike name was read as verbatim-like')
        return
    if case.get('sub') == 'fragment':
        opaque_check(src, name, body, tuple(case['skip_envs']), case, case.get('outside_hid', 0))
        return
    opaque_check(src, name, body, tuple(case['skip_envs']), case, case.get('outside_hid', 0), also=case.get('also'))
    if case.get('src2'):
        o2 = T.outcome(case['src2'], 0)
        if o2[0] != 'ok':
            raise H.Violation('C11:builtin-differs:parse', case, str(o2[1]))
