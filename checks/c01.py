"""C01 - parse -> serialise round trip is lossless on well-formed documents."""
import os
import re

from vlib import harness as H
from vlib import deepchain as DC
from vlib import texgen as G
from vlib import oracles as O
from vlib import docrun as D

RULE = ('documents drawn from the wfdoc grammar (text, escapes, \\\\, comments, commands with [..]/{..}, environments '
        'with arguments, lists of \\item, groups, the four math delimiters and the named math environments, '
        'verbatim-like environments with hostile bodies, \\newcommand-style definitions) with adjacent arguments, in '
        'several profiles (default, deep, twin, list-heavy, definition-heavy), plus the repository sample files and '
        'the TexSoup(...) literals of README/docs/docstrings/tests. Oracle: parse succeeds, str(soup)==source, and '
        'every node/argument/text leaf satisfies src[p:p+len(str(n))]==str(n). Non-trivial = >=3 distinct construct '
        'kinds and nesting depth >=2; distinct by source text'
        '. Also: synthetic long constructs (one-run paragraphs, comments and blank runs of 300..8200 characters, documents of 9K..70K characters), whole flat documents as ONE bracket / brace argument, and homogeneous chains nested 45..270 deep with closed-form expectations (all non-trivial)')
ASSUMPTIONS = [
    'verbatim-like bodies are hostile wherever the generator places such an environment (since the D6 repair the skip list reaches items, groups, arguments and math)',
    'a bracket behind the group run after \\end{name} and a list inside a group after a math environment are excluded by construction (finding D11), counted',
    'corpus literals that do not parse are counted, not judged (documentation shows malformed input on purpose)',
]

PROFILES = ['quick', 'deep', 'twin', 'lists', 'defs', 'quick', 'twin', 'lists']


def check_doc(nodes, src, case, res):
    soup = D.parse(src, 'C01', case)
    out = str(soup)
    if out != src:
        i = next((k for k in range(min(len(out), len(src))) if out[k] != src[k]), min(len(out), len(src)))
        raise H.Violation('C01:roundtrip', case, 'first difference at %d: source %r, output %r' % (
            i, src[max(0, i - 20):i + 20], out[max(0, i - 20):i + 20]))
    D.check_slices(src, soup, 'C01', case)
    D.check_descendant_slices(src, soup, 'C01', case)
    return ()


def plan(ctx):
    shards = []
    for i in range(16):
        prof = PROFILES[i % len(PROFILES)]
        n = ctx.pick(250, 6000) if prof == 'deep' else ctx.pick(700, 25000)
        shards.append(('doc', prof, n, i))
    shards.append(('doc', 'flat', ctx.pick(25, 600), 16))
    shards.append(('doc', 'wide', ctx.pick(150, 3000), 17))
    shards.append(('doc', 'longbracket', ctx.pick(12, 300), 18))
    shards.append(('doc', 'longbrace', ctx.pick(12, 300), 19))
    return [('shard_corpus', [('corpus',)]), ('shard_docs', shards),
            ('shard_deep', [('deep', i, 8) for i in range(8)])]


DEEP_PARTS = ('parse', 'roundtrip', 'positions', 'search')


def shard_deep(ctx, shard):
    # chains nested as deeply as the pinned tree can handle (vlib/deepchain.py); closed-form oracle
    return DC.shard('C01', DEEP_PARTS, shard[1], shard[2], H.Result())


def shard_docs(ctx, shard):
    _, profile, n, idx = shard
    H.import_repo()
    res = H.Result()
    D.doc_shard(ctx, profile, n, idx, check_doc, res)
    return res


LIT_RES = [re.compile(r'TexSoup\(\s*r?"""(.*?)"""', re.S), re.compile(r"TexSoup\(\s*r?'''(.*?)'''", re.S),
           re.compile(r"TexSoup\(\s*r'([^'\n]*)'"), re.compile(r'TexSoup\(\s*r"([^"\n]*)"')]
NONADJ_RE = re.compile(r'(\\[a-zA-Z]+\*?|[\]}])[ \t]*\n?[ \t]*[\[{]')
ADJ_RE = re.compile(r'(\\[a-zA-Z]+\*?|[\]}])[\[{]')


def corpus(repo):
    out = []
    sdir = os.path.join(repo, 'tests', 'samples')
    if os.path.isdir(sdir):
        for f in sorted(os.listdir(sdir)):
            if f.endswith('.tex'):
                out.append(('sample:' + f, open(os.path.join(sdir, f), encoding='utf-8').read()))
    files = [os.path.join(repo, 'README.md')]
    for d in ('docs/source', 'TexSoup', 'tests'):
        dd = os.path.join(repo, d)
        if os.path.isdir(dd):
            for f in sorted(os.listdir(dd)):
                if f.endswith(('.rst', '.py', '.md')):
                    files.append(os.path.join(dd, f))
    for path in files:
        if not os.path.exists(path):
            continue
        text = open(path, encoding='utf-8').read()
        for rx in LIT_RES:
            for m in rx.finditer(text):
                lit = m.group(1)
                lit = re.sub(r'(?m)^[ \t]*\.\.\. ?', '', lit)       # doctest continuation prefixes
                if '\\' in lit or '$' in lit:
                    out.append(('literal:' + os.path.basename(path), lit))
    # long single constructs (a paragraph that is one text run, a long comment, a long blank run) and long documents
    prose = 'The quick brown fox, 42 times; jumps (over) the lazy dog. '
    for n in (300, 513, 1030, 2050, 4100, 8200):
        para = (prose * (n // len(prose) + 1))[:n]
        out.append(('synthetic:paragraph-%d' % n, '\\section{T}\n' + para + '\n\\emph{' + para + '}\n\\begin{e}' + para + '\\end{e}'))
        out.append(('synthetic:comment-%d' % n, 'a %' + para + '\nb {c%' + para + '\n} d'))
        out.append(('synthetic:blanks-%d' % n, '\\begin{e}' + ' ' * n + 'a' + '\t' * n + '\n' + ' ' * n + 'b\\end{e}'))
    for n in (9000, 33000, 70000):
        out.append(('synthetic:document-%d' % n, D.big_source(n)))
    return out


def check_corpus_entry(name, src, res=None):
    from TexSoup import TexSoup
    case = {'src': src, 'sub': 'corpus', 'origin': name}
    try:
        soup = TexSoup(src)
    except (EOFError, TypeError, AssertionError):
        if name.startswith('sample:'):
            raise H.Violation('C01:corpus:sample-rejected', case, 'sample document does not parse')
        return 'corpus:rejected-not-judged'
    except Exception as e:  # noqa
        raise H.Violation('C01:corpus:parse:%s@%s' % (type(e).__name__, H.inner_frame(e)), case, repr(e)[:300])
    out = str(soup)
    spaced = [m for m in NONADJ_RE.finditer(src) if not ADJ_RE.match(src, m.start())]
    if spaced or re.search(r'\\(def|textbf|section|label)[^a-zA-Z{\[]', src) or '\x00' in src:
        # arguments not adjacent / bare-token arguments: only C08's relation applies
        bare = re.search(r'\\(def|textbf|section|label)[^a-zA-Z{\[]', src)
        if bare:
            return 'corpus:bare-argument-not-judged'
        if not O.conserved(src, out):
            raise H.Violation('C01:corpus:conservation', case, 'output %r' % out[:300])
        return 'corpus:spaced-arguments(C08 relation)'
    if out != src:
        raise H.Violation('C01:corpus:roundtrip', case, 'output %r' % out[:300])
    D.check_slices(src, soup, 'C01:corpus', case)
    return 'corpus:roundtrip'


def shard_corpus(ctx, shard):
    H.import_repo()
    res = H.Result()
    seen = set()
    for name, src in corpus(H.REPO):
        if src in seen:
            continue
        seen.add(src)
        try:
            label = check_corpus_entry(name, src)
        except H.Violation as v:
            res.violations.append(v.record())
            label = 'corpus:violating'
        res.case(src, label == 'corpus:roundtrip' and len(src) > 40, sample=src[:200], classes=[label])
    return res


def replay(case):
    if case.get('sub') == 'deep-chain':
        return DC.replay('C01', DEEP_PARTS, case)
    if case.get('sub') == 'corpus':
        check_corpus_entry(case.get('origin', 'replay'), case['src'])
        return
    check_doc(None, case['src'], dict(case), None)
