"""C08 - serialisation conserves the characters of any parseable input."""
from vlib import harness as H
from vlib import texgen as G
from vlib import tokstr as T
from vlib import oracles as O
from vlib import strrun as S
from vlib import docrun as D

RULE = ('all strings over the construct-token alphabet (exhaustive up to L) and the category alphabet, random strings up '
        'to 40 symbols, single-fault mutations of generated documents, and generated documents rendered with arbitrary '
        'attaching whitespace before argument groups; restricted to inputs free of NUL/DEL whose \\def/\\textbf/\\section/'
        '\\label arguments are brace-delimited (lexical scanner; declined strings are counted) and that parse in strict '
        'mode. Oracle: an alignment of input and output that allows nothing but dropping blank runs that end directly '
        'before { or [. Non-trivial = the input is not well-formed (stray closer, unpartnered bracket, crossed or '
        'unclosed pair by a balance scan) or the output differs from the input; distinct by string')
ASSUMPTIONS = [
    'strings that do not parse in strict mode are outside the property (counted)',
    'the scanner is conservative: a string it cannot certify is skipped, never judged',
]


def check_string(s, sub):
    reason = T.side_conditions(s)
    if reason:
        return False, False, ['side-condition:' + reason.split(':')[0]]
    out = T.outcome(s, 0)
    if out[0] != 'ok':
        return False, False, ['not-parseable:' + (out[1] if out[0] == 'reject' else 'leak(C06)')]
    t = str(out[1])
    if not O.conserved(s, t):
        raise H.Violation('C08:conservation', {'src': s, 'sub': sub},
                          'input %r serialises to %r' % (s[:300], t[:300]))
    nt = (t != s) or not S.balanced(s)
    return True, nt, (['output-differs'] if t != s else []) + ([] if S.balanced(s) else ['malformed-but-parses'])


def check_spaced_doc(nodes, src_unused, case, res):
    spaced = G.render(nodes, spaced=True)
    adjacent = G.text_of(nodes)
    case['src'] = spaced
    soup = D.parse(spaced, 'C08', case)
    t = str(soup)
    if not O.conserved(spaced, t):
        raise H.Violation('C08:conservation', case, 'spaced document serialises to %r' % t[:300])
    return ['spaced-doc'] + (['output-differs'] if t != spaced else [])


def plan(ctx):
    L = 3
    return [
        ('shard_enum', [('tok', 'A_TOK', L, i, 48) for i in range(48)] +
                       [('envname', 'A_ENV', 3, i, 8) for i in range(8)] +
                       [('cat', 'A_CAT', 3, i, 32) for i in range(32)] +
                       ([('tokcore', 'A_TOK_CORE', 4, i, 96) for i in range(96)] if ctx.thorough else [])),
        ('shard_random', [('rnd', ctx.pick(1500, 40000), i) for i in range(16)]),
        ('shard_mutations', [('mut', ctx.pick(4, 10), i) for i in range(16)]),
        ('shard_spaced', [('spaced', ctx.pick(400, 10000), i) for i in range(16)]),
    ]


def shard_enum(ctx, shard):
    H.import_repo()
    return S.enum_shard(ctx, shard, check_string)


def shard_random(ctx, shard):
    H.import_repo()
    return S.random_shard(ctx, shard, check_string)


def shard_mutations(ctx, shard):
    H.import_repo()
    return S.mutation_shard(ctx, shard, check_string)


def shard_spaced(ctx, shard):
    _, n, idx = shard
    H.import_repo()
    res = H.Result()
    D.doc_shard(ctx, 'spaced', n, idx, check_spaced_doc, res,
                nontrivial=lambda nodes, kinds, depth, labels: 'output-differs' in labels)
    return res


def replay(case):
    s = case['src']
    out = T.outcome(s, 0)
    if out[0] != 'ok':
        return
    t = str(out[1])
    if not O.conserved(s, t):
        raise H.Violation('C08:conservation', case, 'input %r serialises to %r' % (s[:300], t[:300]))
