"""C02 - the parse tree mirrors the construct structure of the document."""
from vlib import harness as H
from vlib import texgen as G
from vlib import oracles as O
from vlib import docrun as D

RULE = ('documents drawn from the wfdoc grammar together with their syntax tree (profiles: default, deep, twin, '
        'list-heavy, definition-heavy). Oracle: the canonical form of the parsed tree (names, argument kinds/order/'
        'contents, nesting, comments as separate leaves, adjacent text leaves merged) equals the canonical form of '
        'the generating syntax tree. Non-trivial = the document contains a list with >=2 items one holding a nested '
        'construct, a command with >=2 groups, a definition with \\begin/\\end, an environment nested in an argument, '
        'math directly after an item head, a group directly after an environment, or a comment inside an optional '
        'argument; distinct by source text')
ASSUMPTIONS = [
    'verbatim-like bodies are hostile wherever the generator places such an environment (D6 is repaired)',
    'how many leaves a text run is split into is not compared (adjacent text leaves are merged)',
]
PROFILES = ['lists', 'defs', 'quick', 'twin', 'deep', 'lists', 'defs', 'quick']


def interesting(nodes):
    labels = set()
    for n, d, parent, where in G.walk(nodes):
        k = n.kind
        if k == 'list':
            items = [b for b in n.body if b.kind == 'item']
            if len(items) >= 2 and any(any(c.kind not in ('text', 'comment') for c in it.body) for it in items):
                labels.add('nt:list-with-nested-construct')
        if k == 'cmd' and len(n.args) >= 2:
            labels.add('nt:command-with-2+-groups')
        if k == 'cmd' and n.special and any(c.kind == 'cmd' and c.name in ('begin', 'end')
                                             for a in n.args for c, _, _, _ in G.walk(a.body)):
            labels.add('nt:definition-with-begin-end')
        if k in ('env', 'list') and where.startswith('arg'):
            labels.add('nt:env-in-argument')
        if k == 'item' and n.body and n.body[0].kind == 'math':
            labels.add('nt:math-after-item-head')
        if k == 'comment' and where == 'arg[':
            labels.add('nt:comment-in-optional-argument')
        body = n.body or []
        for a, b in zip(body, body[1:]):
            if a.kind in ('env', 'list', 'verb') and b.kind == 'group':
                labels.add('nt:group-after-environment')
    for a, b in zip(nodes, nodes[1:]):
        if a.kind in ('env', 'list', 'verb') and b.kind == 'group':
            labels.add('nt:group-after-environment')
    return labels


def check_doc(nodes, src, case, res):
    soup = D.parse(src, 'C02', case)
    got = O.canon_tree(soup)
    want = G.canon(nodes)
    if got != want:
        case['expected'] = want
        raise H.Violation('C02:tree', case, O.first_diff(got, want) or 'trees differ')
    return interesting(nodes)


def plan(ctx):
    shards = []
    for i in range(16):
        prof = PROFILES[i % len(PROFILES)]
        n = ctx.pick(250, 6000) if prof == 'deep' else ctx.pick(700, 25000)
        shards.append(('doc', prof, n, i))
    shards.append(('doc', 'flat', ctx.pick(25, 600), 16))
    shards.append(('doc', 'wide', ctx.pick(150, 3000), 17))
    shards.append(('doc', 'longbracket', ctx.pick(12, 300), 18))
    shards.append(('doc', 'longbrace', ctx.pick(12, 300), 19))
    return [('shard_docs', shards)]


def shard_docs(ctx, shard):
    _, profile, n, idx = shard
    H.import_repo()
    res = H.Result()
    D.doc_shard(ctx, profile, n, idx, check_doc, res,
                nontrivial=lambda nodes, kinds, depth, labels: any(l.startswith('nt:') for l in labels))
    return res


def replay(case):
    src = case['src']
    soup = D.parse(src, 'C02', dict(case))
    got = O.canon_tree(soup)
    want = D.tuplify(case['expected'])
    if got != want:
        raise H.Violation('C02:tree', case, O.first_diff(got, want) or 'trees differ')
