"""C18 - argument lists behave like Python lists of groups.

Oracle: a Python list holding the very same group objects.  All operation
sequences up to a depth bound (the real object carries a shadow list, so
sequences - not model states - are enumerated), random longer histories beyond.
"""
import itertools

from vlib import harness as H

RULE = ('all sequences up to a depth bound of append/extend/insert(any index)/remove/pop/reverse/clear/'
        'indexing/slicing over a pool with two textually equal brace groups, a bracket group, well-formed '
        'and mismatched strings, starting from argument lists of length 0..2 owned by a command; random '
        'histories of up to 30 steps beyond. Non-trivial = a mutator ran while the list held a textual '
        'duplicate, or an index was negative or beyond the end; distinct by (initial list, operation list)'
        '. Initial lists also hold a brace-less command argument; coercible strings include bodies ending in backslashes; rejected strings include a trailing newline / leading blank')
ASSUMPTIONS = [
    'whitespace-only strings, __setitem__, del, sort, += are not in the statement and are not exercised',
    'for extend() with a mismatched element both "unchanged" and "coerced prefix kept" are accepted',
    'remove(x) is modelled as list.remove on the same objects (first element equal to x)',
]

GOOD = ['{a}', '[c]', '{}', '[]', '{{x}}', '[a[0]]', '{a\\\\}', '[r \\\\]', '{a\\}']
BAD = ['{x', 'x]', '[x}', '{x]', 'x', '', '{x}\n', '[y]\n', ' {x}']
IDX = [0, 1, -1, -2, 'len', 'len+3', '-len-1', '-len-3']
INITS = [(), ('G1',), ('G1', 'K'), ('G1', 'G2'), ('G1', 'G2', 'K'),
         # a brace-less command argument, as the parser stores it for \def\foo{x} or \textbf\alpha
         ('C', 'G1'), ('G1', 'C', 'K')]


def op_templates(reduced=False):
    ops = []
    for x in ['G1', 'G2', 'K'] + GOOD + (BAD[:3] if reduced else BAD):
        ops.append(('append', x))
    ins_items = ['G2', 'K', '[c]', '{x]', '{a}']      # '{a}' is coerced to a fresh textual twin of G1/G2
    idxs = [0, 1, -1, 'len', 'len+3', '-len-3'] if reduced else IDX
    for i in idxs:
        for x in (ins_items[:2] + ins_items[4:] if reduced else ins_items):
            ops.append(('insert', i, x))
    for x in ['G1', 'G2', 'K', '{a}', '[c]', '[zz]', 'x']:
        ops.append(('remove', x))
    for xs in [(), ('G2',), ('K', '{a}'), ('{a}', '{x', '[c]'), ('x',)]:
        ops.append(('extend', xs))
    ops.append(('extend-iter', ('K', '{{x}}')))     # list.extend accepts any iterable, also a one-shot iterator
    for i in [None, 0, 1, -1, -2, 'len', '-len-1']:
        ops.append(('pop', i))
    ops.append(('reverse',))
    ops.append(('clear',))
    ops.append(('clone-pop',))      # a list built from this one is independent of it
    for i in ([0, -1, 'len'] if reduced else [0, 1, -1, -2, 'len', '-len-1']):
        ops.append(('get', i))
    for sl in ([(None, None, None), (None, None, -1), (1, None, None)] if reduced else
               [(None, None, None), (1, None, None), (None, 1, None), (None, None, -1), (0, 2, None),
                (None, None, 2), (-2, None, None)]):
        ops.append(('slice',) + sl)
    return ops


OPS = op_templates()
OPS_REDUCED = op_templates(True)


def resolve(i, n):
    if isinstance(i, int) or i is None:
        return i
    return {'len': n, 'len+3': n + 3, '-len': -n, '-len-1': -n - 1, '-len-3': -n - 3}[i]


def expected_kind(s):
    """What a string argument must be coerced to: ('{'|'[', inner) or None (rejected)."""
    if len(s) >= 2 and s[0] == '{' and s[-1] == '}':
        return ('{', s[1:-1])
    if len(s) >= 2 and s[0] == '[' and s[-1] == ']':
        return ('[', s[1:-1])
    return None


class Marker:
    def __init__(self, kind, inner):
        self.kind, self.inner = kind, inner
        self.text = kind + inner + {'{': '}', '[': ']'}[kind]


def run_sequence(init, ops, flags=None):
    from TexSoup.data import TexCmd, TexArgs, BraceGroup, BracketGroup
    pool = {'G1': BraceGroup('a'), 'G2': BraceGroup('a'), 'K': BracketGroup('b'), 'C': TexCmd('foo')}
    owner = TexCmd('cmd', args=[pool[x] for x in init])
    args = owner.args
    m = [pool[x] for x in init]
    cls_of = {'{': BraceGroup, '[': BracketGroup}

    def case(k):
        return {'sub': 'args', 'init': list(init), 'ops': [list(o) for o in ops[:k + 1]]}

    def model_item(x):
        """-> ('obj', object) | ('new', Marker) | ('bad',)"""
        if x in pool:
            return ('obj', pool[x])
        kind = expected_kind(x)
        if kind is None:
            return ('bad',)
        return ('new', Marker(*kind))

    def texts(lst):
        return [e.text if isinstance(e, Marker) else str(e) for e in lst]

    def has_twin():
        t = texts(m)
        return len(set(t)) < len(t)

    def check_state(k, op):
        real = list(args)
        if len(real) != len(m) or len(args) != len(m):
            raise H.Violation('C18:%s:length' % op[0], case(k),
                              'after %r: list has %d items %r, model %d %r' % (op, len(real), real, len(m), texts(m)))
        for j, (r, e) in enumerate(zip(real, m)):
            if isinstance(e, Marker):
                if type(r) is not cls_of[e.kind] or str(r) != e.text:
                    raise H.Violation('C18:%s:coercion' % op[0], case(k),
                                      'after %r: item %d is %r (%s), expected %s %r' % (
                                          op, j, r, type(r).__name__, cls_of[e.kind].__name__, e.text))
                m[j] = r   # adopt: identity from now on
            elif r is not e:
                raise H.Violation('C18:%s:elements' % op[0], case(k),
                                  'after %r: item %d is %r (id differs), list is %r, model %r' % (
                                      op, j, r, real, texts(m)))
        want = ''.join(str(e) for e in m)
        if str(args) != want:
            raise H.Violation('C18:%s:str' % op[0], case(k), 'str(args)=%r, model %r' % (str(args), want))
        if owner.args is not args or str(owner) != '\\cmd' + want:
            raise H.Violation('C18:%s:owner' % op[0], case(k), 'str(owner)=%r, model %r' % (str(owner), '\\cmd' + want))
        # the whitespace-preserving proxy `.all` is not part of the statement
        # (observe_at: list, len, str, owner, exceptions): measured, not judged
        shadow = getattr(args, 'all', None)
        if flags is not None and isinstance(shadow, list):
            vis = [e for e in shadow if not (isinstance(e, str) and e.isspace())]
            if len(vis) != len(m) or any(a is not b for a, b in zip(vis, m)):
                flags.add('info:proxy-all-out-of-step')

    for k, op in enumerate(ops):
        name = op[0]
        n = len(m)
        exp_exc = None
        exp_ret = ('none',)
        alt_models = None
        newm = list(m)
        if flags is not None and name in ('append', 'insert', 'remove', 'extend', 'extend-iter', 'pop', 'reverse') and has_twin():
            flags.add('mutator_with_textual_duplicate')
        if name == 'append':
            it = model_item(op[1])
            if it[0] == 'bad':
                exp_exc = TypeError
            else:
                newm.append(it[1])
        elif name == 'insert':
            i = resolve(op[1], n)
            if flags is not None and (i < 0 or i > n):
                flags.add('boundary_index')
            it = model_item(op[2])
            if it[0] == 'bad':
                exp_exc = TypeError
            else:
                newm.insert(i, it[1])
        elif name == 'remove':
            it = model_item(op[1])
            if it[0] == 'bad':
                exp_exc = TypeError
            elif it[0] == 'obj':
                try:
                    newm.remove(it[1])
                except ValueError:
                    exp_exc = ValueError
            else:
                t = texts(newm)
                if it[1].text in t:
                    del newm[t.index(it[1].text)]
                else:
                    exp_exc = ValueError
        elif name in ('extend', 'extend-iter'):
            items = [model_item(x) for x in op[1]]
            if any(it[0] == 'bad' for it in items):
                exp_exc = TypeError
                pref = []
                for it in items:
                    if it[0] == 'bad':
                        break
                    pref.append(it[1])
                alt_models = [list(m), list(m) + pref]
            else:
                newm.extend(it[1] for it in items)
        elif name == 'pop':
            i = resolve(op[1], n)
            if flags is not None and i is not None and (i < 0 or i >= n):
                flags.add('boundary_index')
            try:
                exp_ret = ('is', newm.pop() if i is None else newm.pop(i))
            except IndexError:
                exp_exc = IndexError
        elif name == 'clone-pop':
            pass
        elif name == 'reverse':
            newm.reverse()
        elif name == 'clear':
            newm.clear()
        elif name == 'get':
            i = resolve(op[1], n)
            try:
                exp_ret = ('is', newm[i])
            except IndexError:
                exp_exc = IndexError
        elif name == 'slice':
            exp_ret = ('slice', newm[slice(op[1], op[2], op[3])])
        else:
            raise H.HarnessError('unknown op %r' % (op,))
        # ---- real
        got_exc = None
        ret = None
        try:
            if name == 'append':
                ret = args.append(pool.get(op[1], op[1]))
            elif name == 'insert':
                ret = args.insert(resolve(op[1], n), pool.get(op[2], op[2]))
            elif name == 'remove':
                ret = args.remove(pool.get(op[1], op[1]))
            elif name == 'extend':
                ret = args.extend([pool.get(x, x) for x in op[1]])
            elif name == 'extend-iter':
                ret = args.extend(pool.get(x, x) for x in op[1])
            elif name == 'pop':
                i = resolve(op[1], n)
                ret = args.pop() if i is None else args.pop(i)
            elif name == 'clone-pop':
                clone = TexArgs(args)
                other = TexCmd('other', args=args)
                if len(clone):
                    clone.pop()
                if len(other.args):
                    other.args.remove(other.args[0])
            elif name == 'reverse':
                ret = args.reverse()
            elif name == 'clear':
                ret = args.clear()
            elif name == 'get':
                ret = args[resolve(op[1], n)]
            elif name == 'slice':
                ret = args[slice(op[1], op[2], op[3])]
        except Exception as e:  # noqa - classified below
            got_exc = e
        if exp_exc is not None:
            if got_exc is None or not isinstance(got_exc, exp_exc):
                raise H.Violation('C18:%s:expected-%s' % (name, exp_exc.__name__), case(k),
                                  '%r on %r: expected %s, got ret=%r exc=%r' % (op, texts(m), exp_exc.__name__, ret, got_exc))
            if alt_models is not None:
                ok = False
                for cand in alt_models:
                    save = m[:]
                    m[:] = cand
                    try:
                        check_state(k, op)
                        ok = True
                        break
                    except H.Violation:
                        m[:] = save
                if not ok:
                    raise H.Violation('C18:extend:partial-state', case(k),
                                      'after rejected %r the list is %r' % (op, list(args)))
            else:
                check_state(k, op)   # rejected / failed operation leaves the list unchanged
            continue
        if got_exc is not None:
            raise H.Violation('C18:%s:raised-%s' % (name, type(got_exc).__name__), case(k),
                              '%r on %r raised %r; a list gives %r' % (op, texts(m), got_exc, texts(newm)))
        if exp_ret[0] == 'none':
            if ret is not None:
                raise H.Violation('C18:%s:return' % name, case(k), '%r returned %r' % (op, ret))
        elif exp_ret[0] == 'is':
            if ret is not exp_ret[1]:
                raise H.Violation('C18:%s:return' % name, case(k),
                                  '%r on %r returned %r, a list returns the element %r (identity)' % (
                                      op, texts(m), ret, exp_ret[1]))
        elif exp_ret[0] == 'slice':
            want = exp_ret[1]
            if not isinstance(ret, TexArgs) or len(ret) != len(want) or any(a is not b for a, b in zip(ret, want)):
                raise H.Violation('C18:slice:return', case(k),
                                  '%r on %r returned %r (%s), expected TexArgs %r' % (
                                      op, texts(m), ret, type(ret).__name__, texts(want)))
            if str(ret) != ''.join(str(e) for e in want):
                raise H.Violation('C18:slice:str', case(k), 'str(slice)=%r' % str(ret))
        m[:] = newm
        check_state(k, op)
    return len(ops)


def _fails(init, ops, kind):
    try:
        run_sequence(init, [tuple(tuple(x) if isinstance(x, list) else x for x in o) for o in ops])
    except H.Violation as v:
        return v.kind == kind
    return False


def plan(ctx):
    nshard = 16
    shards = [('bfs', 3, i, nshard, False) for i in range(nshard)]
    shards += [('bfs3c', 3, i, nshard, True) for i in range(nshard)]      # reduced set, depth exactly 3, every initial list
    if ctx.thorough:
        shards += [('bfs4', 4, i, 64, True) for i in range(64)]
    rnd = [('rnd', ctx.pick(300, 5000), i) for i in range(16)]
    return [('shard_bfs', shards), ('shard_random', rnd)]


def shard_bfs(ctx, shard):
    _, depth, idx, nshard, reduced = shard
    H.import_repo()
    res = H.Result()
    ops_all = OPS_REDUCED if reduced else OPS
    nops = len(ops_all)
    seen = set()
    total = 0
    for init in INITS:
        if not reduced and not ctx.thorough and init not in ((), ('G1', 'G2', 'K')):
            # quick tier: the full operation set to depth 3 from the empty list and from the list with twins; from the
            # other initial lists to depth 2 (the reduced set reaches depth 3 from every initial list)
            ops_all, depths = OPS, range(1, min(depth, 2) + 1)
        elif reduced and depth >= 4 and init not in ((), ('G1', 'G2', 'K')):
            continue        # depth 4 (thorough): from the empty list and from the list with twins
        else:
            ops_all, depths = (OPS_REDUCED if reduced else OPS), ([depth] if reduced else range(1, depth + 1))
        nops = len(ops_all)
        for d in depths:
            for count, seq in enumerate(itertools.product(range(nops), repeat=d)):
                if count % nshard != idx:
                    continue
                ops = [ops_all[i] for i in seq]
                flags = set()
                try:
                    run_sequence(init, ops, flags)
                except H.Violation as v:
                    if v.kind not in seen:
                        seen.add(v.kind)
                        v.case['ops'] = H.ddmin(v.case['ops'], lambda o: _fails(init, o, v.kind))
                        res.violations.append(v.record())
                    flags.add('violating')
                total += 1
                res.case((init, seq, reduced), bool(flags),
                         sample={'init': list(init), 'ops': [list(o) for o in ops]},
                         classes=['bfs:depth%d' % d] + ['flag:' + f for f in flags])
    res.exhaustive['sequences_depth%s%d_over_%d_ops_x_%d_initial_lists' % (
        '=' if reduced else '<=', depth, nops, len(INITS))] = total
    return res


def shard_random(ctx, shard):
    _, nexamples, idx = shard
    H.import_repo()
    from hypothesis import strategies as st
    res = H.Result()
    strat = st.tuples(st.sampled_from(INITS), st.lists(st.sampled_from(OPS), min_size=4, max_size=30))

    def prop(v):
        init, ops = v
        flags = set()
        run_sequence(init, ops, flags)
        res.case((init, tuple(ops)), bool(flags),
                 sample={'init': list(init), 'ops': [list(o) for o in ops]},
                 classes=['rnd'] + ['flag:' + f for f in flags])

    H.hyp_search(strat, prop, nexamples, ctx.seed * 100 + idx, res, known=ctx.known)
    return res


def replay(case):
    ops = [tuple(tuple(x) if isinstance(x, list) else x for x in o) for o in case['ops']]
    run_sequence(tuple(case['init']), ops)
