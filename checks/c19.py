"""C19 - categorising and tokenising partition the input."""
import itertools

from vlib import harness as H

RULE = ('(a) every one of the 1,114,112 code points alone and embedded as a<c>b; (b) every string of up to L symbols '
        'over an alphabet with one representative per character category plus the letters/words that form multi-character '
        'tokens (exhaustive); (c) random strings of up to 60 symbols incl. non-ASCII. Non-trivial: (a) the character is '
        'not an ASCII letter or digit; (b,c) the string yields >= 2 different kinds of multi-character token, or has an '
        'ignored character (NUL/DEL) next to a non-text token; distinct by string'
        '. (d) long inputs: 14 units repeated to 25 exact lengths from 255 to 70001 characters, bare / wrapped / shifted / followed by a letter (all non-trivial)')
ASSUMPTIONS = [
    'only NUL and DEL may be dropped; every other character must appear in exactly one token',
    'a token position must be the index at which its first character was aligned in the input',
]

IGN = '\x00\x7f'
ALPHA = ['\\', '{', '}', '$', '&', '\n', '\r', '#', '^', '_', '\x00', ' ', '\t', 'a', '.', '~', '%', '\x7f',
         '[', ']', '(', ')', '*', '|', '<', 'left', 'big', 'Bigg', 'langle', 'item', 'é', 'a*', '@',
         'left\\langle', 'Bigg\\rceil', '\ud83d', '\ude02']      # named delimiters; a high and a low surrogate

CORE = ['\\', '{', '}', '$', '\n', '\r', '\x00', ' ', 'a', '.', '%', '\x7f', '[', ']', '(', '*', '|', 'left', 'big', 'langle',
        'a*', '\ud83d', '\ude02', '&']


def check_string(s, sub, res=None, count=True):
    from TexSoup.category import categorize
    from TexSoup.tokens import tokenize
    from TexSoup.utils import CC
    case = {'sub': sub, 'src': s}
    try:
        cats = list(categorize(s))
    except Exception as e:  # noqa
        raise H.Violation('C19:categorize:raised-%s@%s' % (type(e).__name__, H.inner_frame(e)), case, repr(e))
    if len(cats) != len(s):
        raise H.Violation('C19:categorize:count', case, '%d items for %d characters' % (len(cats), len(s)))
    for i, (c, ch) in enumerate(zip(cats, s)):
        if str(c) != ch or c.position != i:
            raise H.Violation('C19:categorize:item', case,
                              'item %d is %r at position %r, expected %r at %d' % (i, str(c), c.position, ch, i))
        try:
            ok = c.category in CC
        except TypeError:
            ok = False
        if not ok:
            raise H.Violation('C19:categorize:category', case, 'item %d %r has category %r' % (i, ch, c.category))
    try:
        toks = list(tokenize(categorize(s)))
    except Exception as e:  # noqa
        raise H.Violation('C19:tokenize:raised-%s@%s' % (type(e).__name__, H.inner_frame(e)), case, repr(e))
    i = 0
    n = len(s)
    prev_pos = -1
    kinds = set()
    ign_adjacent = False
    for k, t in enumerate(toks):
        text = str(t)
        if len(text) == 0:
            raise H.Violation('C19:tokenize:empty-token', case, 'token %d of %r is empty' % (k, [str(x) for x in toks]))
        start = None
        for ch in text:
            while i < n and s[i] != ch and s[i] in IGN:
                i += 1
            if i >= n or s[i] != ch:
                raise H.Violation('C19:tokenize:partition', case,
                                  'tokens %r do not reproduce the input: token %d %r, input offset %d' % (
                                      [str(x) for x in toks], k, text, i))
            if start is None:
                start = i
            i += 1
        pos = getattr(t, 'position', None)
        if pos != start:
            raise H.Violation('C19:tokenize:position', case,
                              'token %d %r records offset %r, its text starts at %d (tokens %r)' % (
                                  k, text, pos, start, [(str(x), x.position) for x in toks]))
        if pos <= prev_pos:
            raise H.Violation('C19:tokenize:order', case, 'token offsets not increasing: %r' % (
                [(str(x), x.position) for x in toks],))
        prev_pos = pos
        if len(text) > 1:
            kinds.add(int(t.category) if t.category is not None else -1)
        if (start > 0 and s[start - 1] in IGN) or (i < n and s[i] in IGN):
            from TexSoup.utils import TC
            if t.category != TC.Text:
                ign_adjacent = True
    while i < n and s[i] in IGN:
        i += 1
    if i != n:
        raise H.Violation('C19:tokenize:partition', case,
                          'input not exhausted: tokens %r cover %d of %d characters' % ([str(x) for x in toks], i, n))
    return cats, len(kinds) >= 2 or ign_adjacent


def plan(ctx):
    nshard = 64
    cps = [('cp', i, nshard) for i in range(nshard)]
    # quick: the full alphabet up to 3 symbols and a 24-symbol core up to 4; thorough: one symbol more each
    strs = [('str', ctx.pick(3, 4), i, 64, 'full') for i in range(64)] + \
           [('str', ctx.pick(4, 5), i, 64, 'core') for i in range(64)]
    rnd = [('rnd', ctx.pick(1500, 30000), i) for i in range(16)]
    return [('shard_codepoints', cps), ('shard_strings', strs), ('shard_random', rnd),
            ('shard_long', [('long', i, 16) for i in range(16)])]


def shard_codepoints(ctx, shard):
    _, idx, nshard = shard
    H.import_repo()
    res = H.Result()
    seen = set()
    total = 0
    for cp in range(idx, 0x110000, nshard):
        ch = chr(cp)
        cat_alone = None
        for s, sub in ((ch, 'codepoint-alone'), ('a' + ch + 'b', 'codepoint-embedded')):
            try:
                cats, _ = check_string(s, sub)
                c = cats[0].category if sub == 'codepoint-alone' else cats[1].category
                if cat_alone is None:
                    cat_alone = c
                elif c != cat_alone:
                    raise H.Violation('C19:categorize:context-dependent', {'sub': sub, 'src': s},
                                      'U+%04X has category %r alone and %r inside a..b' % (cp, cat_alone, c))
            except H.Violation as v:
                if v.kind not in seen:
                    seen.add(v.kind)
                    res.violations.append(v.record())
            total += 1
        nontrivial = not (ch.isascii() and ch.isalnum())
        res.evaluations += 2
        if nontrivial:
            res.nontrivial.add(cp)   # distinct by construction
            if len(res.samples) < 3 and cp % 9973 == idx:
                res.samples.append({'codepoint': 'U+%04X' % cp, 'alone_and_embedded': True})
    res.hist['codepoints'] += total // 2
    res.exhaustive['code_points(this run)'] = total // 2
    return res


def shard_strings(ctx, shard):
    _, L, idx, nshard, which = shard
    H.import_repo()
    res = H.Result()
    seen = set()
    total = 0
    alpha = ALPHA if which == 'full' else CORE
    for d in range(0, L + 1):
        for count, tup in enumerate(itertools.product(alpha, repeat=d)):
            if count % nshard != idx:
                continue
            s = ''.join(tup)
            nt = False
            try:
                _, nt = check_string(s, 'alphabet-string')
            except H.Violation as v:
                if v.kind not in seen:
                    seen.add(v.kind)
                    syms = H.ddmin(list(tup), lambda x: _fails(''.join(x), v.kind))
                    v.case['src'] = ''.join(syms)
                    res.violations.append(v.record())
                nt = True
            total += 1
            res.case(s, nt, sample=s, classes=['len%d' % d])
    res.exhaustive['strings_over_%d_symbols_len<=%d(this run)' % (len(alpha), L)] = total
    return res


def _fails(s, kind):
    try:
        check_string(s, 'min')
    except H.Violation as v:
        return v.kind == kind
    return False


def shard_random(ctx, shard):
    _, nexamples, idx = shard
    H.import_repo()
    from hypothesis import strategies as st
    res = H.Result()
    sym = st.one_of(st.sampled_from(ALPHA + ['right', 'Big', 'bigg', 'begin', 'end', '\\\\', '$$', 'ab', '1', '>', '.|']),
                    st.characters())
    strat = st.lists(sym, min_size=0, max_size=60).map(''.join)

    def prop(s):
        _, nt = check_string(s, 'random-string')
        res.case(s, nt, sample=s, classes=['rnd'])

    H.hyp_search(strat, prop, nexamples, ctx.seed * 100 + idx, res, known=ctx.known)
    return res


LONG_LENGTHS = (255, 256, 257, 511, 512, 513, 514, 1023, 1024, 1025, 2047, 2048, 2049, 4095, 4096, 4097, 8191, 8192, 8193,
                16383, 16384, 16385, 32769, 65537, 70001)
LONG_UNITS = ['a', 'a1.b,', 'ab ', ' ', '\n', 'ab \\x{c}$d$%e\n', '\\', '{}', '%', 'a\x00', '\\left(', 'é', '$', '\\\\']


def long_strings():
    """Long token runs and long inputs: one unit repeated up to a given total length (block / chunk sizes), alone and
    with a different token kind in front of and behind it."""
    for n in LONG_LENGTHS:
        for u in (LONG_UNITS if n <= 16385 else ['a', 'ab \\x{c}$d$%e\n']):
            body = (u * (n // len(u) + 1))[:n]
            yield body, u, n, 'bare'
            if n <= 8193:
                yield '{' + body + '}\\x', u, n, 'wrapped'
                yield 'b' + body, u, n, 'shifted'
            if n <= 16385 and u != 'a':
                yield '{' + body + 'a}', u, n, 'followed-by-letter'


def shard_long(ctx, shard):
    _, idx, nshard = shard
    H.import_repo()
    res = H.Result()
    seen = set()
    for k, (s, u, n, how) in enumerate(long_strings()):
        if k % nshard != idx:
            continue
        try:
            check_string(s, 'long-string')
        except H.Violation as v:
            if v.kind not in seen:
                seen.add(v.kind)
                v.case['src'] = s if len(s) <= 600 else s[:300] + '...'
                v.case['long'] = {'unit': u, 'length': n, 'how': how}
                res.violations.append(v.record())
            continue
        res.case((u, n, how), True, sample={'unit': u, 'length': n, 'how': how}, classes=['long:length>=%d' % (n // 1024 * 1024), 'long:' + how])
    return res


def replay(case):
    if case.get('long'):
        L = case['long']
        for s, u, n, how in long_strings():
            if (u, n, how) == (L['unit'], L['length'], L['how']):
                check_string(s, 'long-string')
        return
    check_string(case['src'], case.get('sub', 'replay'))
