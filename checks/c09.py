"""C09 - arguments attach by the one-line-break rule with exact contents."""
import itertools

from vlib import harness as H
from vlib import tokstr as T

RULE = ('a dedicated generator: command name outside the fixed-signature table (incl. starred and near-table names), '
        '0..3 bracket groups then 0..4 brace groups, a separator before every group drawn from attaching (empty, blanks, '
        'tabs, one line break with surrounding blanks) and detaching (blank line in several layouts, punctuation, comment, '
        '\\\\, \\%, ~) sets - the first detaching separator ends the run, later groups stay in the text - group bodies with '
        'nested and unbalanced foreign delimiters, a trailing text, in 14 enclosing contexts (top level, group, brace and '
        'bracket argument, environment, list item plain / after a command and a word, the four math delimiters, two named '
        'math environments, a definition body). Exhaustive: every separator at every position of every run shape <=2+2 in '
        'every context with all other separators empty; random beyond. Second generator: unpartnered [ and ] as plain text '
        'in every context. Oracle: find(name).args has exactly the kinds and texts of the groups before the first '
        'detaching separator, and str(soup) equals the source with only the attaching separators inside that run removed; '
        'in both tolerance modes. '
        'Non-trivial = >=2 groups with a non-empty attaching separator, a detaching separator at an interior position, or '
        'a body with a foreign delimiter; distinct by source'
        '. Also: bodies of 400 / 2500 / 9000 tokens in one group, lone \\begin / \\end inside brace and bracket arguments within a definition, and unpartnered brackets (incl. \\\\[2pt]) judged to be text leaves')
ASSUMPTIONS = [
    'a bracket group after a brace group is outside the stated run shape and is not generated adjacent to the run',
]

NAMES = ['tgt', 'tgt*', 'foo', 'section*', 'textbf*', 'cup*', 'labelx', 'Section', 'defs', 'inn', 'noindent*', 'leftx',
         'xverylongcommandnameverylongcommandname', 'DeclareFancyChapterHeadingStyleForAppendicesAndOtherBackMatterSectionsX*']
ATTACH = ['', ' ', '  ', '\t', '\n', ' \n', '\n ', ' \t\n\t ', ' ' * 33, '\n' + ' ' * 40, '\t' * 35 + '\n']
DETACH = ['\n\n', ' \n\n', '\n \n', '\n\n ', ' \n\t\n ', '.', ';', '%c\n', '\\\\', '\\%', '~', '\n\n\n',
          '@', '!', ':', ',', '+', '-', '=', '/', '|', '<', '>', '(', ')', '&', '#', '^', '_', '"', "'", '?', '1']
BRACE_BODIES = ['a', '', ']', '[', '][', '(', 'a]b', '\\y{z}', '\\y[z]', '{]}', ' ', '$x$', 'x\n\ny', '[a]', '\\y{[}', 'a b',
                '\\bf Title', '\\it x]y', '\\em a', '\\large b']
BRACKET_BODIES = ['a', '', '{]}', '(', '\\y{]}', '{[}', '$]$', '[', 'k=v', ' ', '\\y[z]', 'a}b']
TRAILS = ['', ' tail', '.', '\n\ntail', ';x', ' ']

# (prefix, suffix, allows_detached_brackets)
CONTEXTS = [
    ('top', '', '', True),
    ('group', 'p{q ', ' r}s', True),
    ('brace-arg', '\\o{q ', ' r}s', True),
    ('bracket-arg', '\\o[q ', ' r]s', False),
    ('env', '\\begin{e}q ', ' r\\end{e}s', True),
    ('env-arg', '\\begin{e}{q ', ' r}body\\end{e}', True),
    ('item', '\\begin{itemize}\\item ', ' r\\item z\\end{itemize}', True),
    ('item-after-cmd-word', '\\begin{itemize}\\item q \\w word ', ' r\\end{itemize}', True),
    ('item-label', '\\begin{itemize}\\item[q ', ' r] z\\end{itemize}', False),
    ('inline-math', 'p $q ', ' r$ s', True),
    ('display-math', 'p $$q ', ' r$$ s', True),
    ('paren-math', 'p \\(q ', ' r\\) s', True),
    ('bracket-math', 'p \\[q ', ' r\\] s', True),
    ('equation', '\\begin{equation}q ', ' r\\end{equation}', True),
    ('align-star', '\\begin{align*}q ', ' r\\end{align*}', True),
    ('definition', '\\newcommand{\\d}[1]{q ', ' r}s', True),
]


def build(name, groups, seps, trail, ctx):
    """groups: [(kind, body)], seps: separator before each group -> (source, expected args, expected output)."""
    _, pre, suf, _ = ctx
    src = '\\' + name
    out = '\\' + name
    attached = []
    running = True
    for (kind, body), sep in zip(groups, seps):
        g = kind + body + {'[': ']', '{': '}'}[kind]
        src += sep + g
        if running and sep in ATTACH:
            attached.append(g)
            out += g
        else:
            running = False
            out += sep + g
    src += trail
    out += trail
    return pre + src + suf, attached, pre + out + suf


def check_case(name, groups, seps, trail, ctx, sub='random', tolerance=0):
    src, want, out = build(name, groups, seps, trail, ctx)
    case = {'src': src, 'sub': sub, 'name': name, 'expected_args': want, 'expected_out': out, 'tolerance': tolerance}
    o = T.outcome(src, tolerance)
    if o[0] != 'ok':
        raise H.Violation('C09:parse:%s' % o[1], case, 'input does not parse: %r' % (o[2] if o[0] == 'leak' else o[1],))
    soup = o[1]
    node = soup.find(name)
    if node is None:
        raise H.Violation('C09:target-not-found', case, 'find(%r) is None' % name)
    got = [str(a) for a in node.args]
    if got != want:
        raise H.Violation('C09:args', case, 'attached %r, the run before the first detaching separator is %r' % (got, want))
    kinds = [type(a).__name__ for a in node.args]
    wantk = ['BracketGroup' if w[0] == '[' else 'BraceGroup' for w in want]
    if kinds != wantk:
        raise H.Violation('C09:arg-kinds', case, 'kinds %r, expected %r' % (kinds, wantk))
    t = str(soup)
    if t != out:
        raise H.Violation('C09:remainder', case, 'document serialises to %r, expected %r' % (t[:300], out[:300]))
    return case


def nontrivial(groups, seps):
    n_att = 0
    for s in seps:
        if s in ATTACH:
            n_att += 1
        else:
            break
    labels = []
    if n_att >= 2 and any(s != '' for s in seps[:n_att]):
        labels.append('nt:2+-groups-spaced')
    if 0 < n_att < len(seps):
        labels.append('nt:interior-detach')
    if any(any(c in b for c in '[]{(') for _, b in groups):
        labels.append('nt:foreign-delimiter')
    return labels


def plan(ctx):
    return [('shard_exhaustive', [('ex', i, 16) for i in range(16)]),
            ('shard_random', [('rnd', ctx.pick(2500, 60000), i) for i in range(16)]),
            ('shard_brackets', [('br', ctx.pick(600, 10000), i) for i in range(16)])]


def shard_exhaustive(ctx, shard):
    _, idx, nshard = shard
    H.import_repo()
    res = H.Result()
    seen = set()
    count = 0
    total = 0
    seps_all = ATTACH + DETACH
    maxb = 2
    for cx in CONTEXTS:
        for nb in range(0, maxb + 1):
            for nB in range(0, maxb + 1):
                ng = nb + nB
                if ng == 0:
                    continue
                groups = [('[', 'a')] * nb + [('{', 'b]' if cx[3] else 'b')] * nB
                for pos in range(ng):
                    for sep in seps_all:
                        if sep == '':
                            continue
                        if not cx[3] and sep not in ATTACH and any(k == '[' for k, _ in groups[pos:]):
                            continue   # a detached [..] inside an outer bracket would close it
                        if cx[0] in ('bracket-arg', 'item-label') and sep == '%c\n':
                            pass
                        count += 1
                        if count % nshard != idx:
                            continue
                        seps = [''] * ng
                        seps[pos] = sep
                        for name in (NAMES[0], NAMES[3 + (count // nshard) % (len(NAMES) - 3)]):
                            total += 1
                            try:
                                case = check_case(name, groups, seps, ' t', cx, 'exhaustive', tolerance=total % 2)
                            except H.Violation as v:
                                if v.kind not in seen:
                                    seen.add(v.kind)
                                    res.violations.append(v.record())
                                continue
                            res.case(case['src'], True, sample=case['src'], classes=['ex:' + cx[0]] + nontrivial(groups, seps))
    # long bodies: ~400 tokens inside one bracket / brace group in every context; 2 500 and 9 000 tokens in every fifth;
    # a trailing bracket group about 100 characters long
    for cx in CONTEXTS:
        count += 1
        if count % nshard != idx:
            continue
        for scale in ((1,) if count % 5 else (1, 6, 22)):
            long_b = ''.join('{w%d}' % k for k in range(130 * scale))       # no bracket inside
            long_B = ' '.join('\\y{%d}' % k for k in range(150 * scale))
            tail = 'w' * (88 + count % 9) + '\\emph{a}'
            for groups in ([('[', long_b), ('{', 'b'), ('{', 'c')], [('[', 'a'), ('[', long_b), ('{', long_B)], [('{', long_B), ('{', 'z')],
                           [('{', 'k'), ('[', tail)], [('{', 'k'), ('[', 'w' * (99 + count % 4))]):
                for sep in ('', ' '):
                    if sep and groups[0][0] == '{' and groups[-1][0] == '[':
                        continue        # a late bracket group attaches only when adjacent (outside the stated shape otherwise)
                    total += 1
                    try:
                        case = check_case('tgt', groups, [sep] * len(groups), ' t', cx, 'long-body')
                    except H.Violation as v:
                        if v.kind not in seen:
                            seen.add(v.kind)
                            res.violations.append(v.record())
                        continue
                    res.case(case['src'], True, sample=case['src'][:120] + '...', classes=['long-body:%s' % cx[0], 'long-body-scale:%d' % scale])
    # inside a definition a lone \\begin / \\end is an ordinary command - in brace AND bracket arguments of commands there
    cxd = [c for c in CONTEXTS if c[0] == 'definition'][0]
    lone = ['\\begin{center}', '\\end{center}', '\\begin{e}\\y', 'a\\end{itemize}', '\\begin{equation}']
    for k1, b1 in enumerate(lone):
        for shape in ([('[', b1), ('{', 'x')], [('{', b1)], [('[', 'o'), ('[', b1), ('{', 'x')], [('{', 'x'), ('{', b1)], [('[', b1)]):
            for sep in ('', ' '):
                count += 1
                if count % nshard != idx:
                    continue
                total += 1
                try:
                    case = check_case('tgt', shape, [sep] * len(shape), ' t', cxd, 'definition-lone-delimiter')
                except H.Violation as v:
                    if v.kind not in seen:
                        seen.add(v.kind)
                        res.violations.append(v.record())
                    continue
                res.case(case['src'], True, sample=case['src'], classes=['definition-lone-delimiter'])
    # long runs: every count of bracket / brace groups up to 12 (no arity folklore in the parser)
    for cx in CONTEXTS:
        for nb in range(0, 13):
            for nB in (0, 1, 9, 10, 12) if nb else range(0, 13):
                for sep in ('', ' '):
                    count += 1
                    if count % nshard != idx or nb + nB == 0:
                        continue
                    groups = [('[', 'o%d' % k) for k in range(nb)] + [('{', 'r%d' % k) for k in range(nB)]
                    seps = [sep] * len(groups)
                    for trail in (' \\z', ' t', '\n\n\\z', '\n\n{x}'):
                        total += 1
                        try:
                            case = check_case('tgt', groups, seps, trail, cx, 'long-run')
                        except H.Violation as v:
                            if v.kind not in seen:
                                seen.add(v.kind)
                                res.violations.append(v.record())
                            continue
                        res.case(case['src'], True, sample=case['src'], classes=['long-run:%s' % cx[0]])
    res.exhaustive['separator x position x shape<=2+2 x context x 2 names, and runs of up to 12+12 groups (this run)'] = total
    return res


def shard_random(ctx, shard):
    _, n, idx = shard
    H.import_repo()
    from hypothesis import strategies as st
    res = H.Result()

    @st.composite
    def cases(draw):
        cx = draw(st.sampled_from(CONTEXTS))
        name = draw(st.sampled_from(NAMES))
        nb = draw(st.integers(0, 3))
        nB = draw(st.integers(0, 4))
        bb = [b for b in BRACKET_BODIES if cx[3] or ']' not in b.replace('{]}', '').replace('\\y{]}', '').replace('$]$', '')]
        groups = [('[', draw(st.sampled_from(bb))) for _ in range(nb)] + \
                 [('{', draw(st.sampled_from(BRACE_BODIES if cx[3] else [b for b in BRACE_BODIES if True]))) for _ in range(nB)]
        seps = []
        detached = False
        for k, (kind, body) in enumerate(groups):
            if draw(st.integers(0, 9)) < 7:
                s = draw(st.sampled_from(ATTACH))
            else:
                s = draw(st.sampled_from(DETACH))
            if s not in ATTACH:
                detached = True
            seps.append(s)
        if not cx[3]:
            # inside an outer bracket: a bracket group may not end up detached
            run = True
            for k, ((kind, body), s) in enumerate(zip(groups, seps)):
                if s not in ATTACH:
                    run = False
                if not run and kind == '[':
                    groups = groups[:k]
                    seps = seps[:k]
                    break
        trail = draw(st.sampled_from(TRAILS))
        tol = draw(st.integers(0, 1))
        if not groups or all(s in ATTACH for s in seps) is False:
            pass
        # trailing text must not extend the name or attach
        if trail[:1].isalpha() or (name.endswith('*') and trail[:1] == '*'):
            trail = ' ' + trail
        return name, groups, seps, trail, cx, tol

    def prop(c):
        name, groups, seps, trail, cx, tol = c
        if not groups and trail == '' and cx[2][:1].isalpha():
            trail = ' '
        case = check_case(name, groups, seps, trail, cx, tolerance=tol)
        labels = nontrivial(groups, seps)
        res.case(case['src'], bool(labels), sample=case['src'], classes=['ctx:' + cx[0]] + labels)

    H.hyp_search(cases(), prop, n, ctx.seed * 100 + idx, res, known=ctx.known)
    return res


BR_CONTEXTS = [c for c in CONTEXTS]
BR_TEXTS = ['[', ']', '[ a', 'a ]', '] [', '[[', ']]', 'a [ b ] c [', '( ]', '[)', 'x]y[z', '[2pt]', '[-1.5em] x', '[ 3 mm ]', '[.5ex][1]']


def shard_brackets(ctx, shard):
    _, n, idx = shard
    H.import_repo()
    from hypothesis import strategies as st
    res = H.Result()
    strat = st.tuples(st.sampled_from(BR_CONTEXTS), st.sampled_from(BR_TEXTS),
                      st.sampled_from(['', 'a ', '. ', '\\\\ ', '%c\n', '$m$ ', '{g} ', '\\z{a}. ', '\\\\', 'a & b \\\\', '\\\\*']))

    def prop(c):
        cx, text, lead = c
        if not cx[3] and ']' in text:
            text = text.replace(']', ')')
        # the bracket must not follow a command: the item context opens with \item itself
        src = cx[1] + ('q ' if cx[0] == 'item' else '') + lead + text + cx[2]
        case = {'src': src, 'sub': 'unpartnered-bracket'}
        o = T.outcome(src, 0)
        if o[0] != 'ok':
            raise H.Violation('C09:bracket-text:parse:%s' % o[1], case, 'a bracket that does not follow a command needs no partner')
        t = str(o[1])
        if t != src:
            raise H.Violation('C09:bracket-text:roundtrip', case, 'serialises to %r' % t[:300])
        # ... and it is ordinary text: every bracket character written here is a character of a text leaf
        tv = ''.join(str(x) for x in o[1].text)
        if tv.count('[') != text.count('[') or tv.count(']') != text.count(']'):
            raise H.Violation('C09:bracket-text:not-text', case, 'the text leaves hold %d [ and %d ], written were %d and %d' % (
                tv.count('['), tv.count(']'), text.count('['), text.count(']')))
        for nm in ('o', 'z', 'w'):
            for nd in o[1].find_all(nm):
                if any(('[' in str(a) or ']' in str(a)) and str(a) not in ('{a}',) and nm != 'o' for a in nd.args):
                    raise H.Violation('C09:bracket-text:attached', case, '%r took %r' % (nm, [str(a) for a in nd.args]))
        res.case(src, True, sample=src, classes=['bracket:' + cx[0]])

    H.hyp_search(strat, prop, n, ctx.seed * 100 + idx + 50, res, known=ctx.known)
    return res


def replay(case):
    src = case['src']
    o = T.outcome(src, case.get('tolerance', 0))
    if case.get('sub') == 'unpartnered-bracket':
        if o[0] != 'ok':
            raise H.Violation('C09:bracket-text:parse', case, str(o[1]))
        if str(o[1]) != src:
            raise H.Violation('C09:bracket-text:roundtrip', case, str(o[1])[:300])
        return
    if o[0] != 'ok':
        raise H.Violation('C09:parse:%s' % o[1], case, 'input does not parse')
    node = o[1].find(case['name'])
    got = [str(a) for a in node.args] if node is not None else None
    if got != case['expected_args']:
        raise H.Violation('C09:args', case, 'attached %r, expected %r' % (got, case['expected_args']))
    if str(o[1]) != case['expected_out']:
        raise H.Violation('C09:remainder', case, 'serialises to %r' % str(o[1])[:300])
