"""C03 - search returns exactly the matching nodes."""
from vlib import harness as H
from vlib import deepchain as DC
from vlib import texgen as G
from vlib import oracles as O
from vlib import docrun as D

RULE = ('generated documents (twin profile favoured so that names repeat); search roots: the document and a spread of '
        'its nodes; queries: every command/environment name occurring in the document (incl. starred, item, begin/end '
        'inside definitions), absent names, lists of names, full-expression queries (text of commands with arguments, '
        '\\begin{name} and \\begin{name}+arguments). Oracle from the generating syntax tree: the set of spans of the '
        'nodes of that name (resp. text/opening) strictly inside the root, reached through bodies, items, math, groups '
        'and argument groups; find == first of find_all or None; count == len; attribute access == find. '
        'Non-trivial = a queried name occurs >=2x in >=2 container kinds, or inside an argument group at depth >=2, or '
        'the root is not the document; distinct by source'
        '. Also: homogeneous chains nested 45..270 deep - find_all / count / find by closed form (all non-trivial)')
ASSUMPTIONS = [
    'the order of find_all is not part of the statement: results are compared as multisets of source offsets (find_all[0] defines find)',
    "not queried: names containing '{' or '[' (they are full-expression syntax), TexSoup's internal names for unnamed regions "
    "($, $$, BraceGroup, math/displaymath when \\( or \\[ occur), attribute access for real TexNode attributes, "
    "full-expression queries that start with \\end{ (an environment also answers to its closing delimiter)",
]
PROFILES = ['twin', 'smalltwin', 'twin', 'lists', 'twin', 'defs', 'quick', 'twin']
ABSENT = ['zzz', 'nosuch*']
NODE_ATTRS = {'expr', 'parent', 'char_to_line'}


def reachable(nodes, acc, container, depth):
    """(syntax node, container kind, arg depth) for every node TexSoup can reach (not inside verbatim/comments,
    not bare-command arguments)."""
    for n in nodes:
        acc.append((n, container, depth))
        for a in n.args:
            if a.kind != 'cmdarg':
                reachable(a.body, acc, 'arg', depth + 1)
        if n.body is not None:
            reachable(n.body, acc, n.kind if n.kind != 'env' or not n.math else 'mathenv', depth)


def name_of(n):
    if n.kind == 'cmd':
        return n.name
    if n.kind == 'item':
        return 'item'
    if n.kind in ('env', 'list', 'verb'):
        return n.name
    return None


def opening(n, src):
    """\\begin{name} and \\begin{name}+args as written."""
    b = '\\begin{%s}' % n.name
    if n.args:
        return b, src[n.span[0]:n.args[-1].span[1]]
    return b, b


def check_doc(nodes, src, case, res):
    soup = D.parse(src, 'C03', case)
    allr = []
    reachable(nodes, allr, 'top', 0)
    by_start = {n.span[0]: n for n, _, _ in allr if n.kind not in ('text', 'comment')}
    has_paren_math = any(n.kind == 'math' and n.delim in ('\\(', '\\[') for n, _, _ in allr)

    def subtree(root_syntax):
        acc = []
        if root_syntax is None:
            reachable(nodes, acc, 'top', 0)
        else:
            for a in root_syntax.args:
                if a.kind != 'cmdarg':
                    reachable(a.body, acc, 'arg', 1)
            if root_syntax.body is not None:
                reachable(root_syntax.body, acc, root_syntax.kind, 0)
        return acc

    tex_nodes = [d for d in soup.descendants if O.classify(d) == 'node' and O.classify(d.expr) not in ('text',)]
    roots = [(soup, None)]
    step = max(1, len(tex_nodes) // 8)
    for d in tex_nodes[::step][:10]:
        sn = by_start.get(d.position)
        if sn is not None:
            roots.append((d, sn))
    labels = set()
    for root, rs in roots:
        sub = subtree(rs)
        names = {}
        containers = {}
        for n, cont, depth in sub:
            nm = name_of(n)
            if nm is None:
                continue
            names.setdefault(nm, []).append(n.span[0])
            containers.setdefault(nm, set()).add(cont)
            if depth >= 2:
                labels.add('nt:name-in-argument-depth-2+')
        for nm, cs in containers.items():
            if len(names[nm]) >= 2 and len(cs) >= 2:
                labels.add('nt:name-2x-in-2-container-kinds')
        if rs is not None:
            labels.add('nt:root-not-document')
        queries = []
        for nm in sorted(names):
            if '{' in nm or '[' in nm:
                continue
            if nm in ('math', 'displaymath') and has_paren_math:
                continue
            queries.append((nm, sorted(names[nm])))
        for nm in ABSENT:
            queries.append((nm, []))
        plain = [q for q in queries if q[1]]
        # list queries
        if plain:
            a = plain[0]
            b = plain[-1]
            queries.append(([a[0]], a[1]))
            queries.append(([a[0], 'zzz'], a[1]))
            if a[0] != b[0]:
                queries.append(([a[0], b[0]], sorted(a[1] + b[1])))
            if len(plain) >= 3:
                c = plain[len(plain) // 2]
                if c[0] not in (a[0], b[0]):
                    queries.append(([b[0], 'zzz', c[0], a[0]], sorted(a[1] + b[1] + c[1])))
        # full-expression queries
        texts = {}
        for n, cont, depth in sub:
            if n.kind in ('cmd', 'item', 'env', 'list', 'verb', 'group', 'math'):
                texts.setdefault(src[n.span[0]:n.span[1]], []).append(n.span[0])
        fq = []
        for n, cont, depth in sub:
            if n.kind == 'cmd' and n.args and len(fq) < 4:
                fq.append(src[n.span[0]:n.span[1]])
            if n.kind in ('env', 'list', 'verb') and len(fq) < 8:
                fq.extend(opening(n, src))
            if n.kind == 'item' and n.args and len(fq) < 12:
                fq.append(src[n.span[0]:n.args[-1].span[1]])      # the head \item[..] alone
                fq.append(src[n.span[0]:n.span[1]])               # the whole item
        for q in sorted(set(fq)):
            if '{' not in q and '[' not in q:
                continue
            if q.startswith('\\end{'):
                continue    # an environment also answers to its closing \end{name}: outside the statement
            exp = set(texts.get(q, []))
            for n, cont, depth in sub:
                if n.kind in ('env', 'list', 'verb') and q in opening(n, src):
                    exp.add(n.span[0])
            queries.append((q, sorted(exp)))
            labels.add('q:full-expression')
        # an opening that differs from an existing one only in its name (same length, same arguments) matches nothing
        for n, cont, depth in sub[:40]:
            if n.kind in ('env', 'list', 'verb') and n.args:
                other = ''.join('q' if ch != 'q' else 'p' for ch in n.name)
                if other not in names:
                    queries.append(('\\begin{%s}' % other + src[n.span[0] + len('\\begin{%s}' % n.name):n.args[-1].span[1]], []))
                    break
        for q, want in queries:
            qcase = dict(case, query=q, root=None if rs is None else rs.span[0], expected=want)
            try:
                found = root.find_all(q)
                got = sorted(f.position for f in found)
            except Exception as e:  # noqa
                raise H.Violation('C03:find_all:raised-%s' % type(e).__name__, qcase, repr(e)[:200])
            if got != want:
                raise H.Violation('C03:find_all', qcase, 'find_all(%r) from %s found nodes at %r, the document has them at %r' % (
                    q, 'the document' if rs is None else 'node@%d' % rs.span[0], got, want))
            first = root.find(q)
            if (first is None) != (not found) or (found and first.position != found[0].position):
                raise H.Violation('C03:find', qcase, 'find(%r) = %r but find_all gives %r' % (q, first, found[:2]))
            if root.count(q) != len(want):
                raise H.Violation('C03:count', qcase, 'count(%r) = %r, expected %d' % (q, root.count(q), len(want)))
            if isinstance(q, str) and '{' not in q and '[' not in q and not hasattr(type(root), q) and q not in NODE_ATTRS \
                    and not q.startswith('_'):
                attr = getattr(root, q)
                if (attr is None) != (first is None) or (attr is not None and attr.position != first.position):
                    raise H.Violation('C03:attribute', qcase, 'getattr(node, %r) = %r, find gives %r' % (q, attr, first))
        if res is not None:
            res.hist['queries'] += len(queries)
    return labels


def plan(ctx):
    shards = [('doc', PROFILES[i % len(PROFILES)], ctx.pick(300, 4000), i) for i in range(16)]
    shards += [('doc', 'wide', ctx.pick(80, 1500), 16), ('doc', 'flat', ctx.pick(6, 100), 17)]
    return [('shard_docs', shards),
            ('shard_deep', [('deep', i, 8) for i in range(8)])]


DEEP_PARTS = ('parse', 'search', 'positions')


def shard_deep(ctx, shard):
    # chains nested as deeply as the pinned tree can handle (vlib/deepchain.py); closed-form oracle
    return DC.shard('C03', DEEP_PARTS, shard[1], shard[2], H.Result())


def shard_docs(ctx, shard):
    _, profile, n, idx = shard
    H.import_repo()
    res = H.Result()
    D.doc_shard(ctx, profile, n, idx, check_doc, res,
                nontrivial=lambda nodes, kinds, depth, labels: any(l.startswith('nt:') for l in labels))
    return res


def replay(case):
    if case.get('sub') == 'deep-chain':
        return DC.replay('C03', DEEP_PARTS, case)
    # the syntax tree is not stored; replay re-derives it by a fresh strict check of the recorded query
    from TexSoup import TexSoup
    src = case['src']
    soup = D.parse(src, 'C03', dict(case))
    q = case.get('query')
    want = case.get('expected')
    if q is None or want is None:
        return
    root = soup
    if case.get('root') is not None:
        for d in soup.descendants:
            if O.classify(d) == 'node' and d.position == case['root']:
                root = d
                break
    got = sorted(f.position for f in root.find_all(q))
    if got != want:
        raise H.Violation('C03:find_all', case, 'find_all(%r) found %r, expected %r' % (q, got, want))
