"""C10 - comments are inert."""
import itertools

from vlib import harness as H
from vlib import texgen as G
from vlib import tokstr as T
from vlib import oracles as O

RULE = ('comment payloads over a hostile alphabet (braces, brackets, dollars, backslashes, \\begin/\\end of the enclosing and '
        'of other environments, \\item, %, math switches, an otherwise absent command) - exhaustive up to L symbols, random '
        'beyond, every payload length up to 1100 (4200) characters - in 18 contexts (top level, group, environment body, brace/bracket argument of a command, of an '
        'environment, item label, item body, the four math delimiters, a named math environment, a definition body, '
        'end of input), preceded by nothing / text / a command / a command with groups, with 0..4 backslashes before the %. '
        'Metamorphic oracle for an even number of backslashes: the canonical tree equals that of the same context with '
        'the payload REF after substituting the one comment leaf, which is exactly %payload; the text round-trips; a '
        'command occurring only in the payload is not found. Odd number: no leaf starts with %, the leaf \\% exists and '
        'a command behind it is found. Non-trivial = the payload contains a delimiter that could close or open the '
        'enclosing construct; distinct by source')
ASSUMPTIONS = ['the reference payload REF is plain text; the context trees come from the code under test only for the REF variant']

ATOMS = ['a', ' ', '{', '}', '[', ']', '$', '$$', '\\', '\\\\', '\\begin{e}', '\\end{e}', '\\end{itemize}', '\\end{align}',
         '\\item', '%', '\\(', '\\)', '\\[', '\\]', '\\hidden{q}', '\\end{verbatim}', '#', '~', '\\x{', '\\begin{itemize}',
         '\\end', '\t', '\x0c', '\u2028', '\x85', '\x0b',
         '\\lstnewenvironment{e}{}{}', '\\DefineVerbatimEnvironment{itemize}', '\\newenvironment{e}', '\\begin{document}',
         '20', 'af', 'EE}', '\\makeatletter', '\\catcode`\\@=11', '\\verb|', '\\iffalse', '\\endinput', '\\begin{comment}'] + ['\\' + n for n in G.EXTRA_NAMES]
CONTEXTS = [
    ('top', 'a ', 'z'),
    ('group', 'p{q ', 'r}s'),
    ('env-body', '\\begin{e}q ', 'r\\end{e}s'),
    ('cmd-brace-arg', '\\o{q ', 'r}s'),
    ('cmd-bracket-arg', '\\o[q ', 'r]s'),
    ('env-brace-arg', '\\begin{e}{q ', 'r}b\\end{e}'),
    ('env-bracket-arg', '\\begin{e}[q ', 'r]b\\end{e}'),
    ('item-label', '\\begin{itemize}\\item[q ', 'r] b\\end{itemize}'),
    ('item-body', '\\begin{itemize}\\item q ', 'r\\item z\\end{itemize}'),
    ('inline-math', '$q ', 'r$'),
    ('display-math', '$$q ', 'r$$'),
    ('paren-math', '\\(q ', 'r\\)'),
    ('bracket-math', '\\[q ', 'r\\]'),
    ('align', '\\begin{align}q ', 'r\\end{align}'),
    ('definition', '\\newcommand{\\d}{q ', 'r}s'),
    ('end-of-input', 'a ', None),
    # material behind the comment whose reading a declaration in the payload could change
    ('before-at-names', 'a ', 'z \\p@q{y} w@x \\@r{s} \\fi \\end{comment} |v| t'),
    ('cmd-then-comment-then-group', 'p \\o', '{a} s'),
]
LEADS = ['', 'w ', '\\c', '\\c[o]{m}', 'w\\%', 'see http://a.b/c', 'x=1&y', '\\section', 'x \\label']
# behind these the comment itself is taken as the missing mandatory argument and printed inside braces (C08's side
# condition): the text does not round-trip there, everything else is judged
BARE_LEADS = ('\\section', 'x \\label')
DANGEROUS = ('{', '}', '[', ']', '$', '\\end', '\\begin', '\\item', '\\)', '\\]', '\\(', '\\[')
_REF_CACHE = {}


def leaves(soup):
    out = []
    for e, d, role in O.walk_exprs(soup.expr):
        if O.classify(e) in ('text', 'str'):
            out.append(str(e))
    return out


def subst(c, old, new):
    if isinstance(c, tuple):
        if c == ('comment', old):
            return ('comment', new)
        return tuple(subst(x, old, new) for x in c)
    return c


def make(ctx, lead, k, payload):
    name, pre, suf = ctx
    end = '' if suf is None else '\n' + suf
    return pre + lead + '\\' * k + '%' + payload + end


def check_even(ctx, lead, k, payload, sub):
    src = make(ctx, lead, k, payload)
    case = {'src': src, 'sub': sub, 'context': ctx[0], 'lead': lead, 'backslashes': k, 'payload': payload}
    key = (ctx[0], lead, k)
    if key not in _REF_CACHE:
        ref = make(ctx, lead, k, 'REF')
        o = T.outcome(ref, 0)
        if o[0] != 'ok':
            # the reference variant is a well-formed document with a harmless comment: it must parse
            raise H.Violation('C10:reference-context-breaks:%s' % o[1], dict(case, src=ref, payload='REF'),
                              'the context with the harmless comment %%REF does not parse: %r' % ref)
        _REF_CACHE[key] = O.canon_tree(o[1])
    o = T.outcome(src, 0)
    if o[0] != 'ok':
        raise H.Violation('C10:payload-breaks-parse:%s' % o[1], case, 'with payload REF the context parses; with %r it gives %s' % (payload, o[1]))
    soup = o[1]
    if str(soup) != src and lead not in BARE_LEADS:
        raise H.Violation('C10:roundtrip', case, 'serialises to %r' % str(soup)[:300])
    got = O.canon_tree(soup)
    want = subst(_REF_CACHE[key], '%REF', '%' + payload)
    if got != want:
        raise H.Violation('C10:tree-depends-on-payload', case, O.first_diff(got, want) or '')
    lv = [l for l in leaves(soup) if l.startswith('%')]
    if lv != ['%' + payload]:
        raise H.Violation('C10:comment-leaf', case, 'comment leaves %r, expected exactly [%r]' % (lv, '%' + payload))
    if soup.find_all('hidden') or soup.count('hidden') or soup.find('hidden') is not None or \
            soup.find_all('\\hidden{q}') or soup.count('\\hidden{q}') or soup.find('\\hidden{q}') is not None:
        raise H.Violation('C10:payload-searchable', case, 'a command inside the comment is found by search')
    return case


def check_odd(ctx, lead, k, sub):
    payload = ' a \\live{x} b'
    src = make(ctx, lead, k, payload)
    case = {'src': src, 'sub': sub, 'context': ctx[0], 'lead': lead, 'backslashes': k, 'payload': payload}
    o = T.outcome(src, 0)
    if o[0] != 'ok':
        raise H.Violation('C10:escaped-percent:parse:%s' % o[1], case, 'escaped percent followed by live text does not parse')
    soup = o[1]
    lv = leaves(soup)
    if any(l.startswith('%') for l in lv):
        raise H.Violation('C10:escaped-percent:comment', case, 'a %% preceded by %d backslashes opened a comment: %r' % (k, lv))
    if '\\%' not in lv:
        raise H.Violation('C10:escaped-percent:leaf', case, 'no leaf \\%% among %r' % (lv,))
    if len(soup.find_all('live')) != 1:
        raise H.Violation('C10:escaped-percent:not-live', case, 'the command after \\%% is not found')
    if str(soup) != src and lead not in BARE_LEADS:
        raise H.Violation('C10:roundtrip', case, 'serialises to %r' % str(soup)[:300])
    return case


def plan(ctx):
    L = ctx.pick(2, 3)
    return [('shard_exhaustive', [('ex', L, i, 32) for i in range(32)]),
            ('shard_random', [('rnd', ctx.pick(1500, 40000), i) for i in range(16)]),
            ('shard_lengths', [('len', ctx.pick(1100, 4200), i, 16) for i in range(16)])]


def shard_exhaustive(ctx, shard):
    _, L, idx, nshard = shard
    H.import_repo()
    res = H.Result()
    seen = set()
    total = 0
    count = 0
    for d in range(0, L + 1):
        for tup in itertools.product(ATOMS, repeat=d):
            payload = ''.join(tup)
            if '\n' in payload:
                continue
            nt = any(x in payload for x in DANGEROUS)
            for cx in CONTEXTS:
                count += 1
                if count % nshard != idx:
                    continue
                # the longest payloads: the empty lead and one other lead in rotation; shorter ones: every lead
                for lead in (LEADS if d < L else ['', LEADS[1 + count % (len(LEADS) - 1)]]):
                    for k in ((0, 2) if d == L else (0, 2, 4)):
                        total += 1
                        try:
                            case = check_even(cx, lead, k, payload, 'exhaustive')
                        except H.Violation as v:
                            if v.kind not in seen:
                                seen.add(v.kind)
                                res.violations.append(v.record())
                            continue
                        res.case(case['src'], nt, sample=case['src'], classes=['ctx:' + cx[0], 'backslashes:%d' % k])
    if idx == 0:
        for cx in CONTEXTS:
            for lead in LEADS:
                for k in (1, 3):
                    total += 1
                    try:
                        case = check_odd(cx, lead, k, 'odd')
                    except H.Violation as v:
                        if v.kind not in seen:
                            seen.add(v.kind)
                            res.violations.append(v.record())
                        continue
                    res.case(case['src'], True, sample=case['src'], classes=['ctx:' + cx[0], 'backslashes:%d' % k])
    res.exhaustive['payloads<=%d_symbols x contexts x leads x backslashes (this run)' % L] = total
    return res


def shard_random(ctx, shard):
    _, n, idx = shard
    H.import_repo()
    from hypothesis import strategies as st
    res = H.Result()
    strat = st.tuples(st.sampled_from(CONTEXTS), st.sampled_from(LEADS), st.sampled_from([0, 0, 2, 4]),
                      st.lists(st.sampled_from(ATOMS), min_size=3, max_size=8).map(''.join))

    def prop(c):
        cx, lead, k, payload = c
        case = check_even(cx, lead, k, payload, 'random')
        res.case(case['src'], any(x in payload for x in DANGEROUS), sample=case['src'],
                 classes=['ctx:' + cx[0], 'backslashes:%d' % k])

    H.hyp_search(strat, prop, n, ctx.seed * 100 + idx, res, known=ctx.known)
    return res


LONG_CONTEXTS = ['top', 'group', 'env-body', 'cmd-bracket-arg', 'inline-math', 'item-body']
LONG_FILL = ['a', 'a }$]\\end{e}\\item{[ ']


def shard_lengths(ctx, shard):
    """EVERY payload length 0..N (block / window sizes): the comment stays one leaf and ends at its line end."""
    _, top, idx, nshard = shard
    H.import_repo()
    res = H.Result()
    seen = set()
    total = 0
    cxs = [c for c in CONTEXTS if c[0] in LONG_CONTEXTS]
    for n in range(idx, top + 1, nshard):
        cx = cxs[n % len(cxs)]
        for fill in LONG_FILL:
            payload = (fill * (n // len(fill) + 1))[:n]
            if payload.endswith('\\'):
                payload = payload[:-1] + 'a'
            total += 1
            try:
                case = check_even(cx, ['', 'w '][n % 2], 0, payload, 'length')
            except H.Violation as v:
                if v.kind not in seen:
                    seen.add(v.kind)
                    res.violations.append(v.record())
                continue
            res.case(case['src'], len(fill) > 1, sample={'context': cx[0], 'payload_length': n, 'payload_start': payload[:30]},
                     classes=['ctx:' + cx[0], 'payload-length>=%d' % (n // 256 * 256)])
    res.exhaustive['payload lengths 0..%d x 2 fillings (this run)' % top] = total
    return res


def replay(case):
    cx = [c for c in CONTEXTS if c[0] == case['context']][0]
    if case['backslashes'] % 2:
        check_odd(cx, case['lead'], case['backslashes'], 'replay')
    else:
        check_even(cx, case['lead'], case['backslashes'], case['payload'], 'replay')
