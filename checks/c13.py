"""C13 - recorded source positions are true offsets."""
import itertools
import re

from vlib import harness as H
from vlib import texgen as G
from vlib import oracles as O
from vlib import docrun as D

RULE = ('(a) generated documents with LF line structure (line-heavy, default, whitespace-rich, list, twin profiles): every '
        'command, environment, group, math region, argument group and text token satisfies src[p:p+len(str(n))]==str(n); '
        '(b) char_pos_to_line(i) == (number of LF before i, distance to the previous LF) for every offset (asked front to back, back to front and scattered, on one parse) of those '
        'documents and of ALL strings over {a, LF} up to length L (exhaustive); (c) for a fixed regex family (plain, grouping, look-around, precompiled) every '
        'search_regex match m satisfies src[m.position:m.position+len(m)]==m and the matches equal re.finditer applied to '
        'every leaf of soup.text at that leaf\'s offset. Non-trivial = document with >=3 lines and a node not at column 0, '
        'or a regex with >=2 matches in one leaf; for (b) every string with an LF; distinct by source')
ASSUMPTIONS = ['fresh parses only (positions are documented as not updated by edits)']
PROFILES = ['lines', 'quick', 'ws', 'lists', 'lines', 'twin', 'lines', 'defs']
REGEXES = [r'[a-z]+', r'\d+', r'\s+', r'.', r'\S+', r'\\.', r'\[|\]', r'a|b|x', r'x*', r'(?m)^.', r'o+\b',
           # capturing groups (the documented result is the whole match), look-around, precompiled patterns
           r'\w(\w+)', r'(\w)(\w)', r'(?:a|x|o) ?(\w)', r'(?<=\w)\w', r'\w(?=\w)', r'[a-z] (?P<n>\w+)',
           re.compile(r'\w(\w)'), re.compile(r'[A-Z]+', re.I)]


def _rxname(rx):
    return rx if isinstance(rx, str) else 're.compile(%r, %d)' % (rx.pattern, rx.flags)


def lookup_orders(n):
    """Offsets 0..n-1 front to back, then back to front, then a fixed scatter (multiplicative stride) - all on the
    same soup, so a line map that keeps state between look-ups is exercised in every direction."""
    for i in range(n):
        yield i
    for i in range(n - 1, -1, -1):
        yield i
    if n > 2:
        k = next(k for k in (7, 11, 13, 17, 19, 23, 29, 31) if n % k)
        for j in range(n):
            yield (j * k + 3) % n


def check_positions_map(src, soup, case, kind='C13'):
    for i in lookup_orders(len(src)):
        got = soup.char_pos_to_line(i)
        want = O.ref_line_col(src, i)
        if tuple(got) != want:
            c = dict(case)
            c['offset'] = i
            raise H.Violation('%s:line-column' % kind, c, 'char_pos_to_line(%d) = %r, character %r stands at %r' % (i, got, src[i], want))


def check_regex(src, soup, case):
    labels = set()
    leaves = list(soup.text)
    for rx in REGEXES:
        want = []
        for leaf in leaves:
            base = getattr(leaf, 'position', None)
            if not isinstance(base, int) or base < 0:
                continue
            ms = [(base + m.start(), m.group()) for m in re.finditer(rx, str(leaf))]   # start()/group() of the WHOLE match
            if len(ms) >= 2:
                labels.add('nt:regex-2+-matches-in-leaf')
            want.extend(ms)
        got = []
        for m in soup.search_regex(rx):
            p = getattr(m, 'position', None)
            if not isinstance(p, int) or src[p:p + len(m)] != str(m):
                raise H.Violation('C13:regex-offset', dict(case, regex=_rxname(rx)),
                                  'match %r reported at %r, source there is %r' % (str(m), p, src[p:p + len(m)] if isinstance(p, int) else None))
            got.append((p, str(m)))
        if sorted(got) != sorted(want):
            raise H.Violation('C13:regex-matches', dict(case, regex=_rxname(rx)),
                              'search_regex(%r) gave %r, finditer over the text leaves gives %r' % (rx, sorted(got)[:8], sorted(want)[:8]))
    return labels


def check_doc(nodes, src, case, res):
    soup = D.parse(src, 'C13', case)
    n = D.check_slices(src, soup, 'C13', case)
    D.check_descendant_slices(src, soup, 'C13', case)
    labels = set()
    if src.count('\n') >= 2:
        for e, depth, role in O.walk_exprs(soup.expr):
            p = getattr(e, 'position', -1)
            if O.classify(e) not in ('text', 'str') and isinstance(p, int) and p > 0 and src[p - 1] != '\n':
                labels.add('nt:3-lines-and-node-off-column-0')
                break
    check_positions_map(src, soup, case)
    labels |= check_regex(src, soup, case)
    if res is not None:
        res.hist['positions-checked'] += n
        res.hist['offsets-mapped'] += len(src)
    return labels


def plan(ctx):
    shards = [('doc', PROFILES[i % len(PROFILES)], ctx.pick(260, 12000), i) for i in range(16)]
    shards += [('doc', 'flat', ctx.pick(12, 300), 16), ('doc', 'flat', ctx.pick(12, 300), 17)]   # three-digit line numbers
    L = ctx.pick(11, 14)
    big = [('big', size) for size in ctx.pick((9000, 20000, 70000), (9000, 20000, 70000, 140000))] + [('twins', n) for n in (1100, 2100, 4200)]
    return [('shard_lines', [('lines', L, i, 16) for i in range(16)]), ('shard_docs', shards), ('shard_big', big)]


def shard_lines(ctx, shard):
    _, L, idx, nshard = shard
    H.import_repo()
    from TexSoup import TexSoup
    res = H.Result()
    total = 0
    seen = set()
    for d in range(0, L + 1):
        for count, tup in enumerate(itertools.product('a\n', repeat=d)):
            if count % nshard != idx:
                continue
            s = ''.join(tup)
            case = {'src': s, 'sub': 'line-map'}
            try:
                soup = TexSoup(s)
                check_positions_map(s, soup, case)
            except H.Violation as v:
                if v.kind not in seen:
                    seen.add(v.kind)
                    res.violations.append(v.record())
            except Exception as e:  # noqa
                k = 'C13:line-map:parse:%s' % type(e).__name__
                if k not in seen:
                    seen.add(k)
                    res.violations.append({'kind': k, 'case': case, 'detail': repr(e)[:200]})
            total += 1
            res.case(s, '\n' in s, sample=s, classes=['line-map:len%d' % d])
    res.exhaustive['strings_over_{a,LF}_len<=%d(this run)' % L] = total
    return res


def big_doc(kind, n):
    if kind == 'big':
        return D.big_source(n)
    # the same long paragraph (one text leaf of >= n characters) under two headings, and a third one that differs
    para = ('lorem ipsum dolor sit amet 42 ' * (n // 30 + 1))[:n]
    return '\\section{A}\n' + para + '\n\\section{B}\n' + para + '\n\\section{C}\n' + para[:-1] + 'x' + '\n\\emph{' + para + '}\n'


def shard_big(ctx, shard):
    """Documents of 9 K .. 70 K characters (offsets beyond any block size) and twin text leaves of >= 1 K characters."""
    kind, n = shard
    H.import_repo()
    res = H.Result()
    src = big_doc(kind, n)
    case = {'src': '%s(%d)' % (kind, n), 'sub': 'big', 'big': [kind, n]}
    try:
        labels = check_doc(None, src, case, res)
    except H.Violation as v:
        v.case['src'] = '%s(%d)' % (kind, n)
        res.violations.append(v.record())
    else:
        res.case((kind, n), True, sample={'kind': kind, 'size': len(src)}, classes=['big:' + kind, 'big:size>=%d' % (len(src) // 8192 * 8192)])
    return res


def shard_docs(ctx, shard):
    _, profile, n, idx = shard
    H.import_repo()
    res = H.Result()
    D.doc_shard(ctx, profile, n, idx, check_doc, res,
                nontrivial=lambda nodes, kinds, depth, labels: any(l.startswith('nt:') for l in labels))
    return res


def replay(case):
    if case.get('big'):
        check_doc(None, big_doc(case['big'][0], int(case['big'][1])), dict(case), None)
        return
    if case.get('sub') == 'line-map':
        from TexSoup import TexSoup
        check_positions_map(case['src'], TexSoup(case['src']), dict(case))
        return
    check_doc(None, case['src'], dict(case), None)
