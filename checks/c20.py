"""C20 - the look-ahead buffer is a faithful cursor over its sequence.

Oracle: a plain list plus an integer index.  Every operation sequence up to a
depth bound is executed on a fresh Buffer and on the model (the real object has
hidden state - the lazily filled queue - so sequences, not model states, are
enumerated); longer random histories come from Hypothesis.
"""
import itertools

from vlib import harness as H

RULE = ('all operation sequences up to a depth bound over string-backed and token-backed '
        'buffers (exhaustive), plus random histories of up to 40 operations, plus histories over buffers of up to '
        '~4000 items whose single moves / look-aheads / slices / scans span 33..1025 items; an operation whose '
        'precondition (in-range move, non-negative look-behind) fails in the model is pruned. '
        'Non-trivial = the sequence moves backward after the queue grew, scans after a look-ahead, '
        'or executes an operation at exhaustion; distinct by (backing, source, operation list)')
ASSUMPTIONS = [
    'out-of-range moves, negative slice bounds and look-behind before the start are outside the statement and not generated',
    'returned joined texts are compared as strings; single items also by recorded position',
]

PREDS = {
    'never': lambda t: False,
    'always': lambda t: True,
    'is_b': lambda t: str(t) == 'b' or str(t).startswith('b'),
    'not_a': lambda t: not str(t).startswith('a'),
}
# predicates that look at the item's recorded offset (token-backed buffers only): two items with equal text differ
POS_PREDS = {
    'pos_ge_2': (lambda t: getattr(t, 'position', -1) >= 2, lambda text, pos: pos >= 2),
    'b_after_3': (lambda t: str(t).startswith('b') and getattr(t, 'position', -1) > 3, lambda text, pos: text.startswith('b') and pos > 3),
    'a_odd_pos': (lambda t: str(t) == 'a' and getattr(t, 'position', 0) % 2 == 1, lambda text, pos: text == 'a' and pos % 2 == 1),
}
BUF_PREDS = {
    'sw_b': 'b',
    'sw_cb': 'cb',
    'sw_}': '}',
}

STR_SOURCES = ['', 'a', 'ab', 'abc', 'abcb']
TOK_SOURCES = ['', 'a', r'\a{b}', 'a b{c}', '$a$b', 'a%b\nb', r'\\b[a]b', 'a{a}a b{b']


def op_templates(deep=False):
    ops = [('next',)]
    for j in (0, 1, 2, 3):
        ops.append(('forward', j))
    for j in (0, 1, 2, 3):
        ops.append(('backward', j))
    for j in (-2, -1, 0, 1, 2, 5):
        ops.append(('peek', j))
    for ab in ((0, 0), (0, 1), (0, 2), (0, 6), (-1, 0), (-1, 1), (-2, 3), (1, 3), (2, 9)):
        ops.append(('peekr',) + ab)
    for ij in ((None, None), (0, None), (1, None), (None, 2), (0, 1), (1, 3), (2, 2), (3, 9), (5, None)):
        ops.append(('slice',) + ij)
    for ijs in ((0, 6, 2), (None, None, 2), (1, None, 3), (None, None, -1), (4, 0, -2)):
        ops.append(('slice3',) + ijs)
    for n in (1, 2, 3):
        ops.append(('hasNext', n))
    for s in ('', 'a', 'ab', 'b', 'bc'):
        ops.append(('startswith', s))
    for s in ('', 'a', 'ab', 'b'):
        ops.append(('endswith', s))
    for p in PREDS:
        ops.append(('forward_until', p))
        ops.append(('num_forward_until', p))
    for p in BUF_PREDS:
        ops.append(('forward_until_buf', p))
    for p in POS_PREDS:
        ops.append(('forward_until', p))
        ops.append(('num_forward_until', p))
    return ops


OPS = op_templates()
OPS_CORE = [('next',), ('forward', 1), ('forward', 2), ('backward', 1), ('backward', 2), ('peek', -1), ('peek', 0), ('peek', 1),
            ('peekr', 0, 2), ('peekr', -1, 1), ('slice', None, None), ('slice', 1, 3), ('slice3', None, None, 2), ('hasNext', 1),
            ('hasNext', 2), ('startswith', 'a'), ('startswith', 'ab'), ('endswith', 'a'), ('forward_until', 'never'),
            ('forward_until', 'is_b'), ('num_forward_until', 'is_b'), ('forward_until_buf', 'sw_b'), ('forward_until', 'pos_ge_2'),
            ('num_forward_until', 'b_after_3')]
BIG = (33, 64, 65, 100, 127, 128, 129, 130, 150, 200, 255, 256, 257, 258, 300, 511, 512, 513, 600, 1000, 1024, 1025)


def big_templates():
    """Moves, look-aheads and slices far beyond what is already fetched (block / window / threshold sizes)."""
    ops = []
    for j in BIG:
        ops += [('forward', j), ('backward', j), ('peek', j), ('peek', -j), ('peekr', 0, j), ('peekr', -j, 0),
                ('peekr', -j, j), ('hasNext', j), ('slice', None, j), ('slice', j, None), ('slice', j // 2, j),
                ('slice3', None, j, 2), ('slice3', 0, j, 7)]
    return ops


BIG_OPS = big_templates()


_TOK_CACHE = {}


def make(backing, source, genuine=False):
    """Fresh real buffer + the model's item list [(text, position)].

    Token-backed buffers wrap a lazy iterator over the token sequence; with
    genuine=True it is the tokenizer's own (generator-backed) buffer."""
    from TexSoup.utils import Buffer
    if backing == 'str':
        return Buffer(source), [(c, i) for i, c in enumerate(source)]
    if source not in _TOK_CACHE:
        from TexSoup.category import categorize
        from TexSoup.tokens import tokenize
        _TOK_CACHE[source] = list(tokenize(categorize(source)))
        if len(_TOK_CACHE) > 5000:
            _TOK_CACHE.clear()
    toks = _TOK_CACHE.get(source)
    if toks is None:
        return make(backing, source, genuine)
    items = [(str(t), t.position) for t in toks]
    if genuine:
        from TexSoup.category import categorize
        from TexSoup.tokens import tokenize
        return tokenize(categorize(source)), items
    return Buffer(iter(toks)), items


def text_of(x):
    return None if x is None else str(x)


def run_sequence(backing, source, ops, flags=None, genuine=False):
    """Execute ops on real and model; raise Violation at the first disagreement.
    Returns number of executed (not pruned) operations."""
    real, items = make(backing, source, genuine)
    n = len(items)
    pos = 0
    executed = 0
    grew = False      # cursor has advanced (queue grew) at some time
    peeked = False
    for k, op in enumerate(ops):
        name = op[0]
        exp_exc = None
        exp = None
        single = None
        # ---- model
        if name == 'next':
            if pos < n:
                exp, single = items[pos][0], items[pos]
                npos = pos + 1
            else:
                exp_exc, npos = StopIteration, pos
        elif name == 'forward':
            j = op[1]
            if pos + j > n:
                continue
            exp = ''.join(t for t, _ in items[pos:pos + j])
            npos = pos + j
        elif name == 'backward':
            j = op[1]
            if j > pos:
                continue
            exp = ''.join(t for t, _ in items[pos - j:pos])
            npos = pos - j
        elif name == 'peek':
            j = op[1]
            if pos + j < 0:
                continue
            if pos + j < n:
                exp, single = items[pos + j][0], items[pos + j]
            else:
                exp = None
            npos = pos
        elif name == 'peekr':
            a, b = op[1], op[2]
            if pos + a < 0 or pos + b < 0:
                continue
            exp = ''.join(t for t, _ in items[pos + a:pos + b])
            npos = pos
        elif name == 'slice':
            exp = ''.join(t for t, _ in items[op[1]:op[2]])
            npos = pos
        elif name == 'slice3':
            if op[3] < 0 and op[1] is not None:
                continue      # negative start bounds with a negative step are outside the statement
            exp = ''.join(t for t, _ in items[op[1]:op[2]:op[3]])
            npos = pos
        elif name == 'hasNext':
            exp = pos + op[1] - 1 < n
            npos = pos
        elif name == 'startswith':
            s = op[1]
            exp = ''.join(t for t, _ in items[pos:pos + len(s)]).startswith(s)
            npos = pos
        elif name == 'endswith':
            s = op[1]
            if len(s) > pos:
                continue
            exp = ''.join(t for t, _ in items[pos - len(s):pos]).endswith(s)
            npos = pos
        elif name in ('forward_until', 'num_forward_until'):
            if op[1] in POS_PREDS:
                if backing != 'tok':
                    continue
                mp = POS_PREDS[op[1]][1]
            else:
                mp = lambda text, pos_, f=PREDS[op[1]]: f(text)
            q = pos
            while q < n and not mp(items[q][0], items[q][1]):
                q += 1
            if name == 'forward_until':
                exp = ''.join(t for t, _ in items[pos:q])
                npos = q
            else:
                exp = q - pos
                npos = pos
        elif name == 'forward_until_buf':
            s = BUF_PREDS[op[1]]
            q = pos
            while q < n and not ''.join(t for t, _ in items[q:q + len(s)]).startswith(s):
                q += 1
            exp = ''.join(t for t, _ in items[pos:q])
            npos = q
        else:
            raise H.HarnessError('unknown op %r' % (op,))
        # ---- flags for the non-triviality rule
        if flags is not None:
            if pos >= n:
                flags.add('at_exhaustion')
            if name == 'backward' and op[1] > 0 and grew:
                flags.add('backward_after_growth')
            if name in ('forward_until', 'num_forward_until', 'forward_until_buf') and peeked:
                flags.add('scan_after_peek')
            if name in ('peek', 'peekr', 'slice', 'slice3', 'hasNext', 'startswith'):
                peeked = True
            if npos > pos:
                grew = True
        # ---- real
        executed += 1
        got_exc = None
        got = None
        try:
            if name == 'next':
                got = next(real)
            elif name == 'forward':
                got = real.forward(op[1])
            elif name == 'backward':
                got = real.backward(op[1])
            elif name == 'peek':
                got = real.peek(op[1])
            elif name == 'peekr':
                got = real.peek((op[1], op[2]))
            elif name == 'slice':
                got = real[op[1]:op[2]]
            elif name == 'slice3':
                got = real[op[1]:op[2]:op[3]]
            elif name == 'hasNext':
                got = real.hasNext(op[1])
            elif name == 'startswith':
                got = real.startswith(op[1])
            elif name == 'endswith':
                got = real.endswith(op[1])
            elif name == 'forward_until':
                got = real.forward_until(POS_PREDS[op[1]][0] if op[1] in POS_PREDS else PREDS[op[1]])
            elif name == 'num_forward_until':
                got = real.num_forward_until(POS_PREDS[op[1]][0] if op[1] in POS_PREDS else PREDS[op[1]])
            elif name == 'forward_until_buf':
                s = BUF_PREDS[op[1]]
                got = real.forward_until(lambda b, s=s: b.startswith(s), peek=False)
        except StopIteration as e:
            got_exc = e
        except Exception as e:  # noqa - classified below
            got_exc = e
        case = {'sub': 'buffer', 'backing': backing, 'source': source,
                'ops': [list(o) for o in ops[:k + 1]]}
        if exp_exc is not None:
            if got_exc is None or not isinstance(got_exc, exp_exc):
                raise H.Violation('C20:%s:expected-%s' % (name, exp_exc.__name__), case,
                                  'step %d %r: expected %s, got %r / %r' % (k, op, exp_exc.__name__, got, got_exc))
        else:
            if got_exc is not None:
                raise H.Violation('C20:%s:raised-%s@%s' % (name, type(got_exc).__name__, H.inner_frame(got_exc)),
                                  case, 'step %d %r raised %r (model: %r)' % (k, op, got_exc, exp))
            if isinstance(exp, bool) or isinstance(exp, int):
                ok = (got == exp) and isinstance(got, (bool, int))
            elif exp is None:
                ok = got is None
            else:
                ok = got is not None and str(got) == exp
                # a token-backed buffer must hand out the sequence's own tokens
                if ok and single is not None and backing == 'tok':
                    ok = getattr(got, 'position', None) == single[1]
            if not ok:
                raise H.Violation('C20:%s:return' % name, case,
                                  'step %d %r returned %r (position attr %r), model %r%s' % (
                                      k, op, got, getattr(got, 'position', None), exp,
                                      '' if single is None else ' @%r' % (single[1],)))
        rp = real.position
        if rp != npos:
            raise H.Violation('C20:%s:position' % name, case,
                              'after step %d %r cursor is %r, model %r' % (k, op, rp, npos))
        pos = npos
    return executed


# --------------------------------------------------------------------------


def plan(ctx):
    depth = 3
    shards = []
    sources = [('str', s) for s in STR_SOURCES] + [('tok', s) for s in TOK_SOURCES]
    # one shard per (first op) bucket, striped over 16 workers
    nshard = 16
    for i in range(nshard):
        shards.append(('bfs', depth, i, nshard, sources))
    if ctx.thorough:
        # depth 4 over a core of the operation templates
        shards += [('bfs4core', 4, i, 32, sources) for i in range(32)]
    rnd = [('rnd', ctx.pick(400, 6000), i) for i in range(16)]
    big = [('big', ctx.pick(120, 3000), i) for i in range(16)]
    return [('shard_bfs', shards), ('shard_random', rnd), ('shard_long', big)]


def shard_bfs(ctx, shard):
    label, depth, idx, nshard, sources = shard
    H.import_repo()
    res = H.Result()
    OPS = OPS_CORE if label == 'bfs4core' else globals()['OPS']
    nops = len(OPS)
    seen_kinds = set()
    total = 0
    for (backing, source) in sources:
        for d in range(1, depth + 1):
            for count, seq in enumerate(itertools.product(range(nops), repeat=d)):
                if count % nshard != idx:
                    continue
                ops = [OPS[i] for i in seq]
                flags = set()
                try:
                    ex = run_sequence(backing, source, ops, flags)
                except H.Violation as v:
                    if v.kind not in seen_kinds:
                        seen_kinds.add(v.kind)
                        ops_min = H.ddmin(v.case['ops'], lambda o: _fails(backing, source, o, v.kind))
                        v.case['ops'] = ops_min
                        res.violations.append(v.record())
                    ex = len(ops)
                    flags.add('violating')
                if ex < len(ops):
                    res.excluded['sequence-with-pruned-op'] += 1
                    continue
                total += 1
                res.case((backing, source, seq), bool(flags),
                         sample={'backing': backing, 'source': source, 'ops': [list(o) for o in ops]},
                         classes=['bfs:%s' % backing] + ['flag:' + f for f in flags])
    res.exhaustive['sequences_depth<=%d_over_%d_ops_x_%d_sources(this run, unpruned)' % (
        depth, nops, len(sources))] = total
    return res


def _fails(backing, source, ops, kind):
    try:
        run_sequence(backing, source, [tuple(o) for o in ops])
    except H.Violation as v:
        return v.kind == kind
    return False


def shard_random(ctx, shard):
    _, nexamples, idx = shard
    H.import_repo()
    from hypothesis import strategies as st
    res = H.Result()
    alpha = st.sampled_from(['a', 'b', 'c', '{', '}', '\\', ' ', '\n', '$', '%', '[', ']'])
    strat = st.tuples(
        st.sampled_from(['str', 'tok']),
        st.lists(alpha, min_size=0, max_size=14).map(''.join),
        st.lists(st.sampled_from(OPS), min_size=4, max_size=40))

    def prop(v):
        backing, source, ops = v
        flags = set()
        try:
            ex = run_sequence(backing, source, ops, flags, genuine=True)
        finally:
            pass
        res.case((backing, source, tuple(ops)), bool(flags),
                 sample={'backing': backing, 'source': source, 'ops': [list(o) for o in ops]},
                 classes=['rnd:%s' % backing] + ['flag:' + f for f in flags])
        res.hist['rnd:executed-ops'] += ex

    H.hyp_search(strat, prop, nexamples, ctx.seed * 100 + idx, res, known=ctx.known)
    return res


def shard_long(ctx, shard):
    """Buffers of hundreds to thousands of items; single moves, look-aheads, slices and scans that cross many items."""
    _, nexamples, idx = shard
    H.import_repo()
    from hypothesis import strategies as st
    res = H.Result()
    unit = st.sampled_from(['a', 'c', 'b', '{', '}', ' ', '$', '\\x', '[', 'a{', '\n'])
    run = st.tuples(unit, st.sampled_from([1, 2, 5, 31, 32, 33, 64, 100, 127, 128, 129, 200, 256, 257, 300, 513, 700]))
    source = st.lists(run, min_size=1, max_size=6).map(lambda rs: ''.join(u * k for u, k in rs))
    ops = st.lists(st.one_of(st.sampled_from(BIG_OPS), st.sampled_from(BIG_OPS), st.sampled_from(OPS)), min_size=2, max_size=20)
    strat = st.tuples(st.sampled_from(['str', 'tok']), source, ops)

    def prop(v):
        backing, source, ops = v
        flags = set()
        ex = run_sequence(backing, source, ops, flags, genuine=True)
        big = sum(1 for o in ops if o in BIG_OPS)
        res.case((backing, source, tuple(ops)), ex >= 2 and big >= 1,
                 sample={'backing': backing, 'source_length': len(source), 'ops': [list(o) for o in ops]},
                 classes=['long:%s' % backing, 'long:source>=%d' % (len(source) // 500 * 500)] + ['flag:' + f for f in flags])
        res.hist['long:executed-ops'] += ex

    H.hyp_search(strat, prop, nexamples, ctx.seed * 100 + idx, res, known=ctx.known,
                 keyfn=lambda v: repr(v), shrink_budget=300)
    return res


def replay(case):
    ops = [tuple(o) for o in case['ops']]
    run_sequence(case['backing'], case['source'], ops)
    run_sequence(case['backing'], case['source'], ops, genuine=True)
