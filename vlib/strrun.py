"""Shared driver for checks that run over strings (alphabet enumeration, random strings,
mutated documents, spaced renderings of generated documents)."""
from vlib import harness as H
from vlib import texgen as G
from vlib import tokstr as T


def balanced(s):
    """Conservative well-formedness scan: braces, brackets and begin/end pair up."""
    import re
    stack = []
    for m in re.finditer(r'\\begin\{([^{}]*)\}|\\end\{([^{}]*)\}|\\.|[{}\[\]]|%[^\n]*', s, re.S):
        t = m.group()
        if t.startswith('\\begin{'):
            stack.append(('env', m.group(1)))
        elif t.startswith('\\end{'):
            if not stack or stack[-1] != ('env', m.group(2)):
                return False
            stack.pop()
        elif t in '{[':
            stack.append(t)
        elif t == '}':
            if not stack or stack[-1] != '{':
                return False
            stack.pop()
        elif t == ']':
            if not stack or stack[-1] != '[':
                return False
            stack.pop()
    return not stack


def _minimise(check, v, symbols, joiner=''):
    def fails(syms):
        try:
            check(joiner.join(syms), 'min')
        except H.Violation as w:
            return w.kind == v.kind
        return False
    small = joiner.join(H.ddmin(list(symbols), fails))
    try:
        check(small, v.case.get('sub', 'min'))
    except H.Violation as w:
        if w.kind == v.kind:
            w.case['sub'] = v.case.get('sub', 'min')
            return w
    return v


def enum_shard(ctx, shard, check):
    """shard = (label, alphabet name, L, idx, nshard); check(s, sub) -> (judged, nontrivial, labels)."""
    label, alpha_name, L, idx, nshard = shard
    alpha = getattr(T, alpha_name)
    res = H.Result()
    seen = set()
    total = 0
    for tup in T.enumerate_strings(alpha, L, idx, nshard):
        s = ''.join(tup)
        total += 1
        try:
            judged, nt, labels = check(s, 'enum:' + label)
        except H.Violation as v:
            if v.kind not in seen and not (ctx.known and ctx.known(v)):
                seen.add(v.kind)
                res.violations.append(_minimise(check, v, tup).record())
            elif ctx.known and ctx.known(v):
                res.known_hits[ctx.known(v)] += 1
            continue
        if not judged:
            for l in labels:
                res.excluded[l] += 1
            continue
        res.case(s, nt, sample=s, classes=['enum:' + label] + list(labels))
    res.exhaustive['%s_len<=%d(this run, incl. strings outside the domain)' % (alpha_name, L)] = total
    return res


def random_shard(ctx, shard, check, alpha=None, maxlen=40):
    _, n, idx = shard
    from hypothesis import strategies as st
    res = H.Result()
    strat = st.lists(st.sampled_from(alpha or (T.A_TOK + T.A_CAT)), min_size=4, max_size=maxlen)

    def prop(syms):
        s = ''.join(syms)
        judged, nt, labels = check(s, 'random')
        if not judged:
            for l in labels:
                res.excluded[l] += 1
            return
        res.case(s, nt, sample=s, classes=['random'] + list(labels))

    H.hyp_search(strat, prop, n, ctx.seed * 100 + idx, res, known=ctx.known, shrink_budget=600)
    return res


def mutation_shard(ctx, shard, check, profiles=('small', 'small', 'lists', 'smalltwin', 'quick'), alpha=None):
    _, ndocs, idx = shard
    res = H.Result()
    seen = set()
    alpha = alpha or (T.A_CORE + ['\r', '.', '[a]', '{a}'])

    def prop(nodes):
        src = G.render(nodes)
        cap = 240 if ctx.thorough else 120
        src = src[:cap]
        for kind, pos, s in T.mutations(src, alpha, limit=None if len(src) <= 30 else (400 if not ctx.thorough else 1000)):
            try:
                judged, nt, labels = check(s, 'mutation:' + kind)
            except H.Violation as v:
                kid = ctx.known(v) if ctx.known else None
                if kid:
                    res.known_hits[kid] += 1
                elif v.kind not in seen:
                    seen.add(v.kind)
                    res.violations.append(_minimise(check, v, list(s)).record())
                continue
            if not judged:
                for l in labels:
                    res.excluded[l] += 1
                continue
            res.case(s, nt, sample=s, classes=['mut:' + kind] + list(labels))

    H.hyp_search(G.wfdoc(profiles[idx % len(profiles)]), prop, ndocs, ctx.seed * 100 + idx, res,
                 known=ctx.known, keyfn=G.text_of)
    return res
