"""Reference document model for edit histories (C15, C17): nested Python lists with a render()."""
import copy


class MText:
    kind = 'text'

    def __init__(self, s):
        self.s = s

    def render(self):
        return self.s


class MCmdArg:
    kind = 'cmdarg'

    def __init__(self, name):
        self.name = name

    def render(self):
        return '\\' + self.name


class MGroup:
    kind = 'group'

    def __init__(self, delim, body):
        self.delim = delim
        self.body = body
        self.args = []

    def render(self):
        return self.delim + ''.join(b.render() for b in self.body) + {'{': '}', '[': ']'}[self.delim]


class MCmd:
    kind = 'cmd'

    def __init__(self, name, args, body=None):
        self.name = name
        self.args = args
        self.body = body     # only \item has one

    def render(self):
        return '\\' + self.name + ''.join(a.render() for a in self.args) + \
            (''.join(b.render() for b in self.body) if self.body else '')


class MEnv:
    kind = 'env'

    def __init__(self, name, args, body):
        self.name = name
        self.args = args
        self.body = body

    def render(self):
        return '\\begin{%s}' % self.name + ''.join(a.render() for a in self.args) + \
            ''.join(b.render() for b in self.body) + '\\end{%s}' % self.name


class MMath:
    kind = 'math'

    def __init__(self, begin, end, body):
        self.begin, self.end, self.body = begin, end, body
        self.args = []
        self.name = {'$': '$', '$$': '$$', '\\(': 'math', '\\[': 'displaymath'}[begin]

    def render(self):
        return self.begin + ''.join(b.render() for b in self.body) + self.end


class MRoot:
    kind = 'root'

    def __init__(self, body):
        self.body = body
        self.args = []

    def render(self):
        return ''.join(b.render() for b in self.body)


CLOSE = {'$': '$', '$$': '$$', '\\(': '\\)', '\\[': '\\]'}


def from_syntax(nodes):
    """Build the model from the generator's syntax tree (never from TexSoup)."""
    out = []
    for n in nodes:
        k = n.kind
        if k == 'text':
            out.append(MText(n.text))
        elif k == 'comment':
            out.append(MText('%' + n.text + (n.delim or '')))
        elif k == 'cmd':
            out.append(MCmd(n.name, _args(n.args)))
        elif k == 'item':
            out.append(MCmd('item', _args(n.args), from_syntax(n.body)))
        elif k in ('env', 'list'):
            out.append(MEnv(n.name, _args(n.args), from_syntax(n.body)))
        elif k == 'verb':
            out.append(MEnv(n.name, _args(n.args), [MText(n.text)] if n.text else []))
        elif k == 'group':
            out.append(MGroup('{', from_syntax(n.body)))
        elif k == 'math':
            out.append(MMath(n.delim, CLOSE[n.delim], from_syntax(n.body)))
    return out


def _args(args):
    res = []
    for a in args:
        if a.kind == 'cmdarg':
            res.append(MCmdArg(a.name))
        else:
            res.append(MGroup(a.kind, from_syntax(a.body)))
    return res


def clone(m):
    return copy.deepcopy(m)


def is_node(m):
    return m.kind not in ('text', 'cmdarg')


def walk(container_owner, path=()):
    """Yield (node, owner, list, index, path) for every non-text model node reachable through bodies and
    argument groups. path steps: ('body', ordinal) | ('arg', k, ordinal), ordinals count non-text items."""
    lists = []
    for k, a in enumerate(getattr(container_owner, 'args', []) or []):
        if a.kind == 'group':
            lists.append((('arg', k), a.body))
    if getattr(container_owner, 'body', None) is not None:
        lists.append((('body',), container_owner.body))
    for where, lst in lists:
        ordn = 0
        for i, it in enumerate(lst):
            if not is_node(it):
                continue
            p = path + (where + (ordn,),)
            yield it, container_owner, lst, i, p
            yield from walk(it, p)
            ordn += 1


def text_leaves(owner):
    """Text leaves in document order (arguments first, then the body), as the text view walks them."""
    out = []
    for a in getattr(owner, 'args', []) or []:
        if a.kind == 'group':
            for it in a.body:
                if it.kind == 'text':
                    out.append(it.s)
                elif is_node(it):
                    out.extend(text_leaves(it))
    for it in getattr(owner, 'body', None) or []:
        if it.kind == 'text':
            out.append(it.s)
        elif is_node(it):
            out.extend(text_leaves(it))
    return out


def names(root):
    res = {}
    for n, owner, lst, i, p in walk(root):
        nm = getattr(n, 'name', None)
        if n.kind in ('cmd', 'env') and nm is not None:
            res.setdefault(nm, []).append(n.render())
    return res
