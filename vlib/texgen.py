"""wfdoc - grammar of well-formed LaTeX documents together with the syntax tree
they are written from (DESIGN.md 2.1).

A document is drawn as a tree of `Node`s; `render` maps it to source text and
annotates every node with its span; `canon` maps it to the canonical nested
tuples that `oracles.canon_tree` also produces from a TexSoup tree.  The tree
is the oracle: it never comes from the code under test.
"""
import re

from hypothesis import strategies as st

SKIP_BUILTIN = ('lstlisting', 'verbatim', 'verbatimtab', 'Verbatim', 'listing')
MATH_ENVS = ('align', 'align*', 'alignat', 'array', 'displaymath', 'eqnarray', 'eqnarray*', 'equation',
             'equation*', 'flalign', 'flalign*', 'gather', 'gather*', 'math', 'multline', 'multline*', 'split')
LIST_ENVS = ('itemize', 'enumerate', 'description')
SPECIAL = ('newcommand', 'renewcommand', 'providecommand')
SIZE_PREFIX = ('left', 'right', 'big', 'Big', 'bigg', 'Bigg')
DELIMS = ('(', ')', '<', '>', '[', ']', '{', '}', '\\{', '\\}', '.', '|', '\\langle', '\\rangle', '\\lfloor',
          '\\rfloor', '\\lceil', '\\rceil', '\\ulcorner', '\\urcorner', '\\lbrack', '\\rbrack')
ZERO_OPS = ('cup', 'cap', 'in', 'notin', 'infty')

CMD_NAMES = ('x', 'y', 'foo', 'bar', 'emph', 'textit', 'ref', 'cite', 'alpha', 'vspace*', 'x*', 'Q',
             # names that merely start like a special name must stay ordinary commands
             'itemsep', 'endnote', 'begingroup', 'lefteqn', 'biggl', 'inf', 'defn', 'labels', 'sectionmark',
             # names that are also used as environment names
             'center', 'small',
             # long names
             'includegraphics', 'multicolumn', 'averyveryverylongcommandname',
             'xverylongcommandnameverylongcommandname', 'DeclareFancyChapterHeadingStyleForAppendicesAndOtherBackMatterSectionsX',
             # common LaTeX names and names that look like attributes of the node class
             'rule', 'caption', 'bibitem', 'hline', 'footnote', 'frac', 'sqrt', 'deleted', 'visited', 'name', 'parent', 'string')
# Dictionary extraction (as fuzzers do): name-like string literals of the package under test that are NOT in this
# baseline (taken from the pinned tree) hint at new name-keyed behaviour; they join the pools as ordinary names, so
# the oracles expect them to behave like any other command / environment name.  Empty on the pinned tree.
DICT_BASELINE = frozenset(['Active', 'Alignment', 'Big', 'Bigg', 'BraceGroup', 'BracketBegin', 'BracketEnd', 'BracketGroup', 'CategoryCodes', 'CommandName', 'Comment', 'DisplayMathGroupBegin', 'DisplayMathGroupEnd', 'DisplayMathSwitch', 'EndOfLine', 'Escape', 'EscapedComment', 'GroupBegin', 'GroupEnd', 'Ignored', 'Invalid', 'Letter', 'LineBreak', 'Macro', 'MathGroupBegin', 'MathGroupEnd', 'MathSwitch', 'MergedSpacer', 'Other', 'ParenBegin', 'ParenEnd', 'PunctuationCommandName', 'SizeCommand', 'Spacer', 'Subscript', 'Superscript', 'TexArgs', 'TexCmd', 'TexDisplayMathEnv', 'TexDisplayMathModeEnv', 'TexEnv', 'TexGroup', 'TexMathEnv', 'TexMathModeEnv', 'TexNamedEnv', 'TexNode', 'TexText', 'Text', 'TokenCode', 'Verbatim', 'align', 'align*', 'alignat', 'array', 'begin', 'big', 'bigg', 'cap', 'comment', 'cup', 'def', 'displaymath', 'end', 'eqnarray', 'eqnarray*', 'equation', 'equation*', 'flalign', 'flalign*', 'gather', 'gather*', 'ignore', 'in', 'infty', 'item', 'iterator', 'label', 'langle', 'lbrack', 'lceil', 'left', 'lfloor', 'listing', 'lstlisting', 'math', 'multline', 'multline*', 'name', 'newcommand', 'noindent', 'notin', 'providecommand', 'rangle', 'rbrack', 'rceil', 'renewcommand', 'rfloor', 'right', 'section', 'spacers', 'split', 'string', 'symbols', 'text', 'textbf', 'tokenize', 'ulcorner', 'urcorner', 'verbatim', 'verbatimtab'])


IDENT_BASELINE = frozenset(['Active', 'Alignment', 'BraceGroup', 'BracketBegin', 'BracketEnd', 'BracketGroup', 'Buffer', 'CC', 'CharToLineOffset', 'CommandName', 'Comment', 'DisplayMathGroupBegin', 'DisplayMathGroupEnd', 'DisplayMathSwitch', 'EOFError', 'Empty', 'EndOfLine', 'Escape', 'EscapedComment', 'GroupBegin', 'GroupEnd', 'Ignored', 'IndexError', 'IntEnum', 'IntEnumBase', 'Invalid', 'Letter', 'LineBreak', 'Macro', 'MathGroupBegin', 'MathGroupEnd', 'MathSwitch', 'MergedSpacer', 'MixedBuffer', 'Other', 'ParenBegin', 'ParenEnd', 'PunctuationCommandName', 'SIGNATURES', 'Spacer', 'StopIteration', 'Subscript', 'Superscript', 'TC', 'TexArgs', 'TexCmd', 'TexDisplayMathEnv', 'TexDisplayMathModeEnv', 'TexEnv', 'TexExpr', 'TexGroup', 'TexMathEnv', 'TexMathModeEnv', 'TexNamedEnv', 'TexNode', 'TexSoup', 'TexText', 'TexUnNamedEnv', 'Text', 'Token', 'TypeError', 'ValueError', 'add', 'all', 'any', 'append', 'arg', 'args', 'attr', 'attrs', 'backward', 'begin', 'bisect', 'body', 'bool', 'bracket', 'buf', 'call', 'categorize', 'category', 'cc', 'chain', 'char', 'child', 'children', 'chr', 'class', 'classmethod', 'clear', 'clo', 'cls', 'coerce', 'command', 'condition', 'contains', 'content', 'contents', 'copy', 'count', 'decorator', 'default', 'delete', 'depth', 'descendant', 'descendants', 'empty', 'end', 'endswith', 'enumerate', 'env', 'eq', 'error', 'explanation', 'expr', 'exprs', 'extend', 'extras', 'filter', 'find', 'finditer', 'format', 'forward', 'functools', 'get', 'getattr', 'getitem', 'glue', 'group', 'hasNext', 'hasattr', 'hash', 'iadd', 'index', 'init', 'insert', 'int', 'isinstance', 'isspace', 'item', 'items', 'iter', 'iterator', 'itertools', 'join', 'key', 'keys', 'kwargs', 'len', 'line', 'list', 'lstrip', 'map', 'mapping', 'match', 'max', 'min', 'mode', 'name', 'new', 'next', 'node', 'nodes', 'object', 'offset', 'old', 'other', 'others', 'output', 'parent', 'parse', 'parsed', 'pattern', 'peek', 'pieces', 'point', 'pop', 'position', 'prev', 'printable', 'property', 'queue', 'radd', 'range', 're', 'read', 'remove', 'replace', 'repr', 'result', 'ret', 'reverse', 'rstrip', 'self', 'set', 'setter', 'skip', 'spacer', 'src', 'start', 'startswith', 'stop', 'str', 'string', 'strip', 'stripped', 'super', 'tex', 'text', 'token', 'tokenize', 'tokenizers', 'tokens', 'tolerance', 'tuple', 'union', 'value', 'values', 'version', 'wrap', 'wrapper', 'wraps'])


def extra_names():
    import ast
    import glob
    import os
    root = os.path.abspath(os.environ.get('VERIF_REPO', '/repo'))
    found = set()
    idents = set()
    for f in sorted(glob.glob(os.path.join(root, 'TexSoup', '*.py'))):
        try:
            tree = ast.parse(open(f, encoding='utf-8').read())
        except (OSError, SyntaxError):
            continue
        for n in ast.walk(tree):
            if isinstance(n, ast.Constant) and isinstance(n.value, str) and re.fullmatch(r'\\?[A-Za-z]{2,40}\*?', n.value):
                found.add(n.value.lstrip('\\'))
            # identifiers too: an attribute read on a node falls back to a search for a command of that name
            ident = (n.attr if isinstance(n, ast.Attribute) else n.id if isinstance(n, ast.Name) else n.arg if isinstance(n, ast.arg)
                     else n.name if isinstance(n, (ast.FunctionDef, ast.ClassDef)) else None)
            if ident and re.fullmatch(r'[A-Za-z]{2,40}', ident.strip('_')) and ident.strip('_') not in IDENT_BASELINE:
                idents.add(ident.strip('_'))
    return tuple(sorted(found - DICT_BASELINE))[:12] + tuple(sorted(idents - found))[:8]


EXTRA_NAMES = extra_names()
CMD_NAMES = CMD_NAMES + EXTRA_NAMES * 2
ATTR_LIKE = ('deleted', 'visited', 'removed', 'dirty', 'cached', 'modified', 'index', 'hidden', 'parent', 'name', 'string', 'position',
             'contents', 'children', 'args', 'expr', 'text', 'all', 'find', 'count', 'copy', 'src', 'cache', 'seen', 'root', 'flag')
MATH_CMD_NAMES = ('frac', 'sqrt', 'sum', 'alpha', 'beta', 'mathbf', 'x', 'hat', 'lim', 'leftarrow', 'rightarrow',
                  'biggl', 'lefteqn', 'inf', 'Biggr', 'boldsymbol', 'operatorname', 'bar', 'vec') + tuple(n for n in EXTRA_NAMES if n.isalpha())
ENV_NAMES = ('e', 'f', 'center', 'quote', 'tabular', 'thm', 'figure*', 'doc', 'document', 'small', 'longtableenvironmentname',
             'anenvironmentwhosenameislongerthanthirtytwocharacters', 'verbatim*') + EXTRA_NAMES
INNER_MATH_ENVS = ('split', 'cases', 'array', 'aligned')

WORDS = ('a', 'b', 'x', 'foo', 'bar', 'Hello', 'world', '42', '3.14', 'é', 'naïve', 'ß', 'Ω', '日本', '👩',
         'cafe\u0301', 'i\u0308')          # also canonically decomposed sequences
PUNCT = ('.', ',', ';', ':', '!', '?', "'", '"', '-', '+', '=', '/', '@', '|', '<', '>', '(', ')', '&', '#', '^',
         '_', '~', '*')
BLANKS = (' ', '  ', '\t', '\n', ' \n', '\n ', '\n\n', ' \n \n ', '\n\t', '   ', ' ', '\n',
          # white space that is not one of TeX's spacer / end-of-line characters
          '\xa0', '\x0c', '\u2009', '\u2028', '\x85', '\r\n', ' \r\n')
ESCAPES = ('\\$', '\\%', '\\&', '\\#', '\\_', '\\{', '\\}', '\\~', '\\^', '\\ ', '\\,', '\\;', '\\!', '\\"',
           "\\'", '\\.', '\\|', '\\-', '\\/', '\\@', '\\\n', '\\\\', '\\\\', '\\<', '\\é',
           # a row end with its optional skip: the bracket does not follow a command, it is text
           '\\\\[2pt]', '\\\\[-1.5em]', '\\\\ [3mm]', '\\\\*[.5ex]')
MATH_ATOMS = ('a', 'b', 'x', 'n', '1', '2', '+', '-', '=', '<', '>', '/', '|', '.', ',', ':', ';', '!', "'",
              '^', '_', '&', ' ', '  ', '\n', '(', ')', '[', ']', '(', ']', '[', ')', '\\\\', '\\$', '\\{', '\\}',
              '\\,', '\\;', '\\!', '\\|', '\\ ', '*')
COMMENT_ATOMS = ('a', ' ', 'x y', '{', '}', '[', ']', '$', '$$', '\\', '\\\\', '\\begin{e}', '\\end{e}',
                 '\\end{itemize}', '\\item', '%', '\\(', '\\)', '\\[', '\\]', '\\x{', '\\end{verbatim}', '#', '~', '\x0c', '\u2028',
                 '\\lstnewenvironment{e}{}{}')
HOSTILE_ATOMS = ('a', ' ', '\n', 'x y', '{', '}', '[', ']', '$', '$$', '\\x', '\\\\ ', '\\begin{e}', '\\end{e}',
                 '\\end{itemize}', '\\item', '\\(', '\\)', '\\[', '\\]', '\\x{', '\\end{verb', '\\end{', '\\end',
                 '#', '~', '&', '%c\n', '\\textbf{', '\\begin{equation}', '\\left(', 'é', '\t', '\\%',
                 '\\end {verbatim}', '\\end\n{lstlisting}', '\r\n')
BENIGN_ATOMS = ('a', ' ', '\n', 'x y', 'foo', '.', ',', '42', ';', 'é')
SEPARATORS = ('.', ';', ',', '!', ' x', '.', '?')

ASCII_LETTERS = 'abcdefghijklmnopqrstuvwxyzABCDEFGHIJKLMNOPQRSTUVWXYZ'   # the only command-name letters
ATTACH_RE = re.compile(r'[ \t]*\n?[ \t]*[\[{]')
ATTACH_BRACKET_RE = re.compile(r'[ \t]*\n?[ \t]*\[')
ATTACH_SEPS = ('', '', ' ', '  ', '\t', '\n', ' \n', '\n ', ' \n\t ')


class Node:
    __slots__ = ('kind', 'name', 'args', 'body', 'text', 'delim', 'span', 'bspan', 'math', 'pre', 'special',
                 'sig', 'late_bracket')

    def __init__(self, kind, name=None, args=None, body=None, text=None, delim=None, math=False):
        self.kind = kind
        self.name = name
        self.args = args if args is not None else []
        self.body = body
        self.text = text
        self.delim = delim
        self.math = math
        self.span = None
        self.bspan = None
        self.pre = ''         # separator before the name group of an env (spaced variant)
        self.special = False
        self.sig = None
        self.late_bracket = False

    def copy(self):
        n = Node(self.kind, self.name, [a.copy() for a in self.args],
                 None if self.body is None else [b.copy() for b in self.body],
                 self.text, self.delim, self.math)
        n.pre = self.pre
        n.special = self.special
        n.sig = self.sig
        return n

    def __repr__(self):
        return 'Node(%s,%r)' % (self.kind, self.name or self.text or self.delim)


class Arg:
    """One argument group: kind '[' or '{' with a body, or 'cmdarg' (bare \\name)."""
    __slots__ = ('kind', 'body', 'name', 'span', 'bspan', 'pre')

    def __init__(self, kind, body=None, name=None, pre=''):
        self.kind = kind
        self.body = body if body is not None else []
        self.name = name
        self.span = None
        self.bspan = None
        self.pre = pre

    def copy(self):
        return Arg(self.kind, [b.copy() for b in self.body], self.name, self.pre)


CLOSE = {'{': '}', '[': ']', '$': '$', '$$': '$$', '\\(': '\\)', '\\[': '\\]'}


# --------------------------------------------------------------------------
# rendering


def render(nodes, spaced=False):
    """-> source string; annotates span / bspan on every node and argument."""
    out = []
    pos = [0]

    def emit(s):
        out.append(s)
        pos[0] += len(s)

    def r_args(args):
        for a in args:
            if spaced and a.pre:
                emit(a.pre)
            start = pos[0]
            if a.kind == 'cmdarg':
                emit('\\' + a.name)
                a.span = (start, pos[0])
                a.bspan = None
                continue
            emit(a.kind)
            b0 = pos[0]
            r_nodes(a.body)
            a.bspan = (b0, pos[0])
            emit(CLOSE[a.kind])
            a.span = (start, pos[0])

    def r_nodes(ns):
        for n in ns:
            start = pos[0]
            k = n.kind
            if k == 'text':
                emit(n.text)
            elif k == 'comment':
                emit('%' + n.text)
                if n.delim:
                    emit(n.delim)       # the terminating line break (belongs to the following text)
            elif k == 'cmd':
                emit('\\' + n.name)
                r_args(n.args)
            elif k == 'item':
                emit('\\item')
                r_args(n.args)
                b0 = pos[0]
                r_nodes(n.body)
                n.bspan = (b0, pos[0])
            elif k in ('env', 'list'):
                emit('\\begin' + (n.pre if spaced else '') + '{' + n.name + '}')
                r_args(n.args)
                b0 = pos[0]
                r_nodes(n.body)
                n.bspan = (b0, pos[0])
                emit('\\end' + (n.pre if spaced else '') + '{' + n.name + '}')
            elif k == 'verb':
                emit('\\begin{' + n.name + '}')
                r_args(n.args)
                b0 = pos[0]
                emit(n.text)
                n.bspan = (b0, pos[0])
                emit('\\end{' + n.name + '}')
            elif k == 'group':
                emit('{')
                b0 = pos[0]
                r_nodes(n.body)
                n.bspan = (b0, pos[0])
                emit('}')
            elif k == 'math':
                emit(n.delim)
                b0 = pos[0]
                r_nodes(n.body)
                n.bspan = (b0, pos[0])
                emit(CLOSE[n.delim])
            else:
                raise ValueError(k)
            n.span = (start, pos[0])

    r_nodes(nodes)
    return ''.join(out)


def text_of(nodes, spaced=False):
    """Rendering without touching recorded spans (used by the normaliser)."""
    out = []

    def r_args(args):
        for a in args:
            if spaced and a.pre:
                out.append(a.pre)
            if a.kind == 'cmdarg':
                out.append('\\' + a.name)
            else:
                out.append(a.kind)
                r(a.body)
                out.append(CLOSE[a.kind])

    def r(ns):
        for n in ns:
            k = n.kind
            if k == 'text':
                out.append(n.text)
            elif k == 'comment':
                out.append('%' + n.text + (n.delim or ''))
            elif k == 'cmd':
                out.append('\\' + n.name)
                r_args(n.args)
            elif k == 'item':
                out.append('\\item')
                r_args(n.args)
                r(n.body)
            elif k in ('env', 'list'):
                out.append('\\begin{' + n.name + '}')
                r_args(n.args)
                r(n.body)
                out.append('\\end{' + n.name + '}')
            elif k == 'verb':
                out.append('\\begin{' + n.name + '}')
                r_args(n.args)
                out.append(n.text)
                out.append('\\end{' + n.name + '}')
            elif k == 'group':
                out.append('{')
                r(n.body)
                out.append('}')
            elif k == 'math':
                out.append(n.delim)
                r(n.body)
                out.append(CLOSE[n.delim])
    r(nodes)
    return ''.join(out)


# --------------------------------------------------------------------------
# canonical form (shared with oracles.canon_tree)


def _merge(items):
    out = []
    for it in items:
        if it[0] == 'text' and out and out[-1][0] == 'text':
            out[-1] = ('text', out[-1][1] + it[1])
        elif it[0] == 'text' and it[1] == '':
            continue
        else:
            out.append(it)
    return tuple(out)


def canon_args(args):
    res = []
    for a in args:
        if a.kind == 'cmdarg':
            res.append(('cmdarg', a.name))
        else:
            res.append((a.kind, canon(a.body)))
    return tuple(res)


def canon(nodes):
    items = []
    for n in nodes:
        k = n.kind
        if k == 'text':
            items.append(('text', n.text))
        elif k == 'comment':
            items.append(('comment', '%' + n.text))
            if n.delim:
                items.append(('text', n.delim))
        elif k == 'cmd':
            items.append(('cmd', n.name, canon_args(n.args), ()))
        elif k == 'item':
            items.append(('cmd', 'item', canon_args(n.args), canon(n.body)))
        elif k in ('env', 'list'):
            items.append(('env', n.name, canon_args(n.args), canon(n.body)))
        elif k == 'verb':
            items.append(('env', n.name, canon_args(n.args), (('text', n.text),) if n.text else ()))
        elif k == 'group':
            items.append(('group', '{', canon(n.body)))
        elif k == 'math':
            items.append(('math', n.delim, canon(n.body)))
    return _merge(items)


# --------------------------------------------------------------------------
# walking


def walk(nodes, depth=0, parent=None, where='body'):
    """Yield (node, depth, parent, where) for every node incl. those inside arguments."""
    for n in nodes:
        yield n, depth, parent, where
        for a in n.args:
            if a.kind != 'cmdarg':
                yield from walk(a.body, depth + 1, n, 'arg' + a.kind)
        if n.body is not None:
            yield from walk(n.body, depth + 1, n, 'body')


def stats(nodes):
    kinds = set()
    maxd = 0
    count = 0
    for n, d, p, w in walk(nodes):
        count += 1
        maxd = max(maxd, d)
        k = n.kind
        if k == 'env' and n.math:
            k = 'mathenv'
        if k == 'cmd' and n.special:
            k = 'definition'
        kinds.add(k)
        if w.startswith('arg'):
            kinds.add('in-' + w)
    return kinds, maxd, count


# --------------------------------------------------------------------------
# generation


class Profile:
    def __init__(self, depth=3, sibs=4, twin=False, lists=1.0, defs=1.0, spaced=False, verb=1.0,
                 math=1.0, comments=1.0, strict_sep=False, flat=0, ws=0.0, lines=0.0, plain=False, benign_verbatim=False,
                 wrap=None):
        self.depth = depth
        self.sibs = sibs
        self.twin = twin
        self.lists = lists
        self.defs = defs
        self.spaced = spaced
        self.verb = verb
        self.math = math
        self.comments = comments
        self.strict_sep = strict_sep   # C14: after every command no letter, *, [, {
        self.flat = flat
        self.benign_verbatim = benign_verbatim   # hostile bodies only at top level / in environment bodies
        self.plain = plain  # C07.2: text without [ ], benign comments
        self.ws = ws        # probability that a text node is a single blank run
        self.lines = lines  # probability that a text node is a line break (+ indentation)
        self.wrap = wrap    # '[' / '{': the whole document becomes ONE argument group of a command (a very long argument)


class Ctx:
    __slots__ = ('math', 'bracket', 'special', 'hostile_ok', 'in_item', 'no_list')

    def __init__(self, math=False, bracket=False, special=False, hostile_ok=True, in_item=False, no_list=False):
        self.math = math
        self.bracket = bracket
        self.special = special
        self.hostile_ok = hostile_ok
        self.in_item = in_item
        self.no_list = no_list

    def derive(self, **kw):
        c = Ctx(self.math, self.bracket, self.special, self.hostile_ok, self.in_item, self.no_list)
        for k, v in kw.items():
            setattr(c, k, v)
        return c


class Gen:
    """Thin layer over Hypothesis' draw so that every choice shrinks."""

    def __init__(self, draw, prof, counters=None):
        self.draw = draw
        self.p = prof
        self.counters = counters if counters is not None else {}
        if prof.twin:
            self.words = tuple(self.pick(WORDS) for _ in range(2))
            self.cmds = tuple(self.pick(CMD_NAMES) for _ in range(2))
            if self.chance(0.2):
                # the two names of this document are names that also exist as identifiers in a program
                self.cmds = tuple(self.pick(ATTR_LIKE + EXTRA_NAMES) for _ in range(2))
            self.envs = tuple(self.pick(ENV_NAMES) for _ in range(2))
        else:
            self.words, self.cmds, self.envs = WORDS, CMD_NAMES, ENV_NAMES

    def count(self, key):
        self.counters[key] = self.counters.get(key, 0) + 1

    def int(self, a, b):
        return self.draw(st.integers(a, b))

    def pick(self, seq):
        return seq[self.draw(st.integers(0, len(seq) - 1))]

    def chance(self, p):
        return self.draw(st.integers(0, 99)) < int(p * 100)

    def weighted(self, table):
        total = sum(w for _, w in table)
        r = self.draw(st.integers(0, max(0, int(total * 10) - 1))) / 10.0
        acc = 0.0
        for name, w in table:
            acc += w
            if r < acc:
                return name
        return table[-1][0]

    # ---- leaves
    def text(self, ctx, maxatoms=5):
        if self.p.flat and self.chance(0.04):
            maxatoms = 160        # rarely a very long text run (well over 100 tokens)
        if self.p.ws and self.chance(self.p.ws):
            return Node('text', text=self.pick(BLANKS))
        if self.p.lines and self.chance(self.p.lines):
            return Node('text', text=self.pick(('\n', '\n  ', ' \n', '\n\n', '\n\t')) + ('' if ctx.math else self.pick(self.words)))
        n = self.int(1, maxatoms)
        parts = []
        for _ in range(n):
            if ctx.math:
                a = self.pick(MATH_ATOMS)
            else:
                k = self.int(0, 9)
                if k < 4:
                    a = self.pick(self.words)
                elif k < 6:
                    a = self.pick(BLANKS)
                elif k < 8:
                    a = self.pick(PUNCT)
                elif k < 9:
                    a = self.pick(ESCAPES)
                elif self.p.plain:
                    a = self.pick(('(', ')', ';'))
                else:
                    a = self.pick(('[', ']', '[', '(', ')'))
            if ctx.bracket and ']' in a:
                a = 'b'
            parts.append(a)
        return Node('text', text=''.join(parts))

    def comment(self, ctx):
        n = self.int(0, 4)
        payload = ''.join(self.pick(BENIGN_ATOMS[:2] + BENIGN_ATOMS[3:] if self.p.plain else COMMENT_ATOMS) for _ in range(n))
        return Node('comment', text=payload, delim='\n')

    def args_generic(self, ctx, depth, maxopt=2, maxreq=3):
        nopt = self.int(0, maxopt) if self.chance(0.35) else 0
        nreq = self.int(0, maxreq)
        if self.chance(0.03):
            # rarely a long run: LaTeX's nine-argument folklore must not leak into the parser
            if self.chance(0.5):
                nreq = self.int(8, 12)
            else:
                nopt = self.int(8, 11)
            self.count('long-argument-run')
            depth = 0
        args = []
        for _ in range(nopt):
            args.append(Arg('[', self.body(ctx.derive(bracket=True, hostile_ok=False), depth - 1, small=True)))
        for _ in range(nreq):
            args.append(Arg('{', self.body(ctx.derive(bracket=False, hostile_ok=False), depth - 1, small=True)))
        if self.p.spaced:
            for a in args:
                a.pre = self.pick(ATTACH_SEPS)
        return args

    # ---- nodes
    def cross_twin(self, n):
        """twin mode: copy a construct from one argument group into a later argument group or into the
        node's own body, so that a node has an identical twin in an earlier container of the same parent"""
        if not self.p.twin or not n.args or not self.chance(0.35):
            return n
        srcs = [(k, c) for k, a in enumerate(n.args) if a.kind != 'cmdarg' for c in a.body if c.kind not in ('comment',)]
        if not srcs:
            return n
        k, c = srcs[self.int(0, len(srcs) - 1)]
        later = [a for a in n.args[k + 1:] if a.kind == '{']
        dest = None
        if n.body is not None and n.kind != 'verb' and (not later or self.chance(0.5)):
            dest = n.body
        elif later:
            dest = later[self.int(0, len(later) - 1)].body
        if dest is not None:
            dest.insert(self.int(0, len(dest)), c.copy())
            self.count('twin:cross-container-copy')
        return n

    def cmd(self, ctx, depth):
        name = self.pick(MATH_CMD_NAMES if ctx.math and not self.p.twin else self.cmds)
        return self.cross_twin(Node('cmd', name=name, args=self.args_generic(ctx, depth)))

    def sigcmd(self, ctx, depth):
        k = self.int(0, 6)
        inner = ctx.derive(bracket=False, hostile_ok=False)
        ctx = ctx.derive(hostile_ok=False)
        if k == 0:
            args = []
            if self.chance(0.5):
                args.append(Arg('[', self.body(ctx.derive(bracket=True), depth - 1, small=True)))
            args.append(Arg('{', self.body(inner, depth - 1, small=True)))
            n = Node('cmd', name='section', args=args)
        elif k == 1:
            n = Node('cmd', name='section*', args=[Arg('{', self.body(inner, depth - 1, small=True))])
        elif k == 2:
            n = Node('cmd', name='textbf', args=[Arg('{', self.body(inner, depth - 1, small=True))])
        elif k == 3:
            n = Node('cmd', name='label', args=[Arg('{', [Node('text', text=self.pick(('k', 'sec:a', 'eq-1')))])])
        elif k == 4:
            n = Node('cmd', name='def', args=[Arg('cmdarg', name=self.pick(('x', 'foo', 'R'))),
                                              Arg('{', self.body(inner, depth - 1, small=True))])
        elif k == 5:
            n = Node('cmd', name='noindent', args=[])
        else:
            # the optional argument may also follow the title (read by the second pass of the argument reader)
            n = Node('cmd', name='section', args=[Arg('{', self.body(inner, depth - 1, small=True)),
                                                  Arg('[', self.body(ctx.derive(bracket=True), depth - 1, small=True))])
            n.late_bracket = True
        n.sig = True
        if self.p.spaced:
            for a in n.args:
                if a.kind != 'cmdarg' and not (k == 6 and a.kind == '['):
                    a.pre = self.pick(ATTACH_SEPS)
        return n

    def definition(self, ctx, depth):
        name = self.pick(SPECIAL)
        sctx = ctx.derive(special=True, bracket=False, hostile_ok=False)
        args = [Arg('{', [Node('cmd', name=self.pick(('foo', 'be', 'ee', 'R')))])]
        if self.chance(0.6):
            args.append(Arg('[', [Node('text', text=str(self.int(0, 3)))]))
            if self.chance(0.3):
                args.append(Arg('[', self.body(sctx.derive(bracket=True), depth - 1, small=True)))
        args.append(Arg('{', self.body(sctx, depth - 1, small=True)))
        n = Node('cmd', name=name, args=args)
        n.special = True
        if self.p.spaced:
            args[0].pre = self.pick(ATTACH_SEPS)   # only the first group may be spaced (C09 shape)
        return n

    def begin_end_cmd(self, ctx):
        which = self.pick(('begin', 'end'))
        # (C07.2 documents must stay free of math / verbatim / list openings even after a closer is lost)
        nm = self.pick(ENV_NAMES if self.p.plain else ENV_NAMES + ('equation', 'itemize', 'verbatim'))
        return Node('cmd', name=which, args=[Arg('{', [Node('text', text=nm)])])

    def env(self, ctx, depth):
        name = self.pick(self.envs)
        args = []
        if self.chance(0.35):
            if self.chance(0.5):
                args.append(Arg('[', self.body(ctx.derive(bracket=True, hostile_ok=False), depth - 1, small=True)))
            if self.chance(0.6):
                args.append(Arg('{', self.body(ctx.derive(bracket=False, hostile_ok=False), depth - 1, small=True)))
        n = Node('env', name=name, args=args, body=self.body(ctx.derive(bracket=False, in_item=False), depth - 1))
        if self.p.spaced:
            n.pre = self.pick(ATTACH_SEPS)
            # the name group opens the run of brace groups: further brace groups may be spaced, but a
            # bracket group after it is beyond C09's shape and attaches only when adjacent
            if all(a.kind == '{' for a in args):
                for a in args:
                    a.pre = self.pick(ATTACH_SEPS)
        return self.cross_twin(n)

    def lst(self, ctx, depth):
        name = self.pick(LIST_ENVS)
        body = []
        pre = self.int(0, 2)
        for _ in range(pre):
            if self.chance(0.3):
                body.append(self.comment(ctx))
            else:
                body.append(Node('text', text=self.pick(BLANKS)))
        nitems = self.int(1, max(1, self.p.sibs))
        ictx = ctx.derive(bracket=False, in_item=True, hostile_ok=False)
        for _ in range(nitems):
            args = []
            if self.chance(0.3):
                args.append(Arg('[', self.body(ctx.derive(bracket=True, hostile_ok=False), depth - 1, small=True)))
            body.append(self.cross_twin(Node('item', args=args, body=self.body(ictx, depth - 1))))
        return Node('list', name=name, body=body)

    def group(self, ctx, depth):
        return Node('group', body=self.body(ctx.derive(bracket=False, special=False, hostile_ok=False), depth - 1))

    def math(self, ctx, depth):
        delim = self.pick(('$', '$', '$$', '\\(', '\\['))
        mctx = ctx.derive(math=True, bracket=False, special=False, hostile_ok=False)
        body = self.body(mctx, depth - 1)
        if delim == '$' and not body:
            body = [Node('text', text=self.pick(('x', 'a+b', ' ')))]
        return Node('math', delim=delim, body=body)

    def mathenv(self, ctx, depth):
        name = self.pick(MATH_ENVS)
        args = []
        if name == 'array':
            args.append(Arg('{', [Node('text', text=self.pick(('cc', 'c|c', 'lr')))]))
        elif name == 'alignat':
            args.append(Arg('{', [Node('text', text=self.pick(('2', '3')))]))
        mctx = ctx.derive(math=True, bracket=False, special=False, hostile_ok=False)
        n = Node('env', name=name, args=args, body=self.body(mctx, depth - 1), math=True)
        if self.p.spaced:
            n.pre = self.pick(ATTACH_SEPS)
            for a in args:
                a.pre = self.pick(ATTACH_SEPS)
        return n

    def inner_mathenv(self, ctx, depth):
        name = self.pick(INNER_MATH_ENVS)
        args = []
        if name == 'array':
            args.append(Arg('{', [Node('text', text='cc')]))
        return Node('env', name=name, args=args, body=self.body(ctx.derive(bracket=False), depth - 1), math=True)

    def sizing(self, ctx):
        return Node('cmd', name=self.pick(SIZE_PREFIX) + self.pick(DELIMS), args=[])

    def zeroop(self, ctx):
        n = Node('cmd', name=self.pick(ZERO_OPS), args=[])
        n.sig = True
        return n

    def textcmd(self, ctx, depth):
        inner = ctx.derive(math=False, bracket=False, special=False, hostile_ok=False, no_list=True)
        return Node('cmd', name=self.pick(('text', 'mbox')), args=[Arg('{', self.body(inner, depth - 1, small=True))])

    def verb(self, ctx):
        name = self.pick(SKIP_BUILTIN)
        args = []
        if name == 'lstlisting' and self.chance(0.4):
            args.append(Arg('[', [Node('text', text='language=Python')]))
        if ctx.hostile_ok or not self.p.benign_verbatim:
            n = self.int(0, 6)
            body = ''.join(self.pick(HOSTILE_ATOMS) for _ in range(n))
            body = sanitize_verbatim(body, name)
            self.count('verb:hostile')
        else:
            n = self.int(0, 4)
            body = ''.join(self.pick(BENIGN_ATOMS) for _ in range(n))
            self.count('verb:benign')
        return Node('verb', name=name, args=args, text=body)

    # ---- bodies
    def node(self, ctx, depth):
        p = self.p
        deep = depth > 0
        if ctx.math:
            table = [('text', 4), ('cmd', 2.5), ('sizing', 1.2), ('zeroop', 1.0), ('comment', 0.4 * p.comments)]
            if deep:
                table += [('group', 1.5), ('textcmd', 0.6), ('inner_mathenv', 0.4)]
        else:
            table = [('text', 4), ('cmd', 2.5), ('sigcmd', 0.8), ('comment', 0.9 * p.comments)]
            if deep:
                table += [('math', 1.6 * p.math), ('group', 0.9), ('definition', 0.6 * p.defs)]
                if not ctx.special:
                    table += [('env', 1.6), ('mathenv', 0.7 * p.math), ('verb', 0.6 * p.verb)]
                    if not ctx.no_list:
                        table += [('list', 1.2 * p.lists)]
            if ctx.special:
                table += [('begin_end', 1.5)]
        k = self.weighted(table)
        if k == 'text':
            return self.text(ctx)
        if k == 'cmd':
            return self.cmd(ctx, depth)
        if k == 'sigcmd':
            return self.sigcmd(ctx, depth)
        if k == 'comment':
            return self.comment(ctx)
        if k == 'math':
            return self.math(ctx, depth)
        if k == 'group':
            return self.group(ctx, depth)
        if k == 'definition':
            return self.definition(ctx, depth)
        if k == 'env':
            return self.env(ctx, depth)
        if k == 'mathenv':
            return self.mathenv(ctx, depth)
        if k == 'verb':
            return self.verb(ctx)
        if k == 'list':
            return self.lst(ctx, depth)
        if k == 'begin_end':
            return self.begin_end_cmd(ctx)
        if k == 'sizing':
            return self.sizing(ctx)
        if k == 'zeroop':
            return self.zeroop(ctx)
        if k == 'textcmd':
            return self.textcmd(ctx, depth)
        if k == 'inner_mathenv':
            return self.inner_mathenv(ctx, depth)
        raise ValueError(k)

    def body(self, ctx, depth, small=False):
        if depth < 0:
            return [self.text(ctx, 2)] if self.chance(0.7) else []
        hi = min(self.p.sibs, 3) if small else self.p.sibs
        n = self.int(0, hi)
        nodes = [self.node(ctx, depth) for _ in range(n)]
        if self.p.twin and nodes and self.chance(0.5):
            i = self.int(0, len(nodes) - 1)
            j = self.int(0, len(nodes))
            nodes.insert(j, nodes[i].copy())
            self.count('twin:duplicated-sibling')
        return nodes


def sanitize_verbatim(body, name):
    """Enforce C11's side conditions on a raw body by construction."""
    end = '\\end{%s}' % name
    while end in body:
        body = body.replace(end, '\\end{%s }' % name)
    while body.endswith('\\'):
        body = body + ' '
    last = body.rsplit('\n', 1)[-1]
    if '%' in last:
        body = body + '\n'
    if ATTACH_RE.match(body):
        body = '.' + body
    return body


# --------------------------------------------------------------------------
# lexical-hazard normaliser (construction, not rejection)


def _first_chars(nodes, i, spaced=False):
    """Rendered text of the siblings from index i on (enough to decide adjacency)."""
    buf = ''
    while i < len(nodes):
        buf += text_of([nodes[i]], spaced)
        if buf.strip(' \t\n') != '' or len(buf) > 40:
            break
        i += 1
    return buf


def _has_list(nodes):
    for n, d, p, w in walk(nodes):
        if n.kind in ('list', 'item'):
            return True
    return False


def normalise(nodes, gen, ctx_bracket=False, lead=None, counters=None, strict=False, top=True):
    """Repair adjacencies that would change the meaning of the text relative to the tree.

    lead: None | 'cmdlike' - the construct opening this body (\\begin{n}+args, \\item+arg) attaches groups.
    """
    c = counters if counters is not None else {}

    def bump(k):
        c[k] = c.get(k, 0) + 1

    def sep(bracket):
        s = gen.pick(SEPARATORS) if gen is not None else '.'
        return Node('text', text=s)

    # recurse first
    for n in nodes:
        for a in n.args:
            if a.kind != 'cmdarg':
                normalise(a.body, gen, ctx_bracket=(a.kind == '['), counters=c, strict=strict, top=False)
        if n.body is not None:
            normalise(n.body, gen, ctx_bracket=False,
                      lead=('item-noargs' if n.kind == 'item' and not n.args else
                            'cmdlike' if n.kind in ('env', 'list', 'item') else None),
                      counters=c, strict=strict, top=False)
        if n.kind == 'verb':
            pass
    i = 0
    if lead == 'item-noargs' and nodes:
        fc = _first_chars(nodes, 0)
        if fc[:1] and (fc[0] in ASCII_LETTERS or fc[0] == '*'):
            nodes.insert(0, Node('text', text=' '))
            bump('repair:letter-after-item')
    if lead in ('cmdlike', 'item-noargs') and nodes:
        if ATTACH_RE.match(_first_chars(nodes, 0)):
            nodes.insert(0, sep(ctx_bracket))
            bump('repair:group-after-opening')
    while i < len(nodes):
        n = nodes[i]
        nxt = _first_chars(nodes, i + 1) if i + 1 < len(nodes) else ''
        k = n.kind
        if k == 'cmd':
            punct = any(n.name.startswith(p) and n.name[len(p):] in DELIMS for p in SIZE_PREFIX)
            zero = n.sig and n.name in ZERO_OPS + ('noindent',)
            if not n.args and not punct and nxt[:1] and (nxt[0] in ASCII_LETTERS or nxt[0] == '*'):
                nodes.insert(i + 1, sep(ctx_bracket))
                bump('repair:letter-after-command')
                continue
            if strict and not punct and nxt[:1] and (nxt[0] in ASCII_LETTERS or nxt[0] in '*[{' or ATTACH_RE.match(nxt)):
                nodes.insert(i + 1, sep(ctx_bracket))
                bump('repair:strict-separator-after-command')
                continue
            if not zero and ATTACH_RE.match(nxt):
                nodes.insert(i + 1, sep(ctx_bracket))
                bump('repair:group-after-command')
                continue
        elif k == 'math' and n.delim == '$':
            if nxt[:1] == '$':
                nodes.insert(i + 1, sep(ctx_bracket))
                bump('repair:dollar-after-inline-math')
                continue
        elif k == 'text' and ctx_bracket and ']' in n.text:
            n.text = n.text.replace(']', ')')
            bump('repair:bracket-in-optional')
        i += 1
    return c


# --------------------------------------------------------------------------
# public strategies


PROFILES = {
    'quick': Profile(depth=3, sibs=4),
    'deep': Profile(depth=5, sibs=5),
    'twin': Profile(depth=3, sibs=4, twin=True),
    'lists': Profile(depth=3, sibs=4, lists=3.0, defs=0.5),
    'defs': Profile(depth=3, sibs=4, defs=3.0, lists=1.5),
    'spaced': Profile(depth=3, sibs=4, spaced=True),
    'small': Profile(depth=2, sibs=3),
    'smalltwin': Profile(depth=2, sibs=3, twin=True),
    'tinytwin': Profile(depth=2, sibs=2, twin=True),
    # long flat documents: 60-250 top-level siblings, thousands of characters, three-digit line numbers
    'flat': Profile(depth=1, sibs=4, flat=250, lines=0.25),
    # wide small documents: 12-40 short siblings (two-digit indices) for the edit checks
    'wide': Profile(depth=1, sibs=3, flat=40, twin=True),
    # a flat document of hundreds to thousands of tokens as ONE bracket / brace argument of a command
    'longbracket': Profile(depth=1, sibs=4, flat=250, wrap='['),
    'longbrace': Profile(depth=1, sibs=4, flat=250, wrap='{'),
    'smalllists': Profile(depth=2, sibs=3, twin=True, lists=3.0),
    'smalldefs': Profile(depth=2, sibs=3, twin=True, defs=3.0),
    'strict': Profile(depth=3, sibs=4, twin=True, strict_sep=True),
    'nomath': Profile(depth=3, sibs=4, math=0.0, verb=0.0, lists=0.0, plain=True),
    # the same material as a long flat document (hundreds to thousands of tokens behind an early construct)
    'flatnomath': Profile(depth=1, sibs=4, flat=250, math=0.0, verb=0.0, lists=0.0, plain=True),
    'ws': Profile(depth=3, sibs=5, ws=0.45),
    'lines': Profile(depth=3, sibs=5, lines=0.4),
}


@st.composite
def wfdoc(draw, profile='quick', counters=None):
    """-> (nodes, counters).  Render with texgen.render(nodes)."""
    prof = PROFILES[profile] if isinstance(profile, str) else profile
    cnt = {} if counters is None else counters
    g = Gen(draw, prof, cnt)
    ctx = Ctx(bracket=(prof.wrap == '['), hostile_ok=not prof.wrap)
    nodes = g.body(ctx, prof.depth)
    if prof.flat:
        extra = g.int(prof.flat // 4, prof.flat)
        flat_prof_depth = 1
        for _ in range(extra):
            nodes.append(g.node(ctx, flat_prof_depth))
    if prof.wrap:
        if g.chance(0.5):
            args = [Arg(prof.wrap, nodes), Arg('{', [Node('text', text='z')])]
        else:
            args = [Arg('{', [Node('text', text='k')]), Arg(prof.wrap, nodes)]
        nodes = [Node('text', text='A '), Node('cmd', name='wrap', args=args), Node('text', text=' Z')]
    # a comment may end the document without a line break, at top level only
    elif nodes and nodes[-1].kind == 'comment' and g.chance(0.5):
        nodes[-1].delim = ''
    normalise(nodes, g, counters=cnt, strict=prof.strict_sep)
    return nodes
