"""Shared runner machinery: repository import, sharding, Hypothesis driver,
delta debugging, replay files, known findings, regression corpus, evidence.

Exit codes (see DESIGN.md 1.2): 0 held / 1 violation / 2 harness error.
"""
import collections
import hashlib
import json
import multiprocessing
import os
import signal
import sys
import time
import traceback

VERIF = os.path.dirname(os.path.dirname(os.path.abspath(__file__)))
REPO = os.path.abspath(os.environ.get('VERIF_REPO', '/repo'))
NPROC = int(os.environ.get('VERIF_NPROC', '16'))


class HarnessError(Exception):
    """Something is wrong with the checker itself (exit 2)."""


class Violation(Exception):
    """The property failed on one case.

    kind   : root-cause bucket key (sub-check + failure class + code site)
    case   : JSON-serialisable description sufficient for replay
    detail : human-readable expected/observed
    """

    def __init__(self, kind, case, detail=''):
        super().__init__(kind)
        self.kind = kind
        self.case = case
        self.detail = detail

    def record(self):
        case = self.case
        if isinstance(case, dict):        # keys starting with '_' are run-time scratch of a check, not part of the case
            case = {k: v for k, v in case.items() if not str(k).startswith('_')}
        return {'kind': self.kind, 'case': case, 'detail': self.detail}


def import_repo():
    """Put the repository under test first on sys.path and import TexSoup."""
    if sys.path[0] != REPO:
        sys.path.insert(0, REPO)
    for name in [m for m in sys.modules if m == 'TexSoup' or m.startswith('TexSoup.')]:
        mod = sys.modules[name]
        f = getattr(mod, '__file__', '') or ''
        if not os.path.abspath(f).startswith(REPO + os.sep):
            del sys.modules[name]
    try:
        import TexSoup  # noqa
        import TexSoup.reader, TexSoup.tokens, TexSoup.data, TexSoup.utils, TexSoup.category  # noqa
    except Exception as e:  # an import failure is not a property verdict
        raise HarnessError('cannot import TexSoup from %s: %r' % (REPO, e))
    f = os.path.abspath(TexSoup.__file__)
    if not f.startswith(REPO + os.sep):
        raise HarnessError('TexSoup imported from %s, expected under %s' % (f, REPO))
    return TexSoup


def inner_frame(exc, package='TexSoup'):
    """Innermost traceback frame inside the package: 'file:function'."""
    site = None
    e = exc
    if isinstance(exc, RuntimeError) and isinstance(exc.__cause__, StopIteration):
        e = exc.__cause__          # "generator raised StopIteration": blame where it was raised
    seen = 0
    while e is not None and seen < 5:
        tb = e.__traceback__
        for fs in traceback.extract_tb(tb):
            fn = fs.filename.replace('\\', '/')
            if '/%s/' % package in fn:
                site = '%s:%s' % (os.path.basename(fn), fs.name)
        if site:
            break
        e = e.__cause__ or e.__context__
        seen += 1
    return site or '?'


def h64(s):
    if not isinstance(s, str):
        s = repr(s)
    return int.from_bytes(hashlib.blake2b(s.encode('utf-8', 'surrogatepass'), digest_size=8).digest(), 'big')


class Result:
    """What one shard (or the merged run) covered."""

    def __init__(self):
        self.evaluations = 0
        self.nontrivial = set()
        self.samples = []
        self.hist = collections.Counter()
        self.excluded = collections.Counter()
        self.violations = []      # list of record dicts
        self.known_hits = collections.Counter()
        self.exhaustive = {}      # name -> size of a finite space enumerated completely
        self.notes = []
        self._next_sample = 1

    def case(self, key, nontrivial, sample=None, classes=()):
        self.evaluations += 1
        if nontrivial:
            self.nontrivial.add(h64(key))
            # keep a few samples spread over the run, not just the first ones
            if sample is not None and len(self.samples) < 4 and \
                    len(self.nontrivial) >= self._next_sample:
                self.samples.append(sample)
                self._next_sample = len(self.nontrivial) * 3 + 5
        for c in classes:
            self.hist[c] += 1

    def merge(self, other):
        self.evaluations += other.evaluations
        self.nontrivial |= other.nontrivial
        for s in other.samples:
            if len(self.samples) < 12:
                self.samples.append(s)
        self.hist.update(other.hist)
        self.excluded.update(other.excluded)
        self.known_hits.update(other.known_hits)
        seen = {v['kind'] for v in self.violations}
        for v in other.violations:
            if v['kind'] not in seen:
                seen.add(v['kind'])
                self.violations.append(v)
        for k, v in other.exhaustive.items():
            self.exhaustive[k] = self.exhaustive.get(k, 0) + v
        self.notes.extend(other.notes)
        return self


# --------------------------------------------------------------------------
# sharding


def _shard_entry(args):
    modname, fn, ctx, shard = args
    try:
        signal.signal(signal.SIGINT, signal.SIG_IGN)
        import importlib
        mod = importlib.import_module(modname)
        res = getattr(mod, fn)(ctx, shard)
        return ('ok', res)
    except HarnessError as e:
        return ('harness', 'shard %r: %s' % (shard, e))
    except BaseException as e:  # noqa
        return ('harness', 'shard %r: %s' % (shard, ''.join(
            traceback.format_exception(type(e), e, e.__traceback__))[-3000:]))


def run_shards(modname, fn, ctx, shards, nproc=None):
    """Run mod.fn(ctx, shard) for every shard on a process pool, merge."""
    nproc = nproc or NPROC
    total = Result()
    jobs = [(modname, fn, ctx, s) for s in shards]
    if nproc <= 1 or len(jobs) <= 1:
        outs = [_shard_entry(j) for j in jobs]
    else:
        mp = multiprocessing.get_context('fork')
        with mp.Pool(min(nproc, len(jobs))) as pool:
            outs = pool.map(_shard_entry, jobs, chunksize=1)
    for status, payload in outs:
        if status != 'ok':
            raise HarnessError(payload)
        total.merge(payload)
    return total


# --------------------------------------------------------------------------
# Hypothesis driver: collect several root causes, shrink each


class _StopShrink(BaseException):
    """Ends Hypothesis' shrink phase once its evaluation budget is used up."""


def hyp_search(strategy, prop, max_examples, seed, res, max_buckets=4,
               shrink=True, known=None, shrink_budget=1500, keyfn=repr,
               extra_time_cap=45.0):
    """Run `prop(value)` over `strategy`.

    prop raises Violation on failure.  Each distinct Violation.kind is shrunk
    and recorded once; then the search restarts with that kind excluded (and
    counted) so that what lies behind a shallow failure is still explored.
    `known(v)` may claim a violation as a listed known finding (returns its id).
    """
    import hypothesis
    from hypothesis import given, settings, HealthCheck, Phase
    phases = [Phase.generate] + ([Phase.shrink] if shrink else [])
    suppressed = set()
    t_start = time.time()
    for attempt in range(max_buckets + 1):
        # once a violation is known the verdict is fixed; further attempts only look for
        # additional root causes and are bounded in cases and wall-clock time
        if attempt and time.time() - t_start > extra_time_cap:
            res.notes.append('stopped looking for further root causes after %.0fs' % (time.time() - t_start))
            break
        state = {'target': None, 'last': None, 'budget': shrink_budget}

        def body(value):
            if state['target'] is not None:
                # bound the shrink phase by evaluations (Hypothesis' own cap is 5 minutes)
                state['budget'] -= 1
                if state['budget'] < 0:
                    raise _StopShrink()
            try:
                prop(value)
            except Violation as v:
                if known is not None:
                    kid = known(v)
                    if kid:
                        res.known_hits[kid] += 1
                        return
                if v.kind in suppressed:
                    res.excluded['already-reported:' + v.kind] += 1
                    return
                if state['target'] is None:
                    state['target'] = v.kind
                if v.kind != state['target']:
                    return  # picked up by the next attempt
                state['last'] = v
                state['last_key'] = keyfn(value)
                raise

        test = given(strategy)(body)
        test = settings(max_examples=max_examples if attempt == 0 else max(50, max_examples // 2), database=None, deadline=None,
                        derandomize=False, report_multiple_bugs=False,
                        phases=phases, print_blob=False,
                        suppress_health_check=[HealthCheck.too_slow,
                                               HealthCheck.data_too_large,
                                               HealthCheck.large_base_example])(test)
        test = hypothesis.seed(seed * 7919 + attempt)(test)
        try:
            test()
        except (Violation, _StopShrink):
            v = state['last']
            res.violations.append(v.record())
            suppressed.add(v.kind)
            continue
        except hypothesis.errors.FailedHealthCheck as e:
            raise HarnessError('generator health check failed: %s' % e)
        except hypothesis.errors.Flaky as e:
            # the same input failed and then passed: the oracle (or the code)
            # is not a function of the input; report what we saw last
            v = state['last']
            if v is not None:
                rec = v.record()
                rec['detail'] += ' [flaky: %s]' % str(e)[:200]
                res.violations.append(rec)
                suppressed.add(v.kind)
                continue
            raise HarnessError('flaky test without recorded violation: %s' % e)
        break
    return res


def ddmin(items, fails, max_tests=2000):
    """Classic delta debugging over a list; `fails(list)` -> bool."""
    items = list(items)
    n = 2
    tests = 0
    while len(items) >= 2 and tests < max_tests:
        chunk = max(1, len(items) // n)
        reduced = False
        for i in range(0, len(items), chunk):
            cand = items[:i] + items[i + chunk:]
            tests += 1
            if cand and fails(cand):
                items = cand
                n = max(n - 1, 2)
                reduced = True
                break
        if not reduced:
            if chunk == 1:
                break
            n = min(len(items), n * 2)
    return items


# --------------------------------------------------------------------------
# watchdog


class Timeout(BaseException):
    pass


def _alarm(signum, frame):
    raise Timeout()


def with_watchdog(seconds, f, *a, **k):
    old = signal.signal(signal.SIGALRM, _alarm)
    signal.setitimer(signal.ITIMER_REAL, seconds)
    try:
        return f(*a, **k)
    finally:
        signal.setitimer(signal.ITIMER_REAL, 0)
        signal.signal(signal.SIGALRM, old)


# --------------------------------------------------------------------------
# known findings / regression corpus / evidence / verdict


def load_known(pid):
    path = os.path.join(VERIF, 'known_findings.json')
    if not os.path.exists(path):
        return []
    data = json.load(open(path))
    return [e for e in data.get('findings', [])
            if e.get('property') == pid and e.get('status') == 'known']


class KnownMatcher:
    """Decides whether a violation is one of the listed known findings (narrow:
    failure kind AND structural pattern of the failing input)."""

    def __init__(self, entries):
        self.entries = entries

    def __call__(self, v):
        import re
        rec = v if isinstance(v, dict) else v.record()
        for e in self.entries:
            m = e.get('match', {})
            if m.get('kind_regex') and not re.search(m['kind_regex'], rec['kind']):
                continue
            text = rec['case'].get('src', '') if isinstance(rec['case'], dict) else ''
            if m.get('input_regex') and not re.search(m['input_regex'], text, re.S):
                continue
            return e['id']
        return None


def load_regress(pid):
    d = os.path.join(VERIF, 'regress', pid)
    out = []
    if os.path.isdir(d):
        for name in sorted(os.listdir(d)):
            if name.endswith('.json'):
                p = os.path.join(d, name)
                try:
                    out.append((p, json.load(open(p))))
                except Exception as e:
                    raise HarnessError('bad regression file %s: %r' % (p, e))
    return out


def write_replay(pid, rec, seed):
    d = os.path.join(VERIF, 'replays', pid)
    os.makedirs(d, exist_ok=True)
    body = {'property': pid, 'kind': rec['kind'], 'case': rec['case'],
            'detail': rec.get('detail', ''), 'seed': seed}
    name = '%016x.json' % h64(json.dumps([rec['kind'], rec['case']], sort_keys=True, default=repr))
    path = os.path.join(d, name)
    with open(path, 'w') as f:
        json.dump(body, f, indent=1, default=repr)
    return path


def write_evidence(pid, tier, seed, res, rule, wall, extra=None, assumptions=()):
    cov = {
        'evaluations': int(res.evaluations),
        'distinct_nontrivial': len(res.nontrivial),
        'rule': rule,
        'samples': res.samples[:12] or ['<none>'],
        'class_histogram': dict(sorted(res.hist.items())),
        'excluded_by_construction_or_side_condition': dict(sorted(res.excluded.items())),
        'known_findings_observed': dict(sorted(res.known_hits.items())),
    }
    if res.exhaustive:
        cov['exhaustive'] = True
        cov['exhaustive_spaces'] = dict(sorted(res.exhaustive.items()))
    if res.notes:
        cov['notes'] = res.notes[:20]
    if extra:
        cov.update(extra)
    ev = {
        'property_id': pid, 'tier': tier, 'seed': int(seed), 'level': 'exploration',
        'coverage': cov, 'assumptions': list(assumptions),
        'wall_s': round(wall, 2), 'violations': len(res.violations),
    }
    d = os.path.join(VERIF, 'evidence')
    os.makedirs(d, exist_ok=True)
    tmp = os.path.join(d, pid + '.json.tmp')
    with open(tmp, 'w') as f:
        json.dump(ev, f, indent=1, default=repr)
    os.replace(tmp, os.path.join(d, pid + '.json'))
    return ev


class Ctx:
    def __init__(self, pid, tier, seed):
        self.pid = pid
        self.tier = tier
        self.seed = seed
        self.thorough = tier == 'thorough'

    def pick(self, quick, thorough):
        """Budget of the current tier.  Example counts of the thorough tier are capped at THOROUGH_FACTOR times the
        quick count (VERIF_THOROUGH_FACTOR, default 8), which keeps every thorough check near ten minutes on 16 cores;
        exhaustive depths and size tuples are taken as given."""
        if not self.thorough:
            return quick
        if isinstance(quick, int) and isinstance(thorough, int) and quick >= 20:
            factor = int(os.environ.get('VERIF_THOROUGH_FACTOR', '8'))
            return min(thorough, quick * factor)
        return thorough
