"""Oracles over TexSoup trees: canonical form, walkers, aligners, reference maps."""
from functools import lru_cache


def body_of(expr):
    """The node's own content list (today `_contents`); public fall-back: expr.all minus
    what the arguments contribute (DESIGN 1.3: the only private touch-point)."""
    c = getattr(expr, '_contents', None)
    if isinstance(c, list):
        return c
    k = sum(len(list(a.contents)) for a in expr.args)
    return list(expr.all)[k:]


def classify(e):
    from TexSoup.data import TexText, TexCmd, TexNamedEnv, TexEnv, BraceGroup, BracketGroup, TexNode
    if isinstance(e, TexNode):
        return 'node'
    if isinstance(e, TexText):
        return 'text'
    if isinstance(e, str):
        return 'str'
    if isinstance(e, BraceGroup):
        return '{'
    if isinstance(e, BracketGroup):
        return '['
    if isinstance(e, TexNamedEnv):
        return 'env'
    if isinstance(e, TexCmd):
        return 'cmd'
    if isinstance(e, TexEnv):
        return 'math'
    return 'other:' + type(e).__name__


def _merge(items):
    out = []
    for it in items:
        if it[0] == 'text' and it[1] == '':
            continue
        if it[0] == 'text' and out and out[-1][0] == 'text':
            out[-1] = ('text', out[-1][1] + it[1])
        else:
            out.append(it)
    return tuple(out)


def canon_args(args, skip):
    res = []
    for a in args:
        k = classify(a)
        if k in ('{', '['):
            res.append((k, canon_body(body_of(a), skip)))
        elif k == 'cmd':
            res.append(('cmdarg', str(a.name)))
        else:
            res.append(('?arg', k, str(a)))
    return tuple(res)


def canon_body(items, skip, raw=False):
    out = []
    for e in items:
        k = classify(e)
        if k in ('text', 'str'):
            s = str(e)
            if s.startswith('%') and not raw:
                out.append(('comment', s))
            else:
                out.append(('text', s))
        elif k == 'cmd':
            out.append(('cmd', str(e.name), canon_args(e.args, skip), canon_body(body_of(e), skip)))
        elif k == 'env':
            name = str(e.name)
            out.append(('env', name, canon_args(e.args, skip), canon_body(body_of(e), skip, raw=name in skip)))
        elif k == '{' or k == '[':
            out.append(('group', k, canon_body(body_of(e), skip)))
        elif k == 'math':
            out.append(('math', str(e.begin), canon_body(body_of(e), skip)))
        else:
            out.append(('?', k, str(e)))
    return _merge(out)


def canon_tree(soup, skip=()):
    """Canonical nested tuples of a parsed document (TexNode or root TexExpr)."""
    from vlib.texgen import SKIP_BUILTIN
    expr = getattr(soup, 'expr', soup)
    return canon_body(body_of(expr), tuple(SKIP_BUILTIN) + tuple(skip))


def first_diff(a, b, path='root'):
    """Human-readable location of the first difference between two canonical forms."""
    if a == b:
        return None
    if type(a) != type(b) or not isinstance(a, tuple):
        return '%s: %r != %r' % (path, a, b)
    if a and b and isinstance(a[0], str) and isinstance(b[0], str):
        # a single item
        if a[0] != b[0] or len(a) != len(b):
            return '%s: %s != %s' % (path, _short(a), _short(b))
        for i, (x, y) in enumerate(zip(a, b)):
            if x != y:
                if isinstance(x, tuple) and isinstance(y, tuple):
                    return first_diff(x, y, '%s/%s[%d]' % (path, a[0] + ':' + str(a[1])[:12] if len(a) > 1 and isinstance(a[1], str) else a[0], i))
                return '%s/%s field %d: %r != %r' % (path, a[0], i, x, y)
    for i, (x, y) in enumerate(zip(a, b)):
        if x != y:
            return first_diff(x, y, '%s[%d]' % (path, i))
    return '%s: length %d != %d (%s | %s)' % (path, len(a), len(b), _short(a[len(b):] if len(a) > len(b) else ()),
                                             _short(b[len(a):] if len(b) > len(a) else ()))


def _short(x):
    s = repr(x)
    return s if len(s) < 160 else s[:157] + '...'


# --------------------------------------------------------------------------
# walking a TexSoup expression tree


def walk_exprs(expr, depth=0):
    """Yield (expr, depth, role) for every expression below `expr`: arguments, their
    contents, body contents; role in {'arg', 'argitem', 'body'}."""
    for a in expr.args:
        yield a, depth + 1, 'arg'
        if classify(a) in ('{', '['):
            for c in body_of(a):
                yield c, depth + 2, 'argitem'
                if classify(c) not in ('text', 'str'):
                    yield from walk_exprs(c, depth + 2)
    for c in body_of(expr):
        yield c, depth + 1, 'body'
        if classify(c) not in ('text', 'str'):
            yield from walk_exprs(c, depth + 1)


# --------------------------------------------------------------------------
# reference line/column map (C13)


def ref_line_col(src, i):
    return src.count('\n', 0, i), i - (src.rfind('\n', 0, i) + 1)


# --------------------------------------------------------------------------
# aligners (C08 conservation, C07 closers-only)


def conserved(src, out):
    """True iff `out` is `src` with nothing changed except removed blank runs that end
    directly before '{' or '[' (C08)."""
    n, m = len(src), len(out)
    # iterative DP over (i, j): reachable set, processed by increasing i
    # blank_ok[i]: src[i] is blank and the maximal blank run containing i is followed by { or [
    blank_ok = [False] * n
    i = n - 1
    while i >= 0:
        if src[i] in ' \t\n\r':
            j = i
            while j >= 0 and src[j] in ' \t\n\r':
                j -= 1
            follows = i + 1 < n and src[i + 1] in '{['
            for k in range(j + 1, i + 1):
                blank_ok[k] = follows
            i = j
        else:
            i -= 1
    reach = {0}
    for i in range(n + 1):
        if not reach:
            return False
        nxt = set()
        for j in reach:
            if i < n:
                if j < m and src[i] == out[j]:
                    nxt.add(j + 1)
                if blank_ok[i]:
                    nxt.add(j)
        if i == n:
            return m in reach
        reach = nxt
    return False


def closers_only(src, out):
    """True iff `out` is `src` plus inserted closers (`}`, `]`, `\\end{n}` for an n opened
    earlier in out) and minus blank runs directly before '{'/'[' (C07.3)."""
    import re
    n, m = len(src), len(out)
    blank_ok = [False] * n
    i = n - 1
    while i >= 0:
        if src[i] in ' \t\n\r':
            j = i
            while j >= 0 and src[j] in ' \t\n\r':
                j -= 1
            follows = i + 1 < n and src[i + 1] in '{['
            for k in range(j + 1, i + 1):
                blank_ok[k] = follows
            i = j
        else:
            i -= 1
    # possible insertions at out position j: '}' , ']' , or '\end{name}' with \begin{name} earlier in out
    # an inserted \\end{NAME} is accepted when \\begin{NAME} occurs earlier in the output; NAME is whatever
    # stands between "\\begin{" and any later "}" (it may contain braces or a backslash)
    ends = {}
    begins = [mt.end() for mt in re.finditer(r'\\begin\{', out)]
    for mt in re.finditer(r'\\end\{', out):
        j = mt.start()
        for b in begins:
            if b > j:
                break
            k = out.find('}', b)
            while k != -1 and k < j + 1:
                name = out[b:k]
                if out.startswith(name + '}', mt.end()):
                    ends.setdefault(j, set()).add(mt.end() + len(name) + 1)
                k = out.find('}', k + 1)
    reach = {(0, 0)}
    seen = set()
    stack = [(0, 0)]
    while stack:
        i, j = stack.pop()
        if (i, j) in seen:
            continue
        seen.add((i, j))
        if i == n and j == m:
            return True
        cand = []
        if i < n and j < m and src[i] == out[j]:
            cand.append((i + 1, j + 1))
        if i < n and blank_ok[i]:
            cand.append((i + 1, j))
        if j < m and out[j] in '}]':
            cand.append((i, j + 1))
        for e in ends.get(j, ()):
            cand.append((i, e))
        for c in cand:
            if c not in seen:
                stack.append(c)
    return False
