"""Very deep homogeneous chains (one construct nested d times around one letter).

The random documents stay shallow; a defect that only shows beyond some nesting depth (a level counter, a cap, a
cache keyed by depth) needs documents as deep as the pinned tree can handle at all.  The depths below are the largest
at which the pinned tree still parses AND answers every query under CPython's default recursion limits, so they are
reachable for every user.  The oracle is closed-form: for d openers of one kind the tree, the offsets and the search
results are known without running any code under test.  A RecursionError is a resource limit, not a verdict: the case
is counted as inconclusive."""
from vlib import harness as H

# (tag, opener, closer, wrap, what one level adds, deepest depth tried)
CHAINS = [
    ('group', '{', '}', '%s', 'group', 270),
    ('env', '\\begin{e}', '\\end{e}', '%s', 'env', 270),
    ('cmd-brace-arg', '\\x{', '}', '%s', 'cmd', 100),
    ('cmd-bracket-arg', '\\x[', ']', '%s', 'cmd', 100),
    ('itemize', '\\begin{itemize}\\item ', '\\end{itemize}', '%s', 'list', 100),
    ('math-cmd-arg', '\\x{', '}', '$%s$', 'cmd', 75),
    ('math-group', '{', '}', '$%s$', 'group', 150),
    ('paren-math-cmd-arg', '\\x{', '}', '\\(%s\\)', 'cmd', 75),
    ('display-math-frac', '\\frac{1}{', '}', '$$%s$$', 'frac', 75),
    ('align-cmd-arg', '\\x{', '}', '\\begin{align}%s\\end{align}', 'cmd', 75),
]
DEPTHS = (45, 64, 100, 130, 200, 256, 270)


def cases():
    for tag, o, c, wrap, kind, top in CHAINS:
        for d in DEPTHS:
            if d <= top:
                yield tag, o, c, wrap, kind, d
        if top not in DEPTHS:
            yield tag, o, c, wrap, kind, top


def build(o, c, wrap, d):
    return wrap % (o * d + 'a' + c * d)


def attempt(res, what, fn):
    """Run one query; a RecursionError makes just this query inconclusive."""
    try:
        return True, fn()
    except RecursionError:
        if res is not None:
            res.excluded['deep-chain:recursion-limit:' + what] += 1
        return False, None


def closure(node):
    """Transitive closure of .contents, iteratively, in document order."""
    out = []
    stack = [iter(list(node.contents))]
    while stack:
        try:
            x = next(stack[-1])
        except StopIteration:
            stack.pop()
            continue
        out.append(x)
        if hasattr(x, 'contents') and not isinstance(x, str):
            stack.append(iter(list(x.contents)))
    return out


def check(prop, tag, o, c, wrap, kind, d, res=None, parts=('parse', 'roundtrip', 'positions', 'search', 'descendants', 'math')):
    """Closed-form checks on one chain.  `prop` prefixes the violation kinds; `parts` selects what is judged."""
    from TexSoup import TexSoup
    src = build(o, c, wrap, d)
    case = {'src': src, 'sub': 'deep-chain', 'chain': tag, 'depth': d}
    try:
        soup = TexSoup(src)
    except RecursionError:
        if res is not None:
            res.excluded['deep-chain:recursion-limit:parse'] += 1
        return None
    except Exception as e:  # noqa - a well-formed document must parse
        raise H.Violation('%s:deep-chain:parse:%s' % (prop, type(e).__name__), case,
                          'a %s chain of depth %d does not parse: %r' % (tag, d, e))
    pre = wrap.index('%s')
    if 'roundtrip' in parts:
        ok, txt = attempt(res, 'str', lambda: str(soup))
        if ok and txt != src:
            raise H.Violation('%s:deep-chain:roundtrip' % prop, case, 'depth %d: text differs at offset %d' % (
                d, next((i for i, (a, b) in enumerate(zip(txt, src)) if a != b), min(len(txt), len(src)))))
    name = {'cmd': 'x', 'env': 'e', 'list': 'itemize', 'frac': 'frac'}.get(kind)
    if 'search' in parts and name:
        ok, found = attempt(res, 'find_all', lambda: list(soup.find_all(name)))
        if ok:
            if len(found) != d:
                raise H.Violation('%s:deep-chain:find_all-count' % prop, case,
                                  'find_all(%r) returns %d nodes, the document has %d' % (name, len(found), d))
            if 'positions' in parts:
                for i, n in enumerate(found):
                    want = pre + i * len(o)
                    if n.position != want:
                        raise H.Violation('%s:deep-chain:position' % prop, case,
                                          'level %d of %d: position %r, its text starts at %d' % (i, d, n.position, want))
        ok, cnt = attempt(res, 'count', lambda: soup.count(name))
        if ok and cnt != d:
            raise H.Violation('%s:deep-chain:count' % prop, case, 'count(%r) is %d, the document has %d' % (name, cnt, d))
        ok, first = attempt(res, 'find', lambda: soup.find(name))
        if ok and (first is None or first.position != pre):
            raise H.Violation('%s:deep-chain:find-first' % prop, case, 'find(%r) is not the outermost level' % name)
        if kind == 'list':
            ok, items = attempt(res, 'find_all-item', lambda: list(soup.find_all('item')))
            if ok and len(items) != d:
                raise H.Violation('%s:deep-chain:find_all-count' % prop, case, 'find_all(item) returns %d of %d' % (len(items), d))
    if 'descendants' in parts:
        ok, desc = attempt(res, 'descendants', lambda: list(soup.descendants))
        if ok:
            ref = closure(soup)
            key = lambda x: (type(x).__name__, getattr(x, 'position', None), len(str(x)))
            if sorted(map(key, desc), key=repr) != sorted(map(key, ref), key=repr):   # same members; the order is not judged here
                raise H.Violation('%s:deep-chain:descendants-not-closure' % prop, case,
                                  'descendants has %d entries, the transitive closure of contents has %d' % (len(desc), len(ref)))
            per_level = {'group': 1, 'env': 1, 'cmd': 1, 'list': 2, 'frac': 1}[kind]
            # closed form: d levels, the letter, the wrapping math node (frac: its first argument is not content)
            want = d * per_level + 1 + (0 if wrap == '%s' else 1)
            if kind != 'frac' and len(desc) != want:
                raise H.Violation('%s:deep-chain:descendants-count' % prop, case,
                                  'descendants has %d entries, expected %d for depth %d' % (len(desc), want, d))
    if 'math' in parts and wrap != '%s':
        top = list(soup.contents)
        if len(top) != 1 or str(top[0]) != src or getattr(top[0], 'position', None) != 0:
            raise H.Violation('%s:deep-chain:math-region' % prop, case,
                              'the math region is not one node holding the enclosed source (top level: %d nodes)' % len(top))
    return case


def shard(prop, parts, idx, nshard, res, seen=None):
    H.import_repo()
    seen = set() if seen is None else seen
    for k, (tag, o, c, wrap, kind, d) in enumerate(cases()):
        if k % nshard != idx:
            continue
        try:
            case = check(prop, tag, o, c, wrap, kind, d, res, parts)
        except H.Violation as v:
            if v.kind not in seen:
                seen.add(v.kind)
                res.violations.append(v.record())
            continue
        if case is not None:
            res.case(case['src'], True, sample={'chain': tag, 'depth': d, 'src': case['src'][:60] + '...'},
                     classes=['deep-chain:' + tag, 'deep-chain-depth>=%d' % (d // 50 * 50)])
    return res


def replay(prop, parts, case):
    H.import_repo()
    for tag, o, c, wrap, kind, top in CHAINS:
        if tag == case['chain']:
            check(prop, tag, o, c, wrap, kind, int(case['depth']), None, parts)
            return
    raise H.HarnessError('unknown chain %r' % case.get('chain'))
