"""Child interpreter for C17's hash-seed sub-check: parse a corpus, print one digest per entry."""
import hashlib
import json
import os
import sys

sys.path.insert(0, os.path.dirname(os.path.dirname(os.path.abspath(__file__))))
from vlib import harness as H  # noqa
from vlib import oracles as O  # noqa

H.import_repo()
from TexSoup import TexSoup  # noqa

corpus = json.load(open(sys.argv[1]))
out = []
for s in corpus:
    try:
        soup = TexSoup(s)
        d = repr(('ok', O.canon_tree(soup), str(soup)))
    except Exception as e:  # noqa - the class is part of the digest
        d = repr(('raise', type(e).__name__))
    out.append(hashlib.blake2b(d.encode('utf-8', 'surrogatepass'), digest_size=8).hexdigest())
json.dump(out, sys.stdout)
