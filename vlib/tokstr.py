"""Strings over token-kind alphabets: enumeration, mutation, side-condition scanner (DESIGN 2.2)."""
import itertools
import re

# one representative per character category, the characters that are significant after a sizing
# prefix, and the words the tokenizer/reader treat specially
A_CAT = ['\\', '{', '}', '$', '&', '\n', '\r', '#', '^', '_', '\x00', ' ', '\t', 'a', '.', '~', '%', '\x7f',
         '[', ']', '(', ')', '*', '<', '>', '|', '\ufeff', '\xa0',
         'begin', 'end', 'item', 'left', 'big', 'verbatim', 'equation', 'cup', 'textbf', 'def', 'section',
         'label', 'newcommand', 'e']
A_CORE = ['\\', '{', '}', '$', '\n', '\x00', ' ', 'a', '%', '[', ']', '(', '*', '|', 'begin', 'end', 'item',
          'e', 'verbatim', 'left', 'textbf']
A_TOK = ['\\begin{e}', '\\end{e}', '\\begin{f}', '\\end{f}', '\\begin{verbatim}', '\\end{verbatim}',
         '\\begin{equation}', '\\end{equation}', '\\begin{itemize}', '\\end{itemize}', '\\item', '\\x', '\\x{',
         '\\x[', '{a}', '[a]', '{', '}', '[', ']', '$', '$$', '\\(', '\\)', '\\[', '\\]', '\\\\', '\\%', '%', '\n',
         ' ', 'a', '.', '(', '|', '\\left', '\\left(', '\\big.', '\\cup', '\\textbf{', '\\label{', '\\section{',
         '\\def\\x{', '\\newcommand', '\\begin', '\\end',
         # environment names that are not a single word
         '\\begin{ }', '\\end{ }', '\\begin{\\a }', '\\end{\\a }', '\r', '\\section{a}[b]', '\\def{x}{', '\\begin{document}', '\\end{document}', '{e}',
         # a comment directly behind a command name
         '\\end%c\n', '\\x%c\n']
A_TOK_CORE = ['\\begin{e}', '\\end{e}', '\\end{f}', '\\begin{verbatim}', '\\end{verbatim}', '\\begin{equation}',
              '\\begin{itemize}', '\\end{itemize}', '\\item', '\\x', '\\x{', '\\x[', '{', '}', '[', ']', '$', '$$',
              '\\(', '\\]', '\\\\', '%', '\n', ' ', 'a', '\\left(', '\\textbf{', '\\newcommand', '\\begin', '\\end', '\r',
              '\\section{a}[b]']

# environment names in every written form (nested braces, blanks, line breaks, a command with a spaced argument) on
# both delimiters, with a little context: all strings of up to 3 of these symbols decide which \\begin/\\end pairs match
_ENV_NAME_FORMS = ['e', '{e}', 'e{}', 'a b', 'a\nb', ' e', 'e ', 'a\\b {x}', 'a\\b{x}', 'E', 'e*', 'ee']
A_ENV = ['\\begin{%s}' % n for n in _ENV_NAME_FORMS] + ['\\end{%s}' % n for n in _ENV_NAME_FORMS] + ['x', '{', '}', ' ', '\\end {e}', '\\begin {e}', '[o]']

DOCUMENTED_ASSERTS = ('Begin command must be followed by an env name.', 'invalid in math mode')


def enumerate_strings(alpha, maxlen, idx, nshard, minlen=0):
    """All strings of minlen..maxlen symbols over alpha, striped over shards."""
    count = 0
    for d in range(minlen, maxlen + 1):
        for tup in itertools.product(alpha, repeat=d):
            if count % nshard == idx:
                yield tup
            count += 1


def mutations(src, alpha, limit=None, stride=1):
    """Systematic single-fault mutations of a document: prefixes, deletions, adjacent
    transpositions, insertions of every alphabet symbol at every position."""
    n = len(src)
    out = []
    pos = range(0, n + 1, stride)
    for i in pos:
        out.append(('prefix', i, src[:i]))
    for i in range(0, n, stride):
        out.append(('delete', i, src[:i] + src[i + 1:]))
    for i in range(0, n - 1, stride):
        if src[i] != src[i + 1]:
            out.append(('transpose', i, src[:i] + src[i + 1] + src[i] + src[i + 2:]))
    for i in pos:
        for a in alpha:
            out.append(('insert', i, src[:i] + a + src[i:]))
    if limit is not None and len(out) > limit:
        step = len(out) / float(limit)
        out = [out[int(k * step)] for k in range(limit)]
    return out


def raised_deliberately(exc, package='TexSoup'):
    """True iff the innermost frame of the traceback is a `raise` statement inside the package."""
    import linecache
    tb = exc.__traceback__
    last = None
    while tb is not None:
        last = tb
        tb = tb.tb_next
    if last is None:
        return False
    fn = last.tb_frame.f_code.co_filename.replace('\\', '/')
    if '/%s/' % package not in fn:
        return False
    line = linecache.getline(fn, last.tb_lineno).strip()
    return line.startswith('raise ') or line == 'raise'


def outcome(src, tolerance=0, skip_envs=()):
    """Classify TexSoup(src): ('ok', soup) | ('reject', kind) | ('leak', kind, exc)."""
    from TexSoup import TexSoup
    try:
        soup = TexSoup(src, tolerance=tolerance, skip_envs=skip_envs)
        return ('ok', soup)
    except EOFError:
        return ('reject', 'EOFError')                 # never raised by accident: always the parser's diagnostic
    except TypeError as e:
        # the malformed-argument diagnostic is a TypeError that the parser raises itself (a `raise` statement
        # in the package is the innermost frame); a TypeError that Python raises for an internal slip is a leak.
        # The wording of the message is not part of the contract.
        if 'malformed' in str(e).lower() or raised_deliberately(e):
            return ('reject', 'TypeError')
        return ('leak', 'TypeError-undocumented', e)
    except AssertionError as e:
        if str(e).strip():                              # a diagnostic carries a message; a bare internal assert does not
            return ('reject', 'AssertionError')
        return ('leak', 'AssertionError-undocumented', e)
    except RecursionError as e:
        return ('leak', 'RecursionError', e)
    except Exception as e:  # noqa - this IS the classification
        return ('leak', type(e).__name__, e)


# --------------------------------------------------------------------------
# side-condition scanner for C08 / C16 / C07.3 (conservative: certifies or declines)

_SPACER = r'[ \t]*[\n\r]?[ \t]*'
_RE_NAME = re.compile(r'[A-Za-z][A-Za-z*]*')
SIZE_PREFIX = ('left', 'right', 'big', 'Big', 'bigg', 'Bigg')
DELIMS = ('\\langle', '\\rangle', '\\lfloor', '\\rfloor', '\\lceil', '\\rceil', '\\ulcorner', '\\urcorner',
          '\\lbrack', '\\rbrack', '\\{', '\\}', '(', ')', '<', '>', '[', ']', '{', '}', '.', '|')
_RE_BRACE_NEXT = re.compile(_SPACER + r'\{')
_RE_SECTION = re.compile(r'(' + _SPACER + r'\[[^\[\]{}\\%$]*\])?' + _SPACER + r'\{')
# \def: both mandatory arguments brace-delimited (the usual \def\name{..} has a bare first argument: declined)
_RE_DEF = re.compile(_SPACER + r'\{[^\[\]{}\\%$]*\}' + _SPACER + r'\{')


def side_conditions(s, sizing=False):
    """None if `s` certifiably satisfies the side conditions, else a reason string.

    * free of NUL/DEL;
    * every \\def, \\textbf, \\section, \\label is followed by brace-delimited mandatory arguments;
    * (sizing=True) every sizing prefix is immediately followed by a delimiter.
    The scan is lexical (escape pairs, comments, command names) and conservative: anything it cannot
    certify is declined."""
    if '\x00' in s or '\x7f' in s:
        return 'nul-or-del'
    i, n = 0, len(s)
    while i < n:
        c = s[i]
        if c == '%':
            j = i
            while j < n and s[j] not in '\n\r':
                j += 1
            i = j
            continue
        if c != '\\':
            i += 1
            continue
        if i + 1 >= n:
            return None
        m = _RE_NAME.match(s, i + 1)
        if not m:
            i += 2         # escaped symbol / math switch
            continue
        name = m.group()
        j = m.end()
        # the tokenizer tries sizing-prefix+delimiter first; a name is then cut after the prefix
        for p in SIZE_PREFIX:
            if name.startswith(p) and any(s.startswith(d, i + 1 + len(p)) for d in DELIMS):
                name = p
                j = i + 1 + len(p)
                break
        if name in ('textbf', 'label'):
            if not _RE_BRACE_NEXT.match(s, j):
                return 'bare-argument:' + name
        elif name == 'section':
            if not _RE_SECTION.match(s, j):
                return 'bare-argument:section'
        elif name == 'def':
            if not _RE_DEF.match(s, j):
                return 'bare-argument:def'
        elif sizing and name in SIZE_PREFIX:
            if not any(s.startswith(d, j) for d in DELIMS):
                return 'sizing-prefix-without-delimiter'
        i = j
    return None
