"""Shared driver for the checks that run over generated well-formed documents."""
import json

from vlib import harness as H
from vlib import texgen as G
from vlib import oracles as O


def parse(src, kindprefix, case, **kw):
    """TexSoup(src) with classified failure: any exception on a well-formed document is a violation."""
    from TexSoup import TexSoup
    try:
        return TexSoup(src, **kw)
    except RecursionError as e:
        raise H.Violation('%s:parse:RecursionError' % kindprefix, case, repr(e)[:300])
    except Exception as e:  # noqa - classified
        raise H.Violation('%s:parse:%s@%s' % (kindprefix, type(e).__name__, H.inner_frame(e)), case, repr(e)[:400])


def tuplify(x):
    if isinstance(x, list):
        return tuple(tuplify(i) for i in x)
    return x


def doc_shard(ctx, profile, nexamples, idx, check, res, spaced=False, min_kinds=3, min_depth=2,
              nontrivial=None, seed_salt=0, max_buckets=3, shrink_budget=400):
    """Run `check(nodes, src, case, res)` over `nexamples` generated documents.

    check raises H.Violation; returns optional set of class labels."""
    counters = {}

    def prop(nodes):
        src = G.render(nodes, spaced=spaced)
        case = {'src': src, 'profile': profile if isinstance(profile, str) else 'custom'}
        labels = check(nodes, src, case, res) or ()
        kinds, depth, count = G.stats(nodes)
        nt = (len(kinds) >= min_kinds and depth >= min_depth) if nontrivial is None else nontrivial(nodes, kinds, depth, labels)
        res.case(src, nt, sample=src if len(src) < 400 else src[:400] + '...',
                 classes=['kind:' + k for k in kinds] + list(labels) + ['profile:%s' % case['profile']])

    H.hyp_search(G.wfdoc(profile, counters), prop, nexamples, ctx.seed * 1000 + idx * 7 + seed_salt, res,
                 known=getattr(ctx, 'known', None), keyfn=G.text_of, max_buckets=max_buckets,
                 shrink_budget=shrink_budget)
    for k, v in counters.items():
        if k.startswith('exclude:'):
            res.excluded[k] += v
        else:
            res.hist['gen:' + k] += v
    return res


# --------------------------------------------------------------------------
# C01 building block: every node's text is the slice of the source at its position


def check_slices(src, soup, kindprefix, case):
    """For every command, environment, group, math region, argument group and text leaf reachable
    from the root: src[p:p+len(str(n))] == str(n)."""
    n_checked = 0
    for e, depth, role in O.walk_exprs(soup.expr):
        k = O.classify(e)
        s = str(e)
        if k in ('text', 'str'):
            tok = getattr(e, '_text', e)
            p = getattr(tok, 'position', None)
            if p is None or p < 0:
                continue
        else:
            p = getattr(e, 'position', None)
            if p is None or p < 0:
                raise H.Violation('%s:slice:no-position:%s' % (kindprefix, k), case,
                                  '%s %r has no recorded position (%r)' % (k, s[:60], p))
        n_checked += 1
        if src[p:p + len(s)] != s:
            raise H.Violation('%s:slice:%s' % (kindprefix, k if k not in ('str',) else 'text'), case,
                              '%s recorded at %d: source has %r, node text is %r' % (k, p, src[p:p + len(s)][:80], s[:80]))
    return n_checked


def check_descendant_slices(src, soup, kindprefix, case):
    n = 0
    for d in soup.descendants:
        s = str(d)
        p = getattr(d, 'position', None)
        if p is None or not isinstance(p, int) or p < 0:
            continue
        n += 1
        if src[p:p + len(s)] != s:
            raise H.Violation('%s:descendant-slice' % kindprefix, case,
                              'descendant recorded at %d: source has %r, node text is %r' % (p, src[p:p + len(s)][:80], s[:80]))
    return n


def locate(soup, a):
    """The TexNode whose recorded position is `a`, by descending through the spans that contain it."""
    cur = soup
    for _ in range(200):
        nxt = None
        for c in cur.contents:
            if O.classify(c) != 'node':
                continue
            p = c.position
            if not isinstance(p, int) or p < 0:
                continue
            if p == a:
                return c
            if p < a < p + len(str(c)):
                nxt = c
        if nxt is None:
            return None
        cur = nxt
    return None


BIG_UNIT = '\\section{S%d} text $x_{%d}$ and \\textbf{b%d} %% c\n\\begin{itemize}\\item a%d \\item[l] b\\end{itemize}\n\n'


def big_source(size):
    """A well-formed document of exactly `size` characters (buffer / block sizes of readers are powers of two)."""
    parts, n, k = [], 0, 0
    while True:
        u = BIG_UNIT % (k, k, k, k)
        if n + len(u) > size:
            break
        parts.append(u)
        n += len(u)
        k += 1
    return ''.join(parts) + 'x' * (size - n)
